/-
  The JSON reader undoes the canonical printer (values without numbers).

  `parse_print`: for every value without numbers, `Parse.parse (Json.print v) = some v`;
  `parse_jcs`: parsing the RFC 8785 encoding of such a value yields its normal form.
  Numbers are excluded: their round trip is the shortest-digits theorem of IEEE-754 doubles,
  which the number printer's model is validated against by the stream, not proved.
-/
import Sidetree.Jcs
import Sidetree.Lemmas.Normalize
import Sidetree.Lemmas.Utf16

namespace Sidetree.RT
open Sidetree Sidetree.Parse Sidetree.Json

theorem hexVal_hexDigit : ∀ d : Fin 16, hexVal? (hexDigit d.val) = some d.val := by decide

theorem hex4Val_hex4 (n : Nat) (h : n < 65536) (rest : List Char) : hex4Val? (hex4 n ++ rest) = some (n, rest) := by
  have a := hexVal_hexDigit ⟨n / 4096 % 16, by omega⟩
  have b := hexVal_hexDigit ⟨n / 256 % 16, by omega⟩
  have c := hexVal_hexDigit ⟨n / 16 % 16, by omega⟩
  have d := hexVal_hexDigit ⟨n % 16, by omega⟩
  simp only at a b c d
  simp only [hex4, List.cons_append, List.nil_append, hex4Val?, a, b, c, d]
  congr 2
  omega

/-- one character: the reader undoes the escaping and goes on -/
theorem parseStringBody_char (c : Char) (acc tail : List Char) (fuel : Nat) :
    parseStringBody (fuel + 1) acc (escapeChar c ++ tail) = parseStringBody fuel (c :: acc) tail := by
  unfold escapeChar
  by_cases h1 : c = '\\'
  · subst h1; simp [parseStringBody]
  by_cases h2 : c = '"'
  · subst h2; simp [parseStringBody]
  have ofNat : Char.ofNat c.toNat = c := Char.ofNat_toNat c
  by_cases h3 : c.toNat = 8
  · have : c = Char.ofNat 8 := by rw [← h3, ofNat]
    subst this; simp [parseStringBody]
  by_cases h4 : c.toNat = 12
  · have : c = Char.ofNat 12 := by rw [← h4, ofNat]
    subst this; simp [parseStringBody]
  by_cases h5 : c = '\n'
  · subst h5; simp [parseStringBody]
  by_cases h6 : c = '\r'
  · subst h6; simp [parseStringBody]
  by_cases h7 : c = '\t'
  · subst h7; simp [parseStringBody]
  by_cases h8 : c.toNat < 0x20
  · simp only [h1, h2, h3, h4, h5, h6, h7, h8, if_false, if_true]
    have hx := hex4Val_hex4 c.toNat (by omega) tail
    simp only [List.cons_append, parseStringBody, if_true, hx]
    have n1 : ¬ (0xD800 ≤ c.toNat ∧ c.toNat < 0xDC00) := by omega
    have n2 : ¬ (0xDC00 ≤ c.toNat ∧ c.toNat < 0xE000) := by omega
    simp [n1, n2, ofNat]
  · simp only [h1, h2, h3, h4, h5, h6, h7, h8, if_false, List.cons_append, List.nil_append]
    conv => lhs; unfold parseStringBody
    split
    · rename_i heq; simp at heq
    · rename_i heq; simp only [List.cons.injEq] at heq; exact absurd heq.1 h2
    · rename_i heq; simp only [List.cons.injEq] at heq; exact absurd heq.1 h1
    · rename_i c' rest' _ _ heq
      simp only [List.cons.injEq] at heq
      obtain ⟨e1, e2⟩ := heq
      subst e1; subst e2
      simp [h8]

/-- a quoted string body is read back, with one unit of fuel per source character -/
theorem parseStringBody_escape : ∀ (cs acc rest : List Char) (fuel : Nat), fuel ≥ cs.length + 1 →
    parseStringBody fuel acc (escape cs ++ '"' :: rest) = some (acc.reverse ++ cs, rest)
  | [], acc, rest, fuel, h => by
    obtain ⟨f, rfl⟩ : ∃ f, fuel = f + 1 := ⟨fuel - 1, by simp at h; omega⟩
    simp [escape, parseStringBody]
  | c :: cs, acc, rest, fuel, h => by
    obtain ⟨f, rfl⟩ : ∃ f, fuel = f + 1 := ⟨fuel - 1, by simp at h; omega⟩
    have : escape (c :: cs) ++ '"' :: rest = escapeChar c ++ (escape cs ++ '"' :: rest) := by
      simp [escape, List.append_assoc]
    rw [this, parseStringBody_char, parseStringBody_escape cs (c :: acc) rest f (by simp at h ⊢; omega)]
    simp

theorem escape_length_ge (cs : List Char) : cs.length ≤ (escape cs).length := by
  induction cs with
  | nil => simp [escape]
  | cons c cs ih =>
    have : 1 ≤ (escapeChar c).length := by
      unfold escapeChar
      repeat (first | split | simp [hex4])
    simp only [escape, List.flatMap_cons, List.length_append, List.length_cons] at ih ⊢
    omega

/-- a quoted string as the value reader meets it (after the opening quote) -/
theorem read_quoted (s : String) (rest : List Char) :
    parseStringBody ((escape s.toList ++ '"' :: rest).length + 1) [] (escape s.toList ++ '"' :: rest) = some (s.toList, rest) := by
  have := parseStringBody_escape s.toList [] rest ((escape s.toList ++ '"' :: rest).length + 1)
    (by have := escape_length_ge s.toList; simp; omega)
  simpa using this



mutual
/-- no number anywhere in the value -/
def numFree : Json → Bool
  | .num _ => false
  | .arr xs => numFreeList xs
  | .obj kvs => numFreeMembers kvs
  | _ => true
def numFreeList : List Json → Bool
  | [] => true
  | x :: xs => numFree x && numFreeList xs
def numFreeMembers : List (String × Json) → Bool
  | [] => true
  | (_, x) :: xs => numFree x && numFreeMembers xs
end

mutual
/-- fuel the reader needs -/
def size : Json → Nat
  | .arr xs => 1 + sizeList xs
  | .obj kvs => 1 + sizeMembers kvs
  | _ => 1
def sizeList : List Json → Nat
  | [] => 0
  | x :: xs => 1 + size x + sizeList xs
def sizeMembers : List (String × Json) → Nat
  | [] => 0
  | (_, x) :: xs => 1 + size x + sizeMembers xs
end

def isStart (c : Char) : Prop := c = 'n' ∨ c = 't' ∨ c = 'f' ∨ c = '"' ∨ c = '[' ∨ c = '{'

theorem print_start (v : Json) (h : numFree v = true) : ∃ c tl, print v = c :: tl ∧ isStart c := by
  cases v with
  | null => exact ⟨'n', _, rfl, Or.inl rfl⟩
  | bool b =>
    cases b with
    | false => exact ⟨'f', _, rfl, by simp [isStart]⟩
    | true => exact ⟨'t', _, rfl, by simp [isStart]⟩
  | num n => simp [numFree] at h
  | str s => exact ⟨'"', _, rfl, by simp [isStart]⟩
  | arr xs => exact ⟨'[', printList xs ++ [']'], by simp [print], by simp [isStart]⟩
  | obj kvs => exact ⟨'{', printMembers kvs ++ ['}'], by simp [print], by simp [isStart]⟩

theorem skipWs_start (c : Char) (tl : List Char) (h : isStart c) : skipWs (c :: tl) = c :: tl := by
  rcases h with h | h | h | h | h | h <;> subst h <;> simp [skipWs, isWs]



theorem skipWs_comma (tl : List Char) : skipWs (',' :: tl) = ',' :: tl := by simp [skipWs, isWs]
theorem skipWs_rbr (tl : List Char) : skipWs (']' :: tl) = ']' :: tl := by simp [skipWs, isWs]
theorem skipWs_rbrace (tl : List Char) : skipWs ('}' :: tl) = '}' :: tl := by simp [skipWs, isWs]
theorem skipWs_colon (tl : List Char) : skipWs (':' :: tl) = ':' :: tl := by simp [skipWs, isWs]
theorem skipWs_quote (tl : List Char) : skipWs ('"' :: tl) = '"' :: tl := by simp [skipWs, isWs]

/-- the array branch of the value reader when the first element starts right away -/
theorem parseValue_arr (f : Nat) (c : Char) (tl : List Char) (hc : isStart c) (xs : List Json) (r : List Char)
    (h : parseElems f [] (c :: tl) = some (xs, r)) : parseValue (f + 1) ('[' :: c :: tl) = some (.arr xs, r) := by
  rcases hc with e | e | e | e | e | e <;> subst e <;> simp [parseValue, skipWs, isWs, h]

theorem parseValue_obj (f : Nat) (tl : List Char) (kvs : List (String × Json)) (r : List Char)
    (h : parseMembers f [] ('"' :: tl) = some (kvs, r)) : parseValue (f + 1) ('{' :: '"' :: tl) = some (.obj kvs, r) := by
  simp [parseValue, skipWs, isWs, h]

theorem ofList_toList (s : String) : String.ofList s.toList = s := by simp

mutual
theorem read_value : ∀ (v : Json), numFree v = true → ∀ (fuel : Nat) (rest : List Char), fuel ≥ size v →
    parseValue fuel (print v ++ rest) = some (v, rest)
  | .null, _, fuel, rest, hf => by
    obtain ⟨f, rfl⟩ : ∃ f, fuel = f + 1 := ⟨fuel - 1, by simp [size] at hf; omega⟩
    simp [print, parseValue, skipWs, isWs, expectLit]
  | .bool true, _, fuel, rest, hf => by
    obtain ⟨f, rfl⟩ : ∃ f, fuel = f + 1 := ⟨fuel - 1, by simp [size] at hf; omega⟩
    simp [print, parseValue, skipWs, isWs, expectLit]
  | .bool false, _, fuel, rest, hf => by
    obtain ⟨f, rfl⟩ : ∃ f, fuel = f + 1 := ⟨fuel - 1, by simp [size] at hf; omega⟩
    simp [print, parseValue, skipWs, isWs, expectLit]
  | .num n, h, _, _, _ => by simp [numFree] at h
  | .str s, _, fuel, rest, hf => by
    obtain ⟨f, rfl⟩ : ∃ f, fuel = f + 1 := ⟨fuel - 1, by simp [size] at hf; omega⟩
    have hq := read_quoted s rest
    simp only [print, quote, List.cons_append, List.append_assoc, List.nil_append, parseValue, skipWs_quote]
    rw [hq]
    simp
  | .arr [], _, fuel, rest, hf => by
    obtain ⟨f, rfl⟩ : ∃ f, fuel = f + 1 := ⟨fuel - 1, by simp [size] at hf; omega⟩
    simp [print, printList, parseValue, skipWs, isWs]
  | .arr (x :: xs), h, fuel, rest, hf => by
    obtain ⟨f, rfl⟩ : ∃ f, fuel = f + 1 := ⟨fuel - 1, by simp [size] at hf; omega⟩
    simp only [numFree, numFreeList, Bool.and_eq_true] at h
    have hel := read_elems (x :: xs) (by simp) (by simp [numFreeList, h.1, h.2]) f [] rest (by simp only [size] at hf; omega)
    have hne : ∃ c tl, printList (x :: xs) ++ ']' :: rest = c :: tl ∧ isStart c := by
      obtain ⟨c, tl, hp, hc⟩ := print_start x h.1
      cases xs with
      | nil => exact ⟨c, tl ++ ']' :: rest, by simp [printList, hp], hc⟩
      | cons y ys => exact ⟨c, tl ++ ',' :: printList (y :: ys) ++ ']' :: rest, by simp [printList, hp], hc⟩
    obtain ⟨c, tl, hp, hc⟩ := hne
    have : print (.arr (x :: xs)) ++ rest = '[' :: (printList (x :: xs) ++ ']' :: rest) := by simp [print]
    rw [this, hp]
    rw [hp] at hel
    rw [parseValue_arr f c tl hc _ _ hel]
    simp
  | .obj [], _, fuel, rest, hf => by
    obtain ⟨f, rfl⟩ : ∃ f, fuel = f + 1 := ⟨fuel - 1, by simp [size] at hf; omega⟩
    simp [print, printMembers, parseValue, skipWs, isWs]
  | .obj ((k, x) :: kvs), h, fuel, rest, hf => by
    obtain ⟨f, rfl⟩ : ∃ f, fuel = f + 1 := ⟨fuel - 1, by simp [size] at hf; omega⟩
    simp only [numFree, numFreeMembers, Bool.and_eq_true] at h
    have hel := read_members ((k, x) :: kvs) (by simp) (by simp [numFreeMembers, h.1, h.2]) f [] rest (by simp only [size] at hf; omega)
    have hne : ∃ tl, printMembers ((k, x) :: kvs) ++ '}' :: rest = '"' :: tl := by
      cases kvs with
      | nil => exact ⟨_, by simp [printMembers, quote]; rfl⟩
      | cons y ys => exact ⟨_, by simp [printMembers, quote]; rfl⟩
    obtain ⟨tl, hp⟩ := hne
    have : print (.obj ((k, x) :: kvs)) ++ rest = '{' :: (printMembers ((k, x) :: kvs) ++ '}' :: rest) := by simp [print]
    rw [this, hp]
    rw [hp] at hel
    rw [parseValue_obj f tl _ _ hel]
    simp

theorem read_elems : ∀ (l : List Json), l ≠ [] → numFreeList l = true →
    ∀ (fuel : Nat) (acc : List Json) (rest : List Char), fuel ≥ sizeList l →
    parseElems fuel acc (printList l ++ ']' :: rest) = some (acc.reverse ++ l, rest)
  | [], hne, _, _, _, _, _ => absurd rfl hne
  | [x], _, hl, fuel, acc, rest, hf => by
    have hx : numFree x = true := by simp only [numFreeList, Bool.and_eq_true] at hl; exact hl.1
    obtain ⟨f, rfl⟩ : ∃ f, fuel = f + 1 := ⟨fuel - 1, by simp [sizeList] at hf; omega⟩
    have hv := read_value x hx f (']' :: rest) (by simp [sizeList] at hf; omega)
    simp only [printList, parseElems, hv, skipWs_rbr]
    simp
  | x :: y :: ys, _, hl, fuel, acc, rest, hf => by
    obtain ⟨f, rfl⟩ : ∃ f, fuel = f + 1 := ⟨fuel - 1, by simp [sizeList] at hf; omega⟩
    have hx : numFree x = true := by simp only [numFreeList, Bool.and_eq_true] at hl; exact hl.1
    have hxs : numFreeList (y :: ys) = true := by simp only [numFreeList, Bool.and_eq_true] at hl ⊢; exact hl.2
    have hv := read_value x hx f (',' :: printList (y :: ys) ++ ']' :: rest) (by simp [sizeList] at hf; omega)
    have ih := read_elems (y :: ys) (by simp) hxs f (x :: acc) rest (by simp [sizeList] at hf ⊢; omega)
    have : printList (x :: y :: ys) ++ ']' :: rest = print x ++ (',' :: printList (y :: ys) ++ ']' :: rest) := by
      simp [printList]
    rw [this]
    simp only [parseElems, hv]
    rw [show (',' :: printList (y :: ys) ++ ']' :: rest) = ',' :: (printList (y :: ys) ++ ']' :: rest) from rfl, skipWs_comma]
    simp only []
    rw [ih]
    simp

theorem read_members : ∀ (l : List (String × Json)), l ≠ [] → numFreeMembers l = true →
    ∀ (fuel : Nat) (acc : List (String × Json)) (rest : List Char), fuel ≥ sizeMembers l →
    parseMembers fuel acc (printMembers l ++ '}' :: rest) = some (acc.reverse ++ l, rest)
  | [], hne, _, _, _, _, _ => absurd rfl hne
  | [(k, x)], _, hl, fuel, acc, rest, hf => by
    have hx : numFree x = true := by simp only [numFreeMembers, Bool.and_eq_true] at hl; exact hl.1
    obtain ⟨f, rfl⟩ : ∃ f, fuel = f + 1 := ⟨fuel - 1, by simp [sizeMembers] at hf; omega⟩
    have hv := read_value x hx f ('}' :: rest) (by simp [sizeMembers] at hf; omega)
    have hq := read_quoted k (':' :: (print x ++ '}' :: rest))
    have : printMembers [(k, x)] ++ '}' :: rest = '"' :: (escape k.toList ++ '"' :: ':' :: (print x ++ '}' :: rest)) := by
      simp [printMembers, quote]
    rw [this]
    simp only [parseMembers, skipWs_quote, hq, skipWs_colon, hv, skipWs_rbrace, ofList_toList]
    simp
  | (k, x) :: (k', y) :: ys, _, hl, fuel, acc, rest, hf => by
    obtain ⟨f, rfl⟩ : ∃ f, fuel = f + 1 := ⟨fuel - 1, by simp [sizeMembers] at hf; omega⟩
    have hx : numFree x = true := by simp only [numFreeMembers, Bool.and_eq_true] at hl; exact hl.1
    have hxs : numFreeMembers ((k', y) :: ys) = true := by simp only [numFreeMembers, Bool.and_eq_true] at hl ⊢; exact hl.2
    have hv := read_value x hx f (',' :: (printMembers ((k', y) :: ys) ++ '}' :: rest)) (by simp [sizeMembers] at hf; omega)
    have ih := read_members ((k', y) :: ys) (by simp) hxs f ((k, x) :: acc) rest (by simp [sizeMembers] at hf ⊢; omega)
    have hq := read_quoted k (':' :: (print x ++ ',' :: (printMembers ((k', y) :: ys) ++ '}' :: rest)))
    have : printMembers ((k, x) :: (k', y) :: ys) ++ '}' :: rest =
        '"' :: (escape k.toList ++ '"' :: ':' :: (print x ++ ',' :: (printMembers ((k', y) :: ys) ++ '}' :: rest))) := by
      simp [printMembers, quote]
    rw [this]
    simp only [parseMembers, skipWs_quote, hq, skipWs_colon, hv, skipWs_comma, ofList_toList]
    rw [ih]
    simp
end



theorem quote_length (s : String) : 2 ≤ (quote s).length := by simp [quote]

mutual
theorem size_le_print : ∀ (v : Json), numFree v = true → size v ≤ (print v).length
  | .null, _ => by simp [size, print]
  | .bool true, _ => by simp [size, print]
  | .bool false, _ => by simp [size, print]
  | .num _, h => by simp [numFree] at h
  | .str s, _ => by have := quote_length s; simp only [size, print]; omega
  | .arr xs, h => by
    have := sizeList_le xs (by simpa [numFree] using h)
    simp only [size, print, List.length_cons, List.length_append, List.length_nil]
    omega
  | .obj kvs, h => by
    have := sizeMembers_le kvs (by simpa [numFree] using h)
    simp only [size, print, List.length_cons, List.length_append, List.length_nil]
    omega
theorem sizeList_le : ∀ (l : List Json), numFreeList l = true → sizeList l ≤ (printList l).length + 1
  | [], _ => by simp [sizeList]
  | [x], h => by
    have := size_le_print x (by simp only [numFreeList, Bool.and_eq_true] at h; exact h.1)
    simp only [sizeList, printList]
    omega
  | x :: y :: ys, h => by
    simp only [numFreeList, Bool.and_eq_true] at h
    have h1 := size_le_print x h.1
    have h2 := sizeList_le (y :: ys) (by simp [numFreeList, h.2.1, h.2.2])
    simp only [sizeList, printList, List.length_append, List.length_cons] at h2 ⊢
    omega
theorem sizeMembers_le : ∀ (l : List (String × Json)), numFreeMembers l = true → sizeMembers l ≤ (printMembers l).length + 1
  | [], _ => by simp [sizeMembers]
  | [(k, x)], h => by
    have := size_le_print x (by simp only [numFreeMembers, Bool.and_eq_true] at h; exact h.1)
    simp only [sizeMembers, printMembers, List.length_append, List.length_cons]
    omega
  | (k, x) :: (k', y) :: ys, h => by
    simp only [numFreeMembers, Bool.and_eq_true] at h
    have h1 := size_le_print x h.1
    have h2 := sizeMembers_le ((k', y) :: ys) (by simp [numFreeMembers, h.2.1, h.2.2])
    simp only [sizeMembers, printMembers, List.length_append, List.length_cons] at h2 ⊢
    omega
end

/-- **the reader undoes the printer** on every value without numbers: for each such value, the
    compact text with minimal escaping is read back as exactly that value -/
theorem parse_print (v : Json) (h : numFree v = true) : Parse.parse (print v) = some v := by
  unfold Parse.parse
  have hs := size_le_print v h
  have := read_value v h (2 * (print v).length + 2) [] (by omega)
  simp only [List.append_nil] at this
  rw [this]
  simp [skipWs]



theorem numFreeMembers_perm {l1 l2 : List (String × Json)} (p : l1.Perm l2) : numFreeMembers l1 = numFreeMembers l2 := by
  induction p with
  | nil => rfl
  | cons x _ ih => obtain ⟨k, v⟩ := x; simp [numFreeMembers, ih]
  | swap x y l =>
    obtain ⟨k, v⟩ := x; obtain ⟨k', v'⟩ := y
    simp only [numFreeMembers]
    cases numFree v <;> cases numFree v' <;> simp
  | trans _ _ ih1 ih2 => rw [ih1, ih2]

mutual
theorem normalize_numFree : ∀ (v v' : Json), numFree v = true → normalize v = some v' → numFree v' = true
  | .null, v', _, h => by simp [normalize] at h; subst h; rfl
  | .bool b, v', _, h => by simp [normalize] at h; subst h; rfl
  | .str s, v', _, h => by simp [normalize] at h; subst h; rfl
  | .num _, _, h, _ => by simp [numFree] at h
  | .arr xs, v', hn, h => by
    simp only [normalize, Option.map_eq_some_iff] at h
    obtain ⟨xs', hx, rfl⟩ := h
    simpa [numFree] using normalizeList_numFree xs xs' (by simpa [numFree] using hn) hx
  | .obj kvs, v', hn, h => by
    simp only [normalize] at h
    cases hm : normalizeMembers kvs with
    | none => simp [hm] at h
    | some kvs' =>
      simp only [hm] at h
      split at h
      · simp only [Option.some.injEq] at h
        subst h
        have := normalizeMembers_numFree kvs kvs' (by simpa [numFree] using hn) hm
        simp only [numFree]
        unfold sortMembers
        rw [numFreeMembers_perm (List.mergeSort_perm kvs' memberLe)]
        exact this
      · cases h
theorem normalizeList_numFree : ∀ (l l' : List Json), numFreeList l = true → normalizeList l = some l' → numFreeList l' = true
  | [], l', _, h => by simp [normalizeList] at h; subst h; rfl
  | x :: xs, l', hn, h => by
    simp only [numFreeList, Bool.and_eq_true] at hn
    simp only [normalizeList] at h
    cases hx : normalize x with
    | none => simp [hx] at h
    | some x' =>
      cases hxs : normalizeList xs with
      | none => simp [hx, hxs] at h
      | some xs' =>
        simp only [hx, hxs, Option.some.injEq] at h
        subst h
        simp [numFreeList, normalize_numFree x x' hn.1 hx, normalizeList_numFree xs xs' hn.2 hxs]
theorem normalizeMembers_numFree : ∀ (l l' : List (String × Json)), numFreeMembers l = true → normalizeMembers l = some l' → numFreeMembers l' = true
  | [], l', _, h => by simp [normalizeMembers] at h; subst h; rfl
  | (k, x) :: xs, l', hn, h => by
    simp only [numFreeMembers, Bool.and_eq_true] at hn
    simp only [normalizeMembers] at h
    cases hx : normalize x with
    | none => simp [hx] at h
    | some x' =>
      cases hxs : normalizeMembers xs with
      | none => simp [hx, hxs] at h
      | some xs' =>
        simp only [hx, hxs, Option.some.injEq] at h
        subst h
        simp [numFreeMembers, normalize_numFree x x' hn.1 hx, normalizeMembers_numFree xs xs' hn.2 hxs]
end

/-- **canonical text is read back as the normal form**: for a value without numbers, parsing its
    RFC 8785 encoding yields the value's normal form (so `parse ∘ jcs = normalize`) -/
theorem parse_jcs (v : Json) (text : List Char) (h : numFree v = true) (hj : v.jcs = some text) :
    Parse.parse text = v.normalize := by
  unfold Json.jcs at hj
  cases hn : v.normalize with
  | none => simp [hn] at hj
  | some v' =>
    simp only [hn, Option.map_some, Option.some.injEq] at hj
    subst hj
    exact parse_print v' (normalize_numFree v v' h hn)


/-! ### the normal form is a fixed point -/

/-- every member value is its own normal form -/
def FixedMembers (l : List (String × Json)) : Prop := ∀ kv ∈ l, normalize kv.2 = some kv.2

theorem normalizeMembers_fixed : ∀ (l : List (String × Json)), FixedMembers l → normalizeMembers l = some l
  | [], _ => rfl
  | (k, x) :: rest, h => by
    have hx := h (k, x) (List.mem_cons_self ..)
    have ih := normalizeMembers_fixed rest (fun kv hkv => h kv (List.mem_cons_of_mem _ hkv))
    simp only at hx
    simp [normalizeMembers, hx, ih]

theorem normalizeList_fixed : ∀ (l : List Json), (∀ x ∈ l, normalize x = some x) → normalizeList l = some l
  | [], _ => rfl
  | x :: rest, h => by
    have hx := h x (List.mem_cons_self ..)
    have ih := normalizeList_fixed rest (fun y hy => h y (List.mem_cons_of_mem _ hy))
    simp [normalizeList, hx, ih]

mutual
theorem normalize_fixed : ∀ (v v' : Json), numFree v = true → normalize v = some v' → normalize v' = some v'
  | .null, v', _, h => by simp [normalize] at h; subst h; rfl
  | .bool b, v', _, h => by simp [normalize] at h; subst h; rfl
  | .str s, v', _, h => by simp [normalize] at h; subst h; rfl
  | .num _, _, h, _ => by simp [numFree] at h
  | .arr xs, v', hn, h => by
    simp only [normalize, Option.map_eq_some_iff] at h
    obtain ⟨xs', hx, rfl⟩ := h
    have := normalizeList_fixed_of xs xs' (by simpa [numFree] using hn) hx
    simp [normalize, normalizeList_fixed xs' this]
  | .obj kvs, v', hn, h => by
    simp only [normalize] at h
    cases hm : normalizeMembers kvs with
    | none => simp [hm] at h
    | some kvs' =>
      simp only [hm] at h
      by_cases hnd : namesNodup kvs' = true
      · simp only [hnd, if_true, Option.some.injEq] at h
        subst h
        have hfix := normalizeMembers_fixed_of kvs kvs' (by simpa [numFree] using hn) hm
        have hperm := sortMembers_perm kvs'
        have hfix' : FixedMembers (sortMembers kvs') := fun kv hkv => hfix kv (hperm.mem_iff.mp hkv)
        have hnd' : namesNodup (sortMembers kvs') = true :=
          (namesNodup_iff _).mpr ((hperm.map _).nodup_iff.mpr ((namesNodup_iff kvs').mp hnd))
        have hss : sortMembers (sortMembers kvs') = sortMembers kvs' :=
          sortMembers_eq_of_perm _ _ hperm ((hperm.map _).nodup_iff.mpr ((namesNodup_iff kvs').mp hnd))
        simp [normalize, normalizeMembers_fixed _ hfix', hnd', hss]
      · simp [hnd] at h
theorem normalizeList_fixed_of : ∀ (l l' : List Json), numFreeList l = true → normalizeList l = some l' →
    ∀ x ∈ l', normalize x = some x
  | [], l', _, h => by simp [normalizeList] at h; subst h; intro x hx; cases hx
  | x :: xs, l', hn, h => by
    simp only [numFreeList, Bool.and_eq_true] at hn
    simp only [normalizeList] at h
    cases hx : normalize x with
    | none => simp [hx] at h
    | some x' =>
      cases hxs : normalizeList xs with
      | none => simp [hx, hxs] at h
      | some xs' =>
        simp only [hx, hxs, Option.some.injEq] at h
        subst h
        intro y hy
        rcases List.mem_cons.mp hy with e | hm
        · subst e; exact normalize_fixed x y hn.1 hx
        · exact normalizeList_fixed_of xs xs' hn.2 hxs y hm
theorem normalizeMembers_fixed_of : ∀ (l l' : List (String × Json)), numFreeMembers l = true → normalizeMembers l = some l' →
    FixedMembers l'
  | [], l', _, h => by simp [normalizeMembers] at h; subst h; intro x hx; cases hx
  | (k, x) :: xs, l', hn, h => by
    simp only [numFreeMembers, Bool.and_eq_true] at hn
    simp only [normalizeMembers] at h
    cases hx : normalize x with
    | none => simp [hx] at h
    | some x' =>
      cases hxs : normalizeMembers xs with
      | none => simp [hx, hxs] at h
      | some xs' =>
        simp only [hx, hxs, Option.some.injEq] at h
        subst h
        intro y hy
        rcases List.mem_cons.mp hy with e | hm
        · subst e; exact normalize_fixed x x' hn.1 hx
        · exact normalizeMembers_fixed_of xs xs' hn.2 hxs y hm
end


end Sidetree.RT
