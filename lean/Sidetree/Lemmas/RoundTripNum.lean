/-
  The JSON reader undoes the canonical printer on every value whose numbers are *stable*:
  a number is stable when its canonical text exists, starts like a number and is read back as
  the number itself.  Stability is a predicate on one number, so that the results of
  `RoundTrip.lean` (values without numbers) carry over with no floating point reasoning.
-/
import Sidetree.Lemmas.RoundTrip
import Sidetree.Lemmas.NumInt

namespace Sidetree
open Parse

/-- a number whose canonical text exists, starts with '-' or a digit, and is read back as the
    number itself -/
def JNum.Stable (n : JNum) : Prop :=
  ∃ cs, n.canon = some cs ∧ (∃ c tl, cs = c :: tl ∧ (c = '-' ∨ Parse.isDigit c = true)) ∧
    ∀ rest, numStop rest → Parse.parseNumber (cs ++ rest) = some (n, rest)

mutual
/-- every number inside the value is stable -/
def Json.numsStable : Json → Prop
  | .num n => n.Stable
  | .arr xs => Json.numsStableList xs
  | .obj kvs => Json.numsStableMembers kvs
  | _ => True
def Json.numsStableList : List Json → Prop
  | [] => True
  | x :: xs => Json.numsStable x ∧ Json.numsStableList xs
def Json.numsStableMembers : List (String × Json) → Prop
  | [] => True
  | (_, x) :: xs => Json.numsStable x ∧ Json.numsStableMembers xs
end

end Sidetree

namespace Sidetree.RT
open Sidetree Sidetree.Parse Sidetree.Json

theorem numStop_nil : numStop [] := by intro c tl h; cases h
theorem numStop_comma (tl : List Char) : numStop (',' :: tl) := by
  intro c tl' h; simp only [List.cons.injEq] at h; obtain ⟨rfl, _⟩ := h; decide
theorem numStop_rbr (tl : List Char) : numStop (']' :: tl) := by
  intro c tl' h; simp only [List.cons.injEq] at h; obtain ⟨rfl, _⟩ := h; decide
theorem numStop_rbrace (tl : List Char) : numStop ('}' :: tl) := by
  intro c tl' h; simp only [List.cons.injEq] at h; obtain ⟨rfl, _⟩ := h; decide

theorem isDigit_ne {c : Char} (h : isDigit c = true) (d : Char) (hd : isDigit d = false) : c ≠ d := by
  intro e; subst e; rw [h] at hd; cases hd

/-- a value may also start like a number -/
def isStartN (c : Char) : Prop := isStart c ∨ c = '-' ∨ isDigit c = true

theorem skipWs_digit (c : Char) (tl : List Char) (h : isDigit c = true) : skipWs (c :: tl) = c :: tl := by
  have h1 := isDigit_ne h ' ' (by decide)
  have h2 := isDigit_ne h '\t' (by decide)
  have h3 := isDigit_ne h '\n' (by decide)
  have h4 := isDigit_ne h '\r' (by decide)
  simp [skipWs, isWs, h1, h2, h3, h4]

theorem skipWs_startN (c : Char) (tl : List Char) (h : isStartN c) : skipWs (c :: tl) = c :: tl := by
  rcases h with h | h | h
  · exact skipWs_start c tl h
  · subst h; simp [skipWs, isWs]
  · exact skipWs_digit c tl h

/-- the number branch of the value reader -/
theorem parseValue_num (f : Nat) (c : Char) (tl : List Char) (n : JNum) (r : List Char)
    (hc : c = '-' ∨ isDigit c = true) (h : parseNumber (c :: tl) = some (n, r)) :
    parseValue (f + 1) (c :: tl) = some (.num n, r) := by
  rcases hc with hc | hc
  · subst hc
    simp [parseValue, skipWs, isWs, h]
  · have hs := skipWs_digit c tl hc
    unfold parseValue
    rw [hs]
    split
    · rename_i heq; cases heq
    · rename_i heq; simp only [List.cons.injEq] at heq; exact absurd heq.1 (isDigit_ne hc _ (by decide))
    · rename_i heq; simp only [List.cons.injEq] at heq; exact absurd heq.1 (isDigit_ne hc _ (by decide))
    · rename_i heq; simp only [List.cons.injEq] at heq; exact absurd heq.1 (isDigit_ne hc _ (by decide))
    · rename_i heq; simp only [List.cons.injEq] at heq; exact absurd heq.1 (isDigit_ne hc _ (by decide))
    · rename_i heq; simp only [List.cons.injEq] at heq; exact absurd heq.1 (isDigit_ne hc _ (by decide))
    · rename_i heq; simp only [List.cons.injEq] at heq; exact absurd heq.1 (isDigit_ne hc _ (by decide))
    · rename_i heq
      simp only [List.cons.injEq] at heq
      obtain ⟨e1, e2⟩ := heq
      subst e1; subst e2
      simp [hc, h]


theorem isStartN_ne_rbr {c : Char} (h : isStartN c) : c ≠ ']' := by
  rcases h with h | h | h
  · rcases h with h | h | h | h | h | h <;> subst h <;> decide
  · subst h; decide
  · exact isDigit_ne h _ (by decide)

theorem parseValue_arrN (f : Nat) (c : Char) (tl : List Char) (hc : isStartN c) (xs : List Json) (r : List Char)
    (h : parseElems f [] (c :: tl) = some (xs, r)) : parseValue (f + 1) ('[' :: c :: tl) = some (.arr xs, r) := by
  have hs := skipWs_startN c tl hc
  have hne := isStartN_ne_rbr hc
  unfold parseValue
  rw [show skipWs ('[' :: c :: tl) = '[' :: c :: tl from by simp [skipWs, isWs]]
  simp only []
  rw [hs]
  split
  · rename_i heq; simp only [List.cons.injEq] at heq; exact absurd heq.1 hne
  · rw [h]

theorem print_startN (v : Json) (h : v.numsStable) : ∃ c tl, print v = c :: tl ∧ isStartN c := by
  cases v with
  | null => exact ⟨'n', _, rfl, Or.inl (Or.inl rfl)⟩
  | bool b =>
    cases b with
    | false => exact ⟨'f', _, rfl, Or.inl (by simp [isStart])⟩
    | true => exact ⟨'t', _, rfl, Or.inl (by simp [isStart])⟩
  | num n =>
    simp only [Json.numsStable] at h
    obtain ⟨cs, hcan, ⟨c, tl, hcs, hc⟩, _⟩ := h
    exact ⟨c, tl, by simp [print, hcan, hcs], Or.inr hc⟩
  | str s => exact ⟨'"', _, rfl, Or.inl (by simp [isStart])⟩
  | arr xs => exact ⟨'[', printList xs ++ [']'], by simp [print], Or.inl (by simp [isStart])⟩
  | obj kvs => exact ⟨'{', printMembers kvs ++ ['}'], by simp [print], Or.inl (by simp [isStart])⟩

mutual
theorem read_value_num : ∀ (v : Json), v.numsStable → ∀ (fuel : Nat) (rest : List Char), numStop rest → fuel ≥ size v →
    parseValue fuel (print v ++ rest) = some (v, rest)
  | .null, _, fuel, rest, _, hf => by
    obtain ⟨f, rfl⟩ : ∃ f, fuel = f + 1 := ⟨fuel - 1, by simp [size] at hf; omega⟩
    simp [print, parseValue, skipWs, isWs, expectLit]
  | .bool true, _, fuel, rest, _, hf => by
    obtain ⟨f, rfl⟩ : ∃ f, fuel = f + 1 := ⟨fuel - 1, by simp [size] at hf; omega⟩
    simp [print, parseValue, skipWs, isWs, expectLit]
  | .bool false, _, fuel, rest, _, hf => by
    obtain ⟨f, rfl⟩ : ∃ f, fuel = f + 1 := ⟨fuel - 1, by simp [size] at hf; omega⟩
    simp [print, parseValue, skipWs, isWs, expectLit]
  | .num n, h, fuel, rest, hr, hf => by
    obtain ⟨f, rfl⟩ : ∃ f, fuel = f + 1 := ⟨fuel - 1, by simp [size] at hf; omega⟩
    simp only [Json.numsStable] at h
    obtain ⟨cs, hcan, ⟨c, tl, hcs, hc⟩, hp⟩ := h
    have hp' := hp rest hr
    subst hcs
    have : print (.num n) ++ rest = c :: (tl ++ rest) := by simp [print, hcan]
    rw [this]
    exact parseValue_num f c (tl ++ rest) n rest hc hp'
  | .str s, _, fuel, rest, _, hf => by
    obtain ⟨f, rfl⟩ : ∃ f, fuel = f + 1 := ⟨fuel - 1, by simp [size] at hf; omega⟩
    have hq := read_quoted s rest
    simp only [print, quote, List.cons_append, List.append_assoc, List.nil_append, parseValue, skipWs_quote]
    rw [hq]
    simp
  | .arr [], _, fuel, rest, _, hf => by
    obtain ⟨f, rfl⟩ : ∃ f, fuel = f + 1 := ⟨fuel - 1, by simp [size] at hf; omega⟩
    simp [print, printList, parseValue, skipWs, isWs]
  | .arr (x :: xs), h, fuel, rest, _, hf => by
    obtain ⟨f, rfl⟩ : ∃ f, fuel = f + 1 := ⟨fuel - 1, by simp [size] at hf; omega⟩
    simp only [Json.numsStable, Json.numsStableList] at h
    have hel := read_elems_num (x :: xs) (by simp) (by simp only [Json.numsStableList]; exact h) f [] rest (by simp only [size] at hf; omega)
    have hne : ∃ c tl, printList (x :: xs) ++ ']' :: rest = c :: tl ∧ isStartN c := by
      obtain ⟨c, tl, hp, hc⟩ := print_startN x h.1
      cases xs with
      | nil => exact ⟨c, tl ++ ']' :: rest, by simp [printList, hp], hc⟩
      | cons y ys => exact ⟨c, tl ++ ',' :: printList (y :: ys) ++ ']' :: rest, by simp [printList, hp], hc⟩
    obtain ⟨c, tl, hp, hc⟩ := hne
    have : print (.arr (x :: xs)) ++ rest = '[' :: (printList (x :: xs) ++ ']' :: rest) := by simp [print]
    rw [this, hp]
    rw [hp] at hel
    rw [parseValue_arrN f c tl hc _ _ hel]
    simp
  | .obj [], _, fuel, rest, _, hf => by
    obtain ⟨f, rfl⟩ : ∃ f, fuel = f + 1 := ⟨fuel - 1, by simp [size] at hf; omega⟩
    simp [print, printMembers, parseValue, skipWs, isWs]
  | .obj ((k, x) :: kvs), h, fuel, rest, _, hf => by
    obtain ⟨f, rfl⟩ : ∃ f, fuel = f + 1 := ⟨fuel - 1, by simp [size] at hf; omega⟩
    simp only [Json.numsStable, Json.numsStableMembers] at h
    have hel := read_members_num ((k, x) :: kvs) (by simp) (by simp only [Json.numsStableMembers]; exact h) f [] rest (by simp only [size] at hf; omega)
    have hne : ∃ tl, printMembers ((k, x) :: kvs) ++ '}' :: rest = '"' :: tl := by
      cases kvs with
      | nil => exact ⟨_, by simp [printMembers, quote]; rfl⟩
      | cons y ys => exact ⟨_, by simp [printMembers, quote]; rfl⟩
    obtain ⟨tl, hp⟩ := hne
    have : print (.obj ((k, x) :: kvs)) ++ rest = '{' :: (printMembers ((k, x) :: kvs) ++ '}' :: rest) := by simp [print]
    rw [this, hp]
    rw [hp] at hel
    rw [parseValue_obj f tl _ _ hel]
    simp

theorem read_elems_num : ∀ (l : List Json), l ≠ [] → Json.numsStableList l →
    ∀ (fuel : Nat) (acc : List Json) (rest : List Char), fuel ≥ sizeList l →
    parseElems fuel acc (printList l ++ ']' :: rest) = some (acc.reverse ++ l, rest)
  | [], hne, _, _, _, _, _ => absurd rfl hne
  | [x], _, hl, fuel, acc, rest, hf => by
    have hx : x.numsStable := by simp only [Json.numsStableList] at hl; exact hl.1
    obtain ⟨f, rfl⟩ : ∃ f, fuel = f + 1 := ⟨fuel - 1, by simp [sizeList] at hf; omega⟩
    have hv := read_value_num x hx f (']' :: rest) (numStop_rbr rest) (by simp [sizeList] at hf; omega)
    simp only [printList, parseElems, hv, skipWs_rbr]
    simp
  | x :: y :: ys, _, hl, fuel, acc, rest, hf => by
    obtain ⟨f, rfl⟩ : ∃ f, fuel = f + 1 := ⟨fuel - 1, by simp [sizeList] at hf; omega⟩
    simp only [Json.numsStableList] at hl
    have hx : x.numsStable := hl.1
    have hxs : Json.numsStableList (y :: ys) := by simp only [Json.numsStableList]; exact hl.2
    have hv := read_value_num x hx f (',' :: printList (y :: ys) ++ ']' :: rest) (numStop_comma _) (by simp [sizeList] at hf; omega)
    have ih := read_elems_num (y :: ys) (by simp) hxs f (x :: acc) rest (by simp [sizeList] at hf ⊢; omega)
    have : printList (x :: y :: ys) ++ ']' :: rest = print x ++ (',' :: printList (y :: ys) ++ ']' :: rest) := by
      simp [printList]
    rw [this]
    simp only [parseElems, hv]
    rw [show (',' :: printList (y :: ys) ++ ']' :: rest) = ',' :: (printList (y :: ys) ++ ']' :: rest) from rfl, skipWs_comma]
    simp only []
    rw [ih]
    simp

theorem read_members_num : ∀ (l : List (String × Json)), l ≠ [] → Json.numsStableMembers l →
    ∀ (fuel : Nat) (acc : List (String × Json)) (rest : List Char), fuel ≥ sizeMembers l →
    parseMembers fuel acc (printMembers l ++ '}' :: rest) = some (acc.reverse ++ l, rest)
  | [], hne, _, _, _, _, _ => absurd rfl hne
  | [(k, x)], _, hl, fuel, acc, rest, hf => by
    have hx : x.numsStable := by simp only [Json.numsStableMembers] at hl; exact hl.1
    obtain ⟨f, rfl⟩ : ∃ f, fuel = f + 1 := ⟨fuel - 1, by simp [sizeMembers] at hf; omega⟩
    have hv := read_value_num x hx f ('}' :: rest) (numStop_rbrace rest) (by simp [sizeMembers] at hf; omega)
    have hq := read_quoted k (':' :: (print x ++ '}' :: rest))
    have : printMembers [(k, x)] ++ '}' :: rest = '"' :: (escape k.toList ++ '"' :: ':' :: (print x ++ '}' :: rest)) := by
      simp [printMembers, quote]
    rw [this]
    simp only [parseMembers, skipWs_quote, hq, skipWs_colon, hv, skipWs_rbrace, ofList_toList]
    simp
  | (k, x) :: (k', y) :: ys, _, hl, fuel, acc, rest, hf => by
    obtain ⟨f, rfl⟩ : ∃ f, fuel = f + 1 := ⟨fuel - 1, by simp [sizeMembers] at hf; omega⟩
    simp only [Json.numsStableMembers] at hl
    have hx : x.numsStable := hl.1
    have hxs : Json.numsStableMembers ((k', y) :: ys) := by simp only [Json.numsStableMembers]; exact hl.2
    have hv := read_value_num x hx f (',' :: (printMembers ((k', y) :: ys) ++ '}' :: rest)) (numStop_comma _) (by simp [sizeMembers] at hf; omega)
    have ih := read_members_num ((k', y) :: ys) (by simp) hxs f ((k, x) :: acc) rest (by simp [sizeMembers] at hf ⊢; omega)
    have hq := read_quoted k (':' :: (print x ++ ',' :: (printMembers ((k', y) :: ys) ++ '}' :: rest)))
    have : printMembers ((k, x) :: (k', y) :: ys) ++ '}' :: rest =
        '"' :: (escape k.toList ++ '"' :: ':' :: (print x ++ ',' :: (printMembers ((k', y) :: ys) ++ '}' :: rest))) := by
      simp [printMembers, quote]
    rw [this]
    simp only [parseMembers, skipWs_quote, hq, skipWs_colon, hv, skipWs_comma, ofList_toList]
    rw [ih]
    simp
end


theorem print_num_length (n : JNum) (h : n.Stable) : 1 ≤ (print (.num n)).length := by
  obtain ⟨cs, hcan, ⟨c, tl, hcs, _⟩, _⟩ := h
  simp [print, hcan, hcs]

mutual
theorem size_le_print_num : ∀ (v : Json), v.numsStable → size v ≤ (print v).length
  | .null, _ => by simp [size, print]
  | .bool true, _ => by simp [size, print]
  | .bool false, _ => by simp [size, print]
  | .num n, h => by
    have := print_num_length n (by simpa only [Json.numsStable] using h)
    simp only [size]; omega
  | .str s, _ => by have := quote_length s; simp only [size, print]; omega
  | .arr xs, h => by
    have := sizeList_le_num xs (by simpa only [Json.numsStable] using h)
    simp only [size, print, List.length_cons, List.length_append, List.length_nil]
    omega
  | .obj kvs, h => by
    have := sizeMembers_le_num kvs (by simpa only [Json.numsStable] using h)
    simp only [size, print, List.length_cons, List.length_append, List.length_nil]
    omega
theorem sizeList_le_num : ∀ (l : List Json), Json.numsStableList l → sizeList l ≤ (printList l).length + 1
  | [], _ => by simp [sizeList]
  | [x], h => by
    have := size_le_print_num x (by simp only [Json.numsStableList] at h; exact h.1)
    simp only [sizeList, printList]
    omega
  | x :: y :: ys, h => by
    simp only [Json.numsStableList] at h
    have h1 := size_le_print_num x h.1
    have h2 := sizeList_le_num (y :: ys) (by simp only [Json.numsStableList]; exact h.2)
    simp only [sizeList, printList, List.length_append, List.length_cons] at h2 ⊢
    omega
theorem sizeMembers_le_num : ∀ (l : List (String × Json)), Json.numsStableMembers l → sizeMembers l ≤ (printMembers l).length + 1
  | [], _ => by simp [sizeMembers]
  | [(k, x)], h => by
    have := size_le_print_num x (by simp only [Json.numsStableMembers] at h; exact h.1)
    simp only [sizeMembers, printMembers, List.length_append, List.length_cons]
    omega
  | (k, x) :: (k', y) :: ys, h => by
    simp only [Json.numsStableMembers] at h
    have h1 := size_le_print_num x h.1
    have h2 := sizeMembers_le_num ((k', y) :: ys) (by simp only [Json.numsStableMembers]; exact h.2)
    simp only [sizeMembers, printMembers, List.length_append, List.length_cons] at h2 ⊢
    omega
end

/-- **the reader undoes the printer** on every value whose numbers are stable -/
theorem parse_print_num (v : Json) (h : v.numsStable) : Parse.parse (print v) = some v := by
  unfold Parse.parse
  have hs := size_le_print_num v h
  have := read_value_num v h (2 * (print v).length + 2) [] numStop_nil (by omega)
  simp only [List.append_nil] at this
  rw [this]
  simp [skipWs]

/-! ### normal forms -/

/-- a stable number is its own canonical number -/
theorem canonNum_stable (n : JNum) (h : n.Stable) : canonNum n = some n := by
  obtain ⟨cs, hcan, _, hp⟩ := h
  have := hp [] numStop_nil
  simp only [List.append_nil] at this
  simp [canonNum, hcan, this]

theorem numsStableMembers_iff : ∀ (l : List (String × Json)), Json.numsStableMembers l ↔ ∀ kv ∈ l, kv.2.numsStable
  | [] => by simp [Json.numsStableMembers]
  | (k, x) :: xs => by
    simp only [Json.numsStableMembers, List.mem_cons, numsStableMembers_iff xs]
    constructor
    · rintro ⟨h1, h2⟩ kv (e | hm)
      · subst e; exact h1
      · exact h2 kv hm
    · intro h
      exact ⟨h (k, x) (Or.inl rfl), fun kv hm => h kv (Or.inr hm)⟩

theorem numsStableMembers_perm {l1 l2 : List (String × Json)} (p : l1.Perm l2) :
    Json.numsStableMembers l1 ↔ Json.numsStableMembers l2 := by
  rw [numsStableMembers_iff, numsStableMembers_iff]
  constructor
  · intro h kv hm; exact h kv (p.mem_iff.mpr hm)
  · intro h kv hm; exact h kv (p.mem_iff.mp hm)


/-- normalising leaves a stable number alone -/
theorem normalize_num_stable (n : JNum) (h : n.Stable) : normalize (.num n) = some (.num n) := by
  simp [normalize, canonNum_stable n h]

mutual
/-- the normal form of a value whose numbers are stable has stable numbers (the very same ones) -/
theorem normalize_numsStable : ∀ (v v' : Json), v.numsStable → normalize v = some v' → v'.numsStable
  | .null, v', _, h => by simp [normalize] at h; subst h; simp only [Json.numsStable]
  | .bool b, v', _, h => by simp [normalize] at h; subst h; simp only [Json.numsStable]
  | .str s, v', _, h => by simp [normalize] at h; subst h; simp only [Json.numsStable]
  | .num n, v', hn, h => by
    rw [normalize_num_stable n (by simpa only [Json.numsStable] using hn)] at h
    simp only [Option.some.injEq] at h
    subst h; exact hn
  | .arr xs, v', hn, h => by
    simp only [normalize, Option.map_eq_some_iff] at h
    obtain ⟨xs', hx, rfl⟩ := h
    simpa only [Json.numsStable] using normalizeList_numsStable xs xs' (by simpa only [Json.numsStable] using hn) hx
  | .obj kvs, v', hn, h => by
    simp only [normalize] at h
    cases hm : normalizeMembers kvs with
    | none => simp [hm] at h
    | some kvs' =>
      simp only [hm] at h
      split at h
      · simp only [Option.some.injEq] at h
        subst h
        have := normalizeMembers_numsStable kvs kvs' (by simpa only [Json.numsStable] using hn) hm
        simp only [Json.numsStable]
        exact (numsStableMembers_perm (sortMembers_perm kvs')).mpr this
      · cases h
theorem normalizeList_numsStable : ∀ (l l' : List Json), Json.numsStableList l → normalizeList l = some l' → Json.numsStableList l'
  | [], l', _, h => by simp [normalizeList] at h; subst h; simp only [Json.numsStableList]
  | x :: xs, l', hn, h => by
    simp only [Json.numsStableList] at hn
    simp only [normalizeList] at h
    cases hx : normalize x with
    | none => simp [hx] at h
    | some x' =>
      cases hxs : normalizeList xs with
      | none => simp [hx, hxs] at h
      | some xs' =>
        simp only [hx, hxs, Option.some.injEq] at h
        subst h
        simp only [Json.numsStableList]
        exact ⟨normalize_numsStable x x' hn.1 hx, normalizeList_numsStable xs xs' hn.2 hxs⟩
theorem normalizeMembers_numsStable : ∀ (l l' : List (String × Json)), Json.numsStableMembers l → normalizeMembers l = some l' → Json.numsStableMembers l'
  | [], l', _, h => by simp [normalizeMembers] at h; subst h; simp only [Json.numsStableMembers]
  | (k, x) :: xs, l', hn, h => by
    simp only [Json.numsStableMembers] at hn
    simp only [normalizeMembers] at h
    cases hx : normalize x with
    | none => simp [hx] at h
    | some x' =>
      cases hxs : normalizeMembers xs with
      | none => simp [hx, hxs] at h
      | some xs' =>
        simp only [hx, hxs, Option.some.injEq] at h
        subst h
        simp only [Json.numsStableMembers]
        exact ⟨normalize_numsStable x x' hn.1 hx, normalizeMembers_numsStable xs xs' hn.2 hxs⟩
end

/-- numbers are unchanged and the normal form has stable numbers -/
theorem normalize_stable_num (v v' : Json) (h : v.numsStable) (hn : normalize v = some v') :
    v'.numsStable ∧ ∀ n, v = .num n → v' = .num n := by
  refine ⟨normalize_numsStable v v' h hn, ?_⟩
  intro n e
  subst e
  rw [normalize_num_stable n (by simpa only [Json.numsStable] using h)] at hn
  simp only [Option.some.injEq] at hn
  exact hn.symm

/-- **canonical text is read back as the normal form**: for a value whose numbers are stable,
    parsing its RFC 8785 encoding yields the value's normal form -/
theorem parse_jcs_num (v : Json) (text : List Char) (h : v.numsStable) (hj : v.jcs = some text) :
    Parse.parse text = v.normalize := by
  unfold Json.jcs at hj
  cases hn : v.normalize with
  | none => simp [hn] at hj
  | some v' =>
    simp only [hn, Option.map_some, Option.some.injEq] at hj
    subst hj
    exact parse_print_num v' (normalize_numsStable v v' h hn)

mutual
/-- values without numbers have (vacuously) stable numbers -/
theorem numFree_numsStable : ∀ (v : Json), numFree v = true → v.numsStable
  | .null, _ => by simp only [Json.numsStable]
  | .bool _, _ => by simp only [Json.numsStable]
  | .str _, _ => by simp only [Json.numsStable]
  | .num _, h => by simp [numFree] at h
  | .arr xs, h => by
    simp only [Json.numsStable]
    exact numFreeList_numsStable xs (by simpa [numFree] using h)
  | .obj kvs, h => by
    simp only [Json.numsStable]
    exact numFreeMembers_numsStable kvs (by simpa [numFree] using h)
theorem numFreeList_numsStable : ∀ (l : List Json), numFreeList l = true → Json.numsStableList l
  | [], _ => by simp only [Json.numsStableList]
  | x :: xs, h => by
    simp only [numFreeList, Bool.and_eq_true] at h
    simp only [Json.numsStableList]
    exact ⟨numFree_numsStable x h.1, numFreeList_numsStable xs h.2⟩
theorem numFreeMembers_numsStable : ∀ (l : List (String × Json)), numFreeMembers l = true → Json.numsStableMembers l
  | [], _ => by simp only [Json.numsStableMembers]
  | (k, x) :: xs, h => by
    simp only [numFreeMembers, Bool.and_eq_true] at h
    simp only [Json.numsStableMembers]
    exact ⟨numFree_numsStable x h.1, numFreeMembers_numsStable xs h.2⟩
end

/-! ### the normal form is a fixed point -/

mutual
theorem normalize_fixed_num : ∀ (v v' : Json), v.numsStable → normalize v = some v' → normalize v' = some v'
  | .null, v', _, h => by simp [normalize] at h; subst h; rfl
  | .bool b, v', _, h => by simp [normalize] at h; subst h; rfl
  | .str s, v', _, h => by simp [normalize] at h; subst h; rfl
  | .num n, v', hn, h => by
    have hs := normalize_num_stable n (by simpa only [Json.numsStable] using hn)
    rw [hs] at h
    simp only [Option.some.injEq] at h
    subst h; exact hs
  | .arr xs, v', hn, h => by
    simp only [normalize, Option.map_eq_some_iff] at h
    obtain ⟨xs', hx, rfl⟩ := h
    have := normalizeList_fixed_of_num xs xs' (by simpa only [Json.numsStable] using hn) hx
    simp [normalize, normalizeList_fixed xs' this]
  | .obj kvs, v', hn, h => by
    simp only [normalize] at h
    cases hm : normalizeMembers kvs with
    | none => simp [hm] at h
    | some kvs' =>
      simp only [hm] at h
      by_cases hnd : namesNodup kvs' = true
      · simp only [hnd, if_true, Option.some.injEq] at h
        subst h
        have hfix := normalizeMembers_fixed_of_num kvs kvs' (by simpa only [Json.numsStable] using hn) hm
        have hperm := sortMembers_perm kvs'
        have hfix' : FixedMembers (sortMembers kvs') := fun kv hkv => hfix kv (hperm.mem_iff.mp hkv)
        have hnd' : namesNodup (sortMembers kvs') = true :=
          (namesNodup_iff _).mpr ((hperm.map _).nodup_iff.mpr ((namesNodup_iff kvs').mp hnd))
        have hss : sortMembers (sortMembers kvs') = sortMembers kvs' :=
          sortMembers_eq_of_perm _ _ hperm ((hperm.map _).nodup_iff.mpr ((namesNodup_iff kvs').mp hnd))
        simp [normalize, normalizeMembers_fixed _ hfix', hnd', hss]
      · simp [hnd] at h
theorem normalizeList_fixed_of_num : ∀ (l l' : List Json), Json.numsStableList l → normalizeList l = some l' →
    ∀ x ∈ l', normalize x = some x
  | [], l', _, h => by simp [normalizeList] at h; subst h; intro x hx; cases hx
  | x :: xs, l', hn, h => by
    simp only [Json.numsStableList] at hn
    simp only [normalizeList] at h
    cases hx : normalize x with
    | none => simp [hx] at h
    | some x' =>
      cases hxs : normalizeList xs with
      | none => simp [hx, hxs] at h
      | some xs' =>
        simp only [hx, hxs, Option.some.injEq] at h
        subst h
        intro y hy
        rcases List.mem_cons.mp hy with e | hm
        · subst e; exact normalize_fixed_num x y hn.1 hx
        · exact normalizeList_fixed_of_num xs xs' hn.2 hxs y hm
theorem normalizeMembers_fixed_of_num : ∀ (l l' : List (String × Json)), Json.numsStableMembers l → normalizeMembers l = some l' →
    FixedMembers l'
  | [], l', _, h => by simp [normalizeMembers] at h; subst h; intro x hx; cases hx
  | (k, x) :: xs, l', hn, h => by
    simp only [Json.numsStableMembers] at hn
    simp only [normalizeMembers] at h
    cases hx : normalize x with
    | none => simp [hx] at h
    | some x' =>
      cases hxs : normalizeMembers xs with
      | none => simp [hx, hxs] at h
      | some xs' =>
        simp only [hx, hxs, Option.some.injEq] at h
        subst h
        intro y hy
        rcases List.mem_cons.mp hy with e | hm
        · subst e; exact normalize_fixed_num x x' hn.1 hx
        · exact normalizeMembers_fixed_of_num xs xs' hn.2 hxs y hm
end

/-- canonicalisation is idempotent through the reader: the canonical text of a value whose numbers
    are stable is read back as a value whose canonical text is that same text -/
theorem jcs_parse_jcs_num (v : Json) (text : List Char) (h : v.numsStable) (hj : v.jcs = some text) :
    ∃ v', Parse.parse text = some v' ∧ v'.jcs = some text := by
  have hp := parse_jcs_num v text h hj
  unfold Json.jcs at hj
  cases hn : v.normalize with
  | none => simp [hn] at hj
  | some v' =>
    simp only [hn, Option.map_some, Option.some.injEq] at hj
    refine ⟨v', by rw [hp, hn], ?_⟩
    unfold Json.jcs
    rw [normalize_fixed_num v v' h hn]
    simp [hj]

/-- the canonical text is a fixed point of `transform ∘ parse` at the level of texts -/
theorem jcs_idem_num (v : Json) (text : List Char) (h : v.numsStable) (hj : v.jcs = some text) :
    (Parse.parse text).bind Json.jcs = some text := by
  obtain ⟨v', hp, hj'⟩ := jcs_parse_jcs_num v text h hj
  simp [hp, hj']


/-! ### how integer stability plugs in -/

theorem isDigit_of_charIsDigit (c : Char) (h : c.isDigit = true) : Parse.isDigit c = true := by
  simp only [Char.isDigit, Bool.and_eq_true, decide_eq_true_eq] at h
  simp only [Parse.isDigit, Bool.and_eq_true, decide_eq_true_eq]
  exact ⟨h.1, h.2⟩

/-- decimal digits of a natural number: not empty, first one a digit -/
theorem natDigits_start (n : Nat) : ∃ c tl, natDigits n = c :: tl ∧ Parse.isDigit c = true := by
  have he : natDigits n = Nat.toDigits 10 n := by simp [natDigits, Nat.toList_repr]
  cases hd : Nat.toDigits 10 n with
  | nil => exact absurd hd Nat.toDigits_ne_nil
  | cons c tl =>
    refine ⟨c, tl, by rw [he, hd], ?_⟩
    exact isDigit_of_charIsDigit c
      (Nat.isDigit_of_mem_toDigits (b := 10) (n := n) (by decide) (by decide) (by rw [hd]; exact List.mem_cons_self ..))

/-- stability of an integer from the two facts about it that are proved elsewhere
    (`canon_ofNat` / `parseNumber_natDigits` style): its canonical text is its decimal numeral, and
    that numeral is read back as the integer -/
theorem stable_of_int (i : Int)
    (hc : (JNum.ofInt i).canon = some ((if i < 0 then ['-'] else []) ++ natDigits i.natAbs))
    (hp : ∀ rest, numStop rest → Parse.parseNumber ((if i < 0 then ['-'] else []) ++ natDigits i.natAbs ++ rest) = some (JNum.ofInt i, rest)) :
    (JNum.ofInt i).Stable := by
  refine ⟨_, hc, ?_, hp⟩
  by_cases hi : i < 0
  · exact ⟨'-', natDigits i.natAbs, by simp [hi], Or.inl rfl⟩
  · obtain ⟨c, tl, hd, hdig⟩ := natDigits_start i.natAbs
    exact ⟨c, tl, by simp [hi, hd], Or.inr hdig⟩

/-- the same for values: a value whose only numbers are such integers has stable numbers -/
example (i : Int) (h : (JNum.ofInt i).Stable) :
    (Json.obj [("a", .num (JNum.ofInt i)), ("b", .arr [.str "x"])]).numsStable := by
  simp only [Json.numsStable, Json.numsStableMembers, Json.numsStableList, and_true]
  exact h


/-! ### the results are not vacuous -/

/-- a concrete stable number (everything computed by the kernel, no floating point lemma needed) -/
theorem five_stable : (JNum.ofNat 5).Stable := by
  refine ⟨['5'], by decide, ⟨'5', [], rfl, Or.inr (by decide)⟩, ?_⟩
  intro rest hr
  cases rest with
  | nil => decide
  | cons c tl =>
    have h := hr c tl rfl
    simp only [not_or] at h
    obtain ⟨h1, h2, h3, h4⟩ := h
    have h1' : isDigit c = false := by simpa using h1
    have ht : takeDigits (c :: tl) = ([], c :: tl) := by simp [takeDigits, h1']
    have h5 : isDigit '5' = true := by decide
    have ht5 : takeDigits ('5' :: c :: tl) = (['5'], c :: tl) := by
      rw [takeDigits]; simp only [h5, if_true, ht]
    unfold parseNumber
    simp only [List.cons_append, List.nil_append]
    simp [ht5, h2, h3, h4, digitsToNat, JNum.ofNat]

theorem example_numsStable :
    (Json.obj [("a", .num (JNum.ofNat 5)), ("b", .arr [.str "x"])]).numsStable := by
  simp only [Json.numsStable, Json.numsStableMembers, Json.numsStableList, and_true]
  exact five_stable

example : Parse.parse (print (Json.obj [("a", .num (JNum.ofNat 5)), ("b", .arr [.str "x"])])) =
    some (Json.obj [("a", .num (JNum.ofNat 5)), ("b", .arr [.str "x"])]) :=
  parse_print_num _ example_numsStable

end Sidetree.RT
