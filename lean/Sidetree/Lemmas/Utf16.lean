/-
  UTF-16 encoding of scalar values is injective, so the UTF-16 member order is a strict total
  order on member *names* (not only on their code-unit sequences).
-/
import Sidetree.Lemmas.Order

namespace Sidetree

theorem char_valid_cases (c : Char) : c.toNat < 0xD800 ∨ (0xE000 ≤ c.toNat ∧ c.toNat < 0x110000) := by
  have h := c.valid
  unfold UInt32.isValidChar Nat.isValidChar at h
  change c.val.toNat < 0xD800 ∨ (0xE000 ≤ c.val.toNat ∧ c.val.toNat < 0x110000)
  omega

theorem char_eq_of_toNat_eq (a b : Char) (h : a.toNat = b.toNat) : a = b := by
  apply Char.ext
  apply UInt32.toNat_inj.mp
  exact h

theorem utf16_cons_inj (a b : Char) (as bs : List Char)
    (h : utf16Units a ++ utf16 as = utf16Units b ++ utf16 bs) : a = b ∧ utf16 as = utf16 bs := by
  have ha := char_valid_cases a
  have hb := char_valid_cases b
  unfold utf16Units at h
  by_cases h1 : a.toNat < 0x10000 <;> by_cases h2 : b.toNat < 0x10000
  · simp only [h1, h2, if_true, List.cons_append, List.nil_append, List.cons.injEq] at h
    exact ⟨char_eq_of_toNat_eq _ _ h.1, h.2⟩
  · simp only [h1, h2, if_true, if_false, List.cons_append, List.nil_append, List.cons.injEq] at h
    omega
  · simp only [h1, h2, if_true, if_false, List.cons_append, List.nil_append, List.cons.injEq] at h
    omega
  · simp only [h1, h2, if_false, List.cons_append, List.nil_append, List.cons.injEq] at h
    obtain ⟨e1, e2, e3⟩ := h
    refine ⟨char_eq_of_toNat_eq _ _ ?_, e3⟩
    omega

theorem utf16Units_ne_nil (c : Char) : utf16Units c ≠ [] := by
  unfold utf16Units
  by_cases h : c.toNat < 0x10000 <;> simp [h]

theorem utf16_injective : ∀ (a b : List Char), utf16 a = utf16 b → a = b
  | [], [], _ => rfl
  | [], b :: bs, h => by
    simp only [utf16, List.flatMap_nil, List.flatMap_cons] at h
    have := utf16Units_ne_nil b
    cases hb : utf16Units b <;> simp_all
  | a :: as, [], h => by
    simp only [utf16, List.flatMap_nil, List.flatMap_cons] at h
    have := utf16Units_ne_nil a
    cases ha : utf16Units a <;> simp_all
  | a :: as, b :: bs, h => by
    simp only [utf16, List.flatMap_cons] at h
    have := utf16_cons_inj a b as bs (by simpa [utf16] using h)
    rw [this.1, utf16_injective as bs this.2]

theorem nodup_map_inj {α β} {f : α → β} : ∀ {l : List α}, (l.map f).Nodup → ∀ {a b}, a ∈ l → b ∈ l → f a = f b → a = b
  | [], _, _, _, ha, _, _ => by cases ha
  | x :: xs, hnd, a, b, ha, hb, hf => by
    simp only [List.map_cons, List.nodup_cons, List.mem_map, not_exists, not_and] at hnd
    rcases List.mem_cons.mp ha with rfl | ha' <;> rcases List.mem_cons.mp hb with rfl | hb'
    · rfl
    · exact absurd hf.symm (hnd.1 b hb')
    · exact absurd hf (hnd.1 a ha')
    · exact nodup_map_inj hnd.2 ha' hb' hf

theorem utf16Le_antisymm (a b : String) (h1 : utf16Le a b = true) (h2 : utf16Le b a = true) : a = b := by
  have := utf16_injective _ _ (utf16Le_antisymm_units a b h1 h2)
  exact String.ext (by simpa using this)

/-- names with no duplicates: the sorted member list is determined by the *set* of members -/
theorem sortMembers_eq_of_perm (k1 k2 : List (String × Json))
    (hp : k1.Perm k2) (hnd : (k1.map (·.1)).Nodup) :
    sortMembers k1 = sortMembers k2 := by
  have p1 := sortMembers_perm k1
  have p2 := sortMembers_perm k2
  have hperm : (sortMembers k1).Perm (sortMembers k2) := p1.trans (hp.trans p2.symm)
  have s1 := sortMembers_sorted k1
  have s2 := sortMembers_sorted k2
  -- strengthen the relation to an antisymmetric one on the elements of k1
  have hnd1 : ((sortMembers k1).map (·.1)).Nodup := (p1.map _).nodup_iff.mpr hnd
  apply List.Perm.eq_of_pairwise (le := fun a b => memberLe a b = true) _ s1 s2 hperm
  intro a b ha hb hab hba
  have hname : a.1 = b.1 := utf16Le_antisymm _ _ hab hba
  -- two members of a nodup-by-name list with the same name are the same member
  have hb' : b ∈ sortMembers k1 := hperm.symm.subset hb
  exact nodup_map_inj hnd1 ha hb' hname

end Sidetree
