/-
  Whitespace spelling invariance of the reader: the same JSON value written with any
  insignificant whitespace (RFC 8259 §2: before and after every value and every structural
  character) is read as the same value, so it gets the same canonical form.

  `Spells v t`: `t` is `print v` with arbitrary whitespace in the gaps (strings and numbers are
  written as `print` writes them).  `parse_spelling`: every spelling of a value whose numbers are
  stable is read back as that value.
-/
import Sidetree.Lemmas.RoundTripNum
import Sidetree.Props.C05Num

namespace Sidetree.WS
open Sidetree Sidetree.Parse Sidetree.Json Sidetree.RT

/-- a run of insignificant whitespace -/
def allWs (w : List Char) : Prop := w.all isWs = true

mutual
/-- a spelling of a value with no whitespace around it (any whitespace inside) -/
inductive Tight : Json → List Char → Prop
  | null : Tight .null (print .null)
  | bool (b : Bool) : Tight (.bool b) (print (.bool b))
  | num (n : JNum) : Tight (.num n) (print (.num n))
  | str (s : String) : Tight (.str s) (print (.str s))
  | arrNil (w : List Char) : allWs w → Tight (.arr []) ('[' :: w ++ [']'])
  | arr (x : Json) (xs : List Json) (body : List Char) : Elems (x :: xs) body →
      Tight (.arr (x :: xs)) ('[' :: body ++ [']'])
  | objNil (w : List Char) : allWs w → Tight (.obj []) ('{' :: w ++ ['}'])
  | obj (kv : String × Json) (kvs : List (String × Json)) (body : List Char) : Members (kv :: kvs) body →
      Tight (.obj (kv :: kvs)) ('{' :: body ++ ['}'])
/-- the elements of a non-empty array, each with whitespace before and after, separated by commas -/
inductive Elems : List Json → List Char → Prop
  | one (x : Json) (w1 tx w2 : List Char) : allWs w1 → Tight x tx → allWs w2 → Elems [x] (w1 ++ tx ++ w2)
  | cons (x y : Json) (ys : List Json) (w1 tx w2 body : List Char) : allWs w1 → Tight x tx → allWs w2 →
      Elems (y :: ys) body → Elems (x :: y :: ys) (w1 ++ tx ++ w2 ++ ',' :: body)
/-- the members of a non-empty object: whitespace around the name, the colon, the value -/
inductive Members : List (String × Json) → List Char → Prop
  | one (k : String) (x : Json) (w1 w2 w3 tx w4 : List Char) : allWs w1 → allWs w2 → allWs w3 → Tight x tx → allWs w4 →
      Members [(k, x)] (w1 ++ quote k ++ w2 ++ ':' :: w3 ++ tx ++ w4)
  | cons (k : String) (x : Json) (kv : String × Json) (kvs : List (String × Json)) (w1 w2 w3 tx w4 body : List Char) :
      allWs w1 → allWs w2 → allWs w3 → Tight x tx → allWs w4 → Members (kv :: kvs) body →
      Members ((k, x) :: kv :: kvs) (w1 ++ quote k ++ w2 ++ ':' :: w3 ++ tx ++ w4 ++ ',' :: body)
end

/-- **a whitespace spelling of a value**: the value's compact text with any whitespace in any gap,
    including before and after the whole -/
def Spells (v : Json) (t : List Char) : Prop := ∃ w1 tx w2, allWs w1 ∧ Tight v tx ∧ allWs w2 ∧ t = w1 ++ tx ++ w2

/-! ### whitespace and the reader -/

theorem skipWs_ws_append : ∀ (w cs : List Char), w.all isWs = true → skipWs (w ++ cs) = skipWs cs
  | [], _, _ => rfl
  | c :: w, cs, h => by
    simp only [List.all_cons, Bool.and_eq_true] at h
    simp only [List.cons_append, skipWs, h.1, if_true]
    exact skipWs_ws_append w cs h.2

theorem isWs_numStop (c : Char) (h : isWs c = true) : ¬ (isDigit c = true ∨ c = '.' ∨ c = 'e' ∨ c = 'E') := by
  simp only [isWs, Bool.or_eq_true, decide_eq_true_eq] at h
  rcases h with ((h | h) | h) | h <;> subst h <;> decide

theorem numStop_ws_append (w rest : List Char) (hw : allWs w) (hr : numStop rest) : numStop (w ++ rest) := by
  cases w with
  | nil => exact hr
  | cons c w =>
    intro c' tl e
    simp only [List.cons_append, List.cons.injEq] at e
    simp only [allWs, List.all_cons, Bool.and_eq_true] at hw
    rw [← e.1]
    exact isWs_numStop c hw.1

/-- the value reader skips the whitespace before a value -/
theorem parseValue_ws (fuel : Nat) (w cs : List Char) (hw : allWs w) : parseValue fuel (w ++ cs) = parseValue fuel cs := by
  cases fuel with
  | zero => simp [parseValue]
  | succ f => simp only [parseValue, skipWs_ws_append w cs hw]


theorem skipWs_idem : ∀ (cs : List Char), skipWs (skipWs cs) = skipWs cs
  | [] => rfl
  | c :: cs => by
    by_cases h : isWs c = true
    · simp only [skipWs, h, if_true]; exact skipWs_idem cs
    · simp only [skipWs, h]
      simp [skipWs, h]

theorem parseMembers_skipWs (fuel : Nat) (acc : List (String × Json)) (cs : List Char) :
    parseMembers fuel acc (skipWs cs) = parseMembers fuel acc cs := by
  cases fuel with
  | zero => simp [parseMembers]
  | succ f => simp only [parseMembers, skipWs_idem]

theorem skipWs_startN' (c : Char) (tl : List Char) (h : isStartN c) : skipWs (c :: tl) = c :: tl :=
  skipWs_startN c tl h

/-- a tight spelling starts like a value -/
theorem tight_start (v : Json) (t : List Char) (h : v.numsStable) (ht : Tight v t) : ∃ c tl, t = c :: tl ∧ isStartN c := by
  cases ht with
  | null => exact print_startN _ h
  | bool b => exact print_startN _ h
  | num n => exact print_startN _ h
  | str s => exact print_startN _ h
  | arrNil w _ => exact ⟨'[', _, rfl, Or.inl (by simp [isStart])⟩
  | arr x xs body _ => exact ⟨'[', _, rfl, Or.inl (by simp [isStart])⟩
  | objNil w _ => exact ⟨'{', _, rfl, Or.inl (by simp [isStart])⟩
  | obj kv kvs body _ => exact ⟨'{', _, rfl, Or.inl (by simp [isStart])⟩

theorem parseValue_skipWs (fuel : Nat) (cs : List Char) : parseValue fuel (skipWs cs) = parseValue fuel cs := by
  cases fuel with
  | zero => simp [parseValue]
  | succ f => simp only [parseValue, skipWs_idem]

theorem parseElems_skipWs (fuel : Nat) (acc : List Json) (cs : List Char) :
    parseElems fuel acc (skipWs cs) = parseElems fuel acc cs := by
  cases fuel with
  | zero => simp [parseElems]
  | succ f => simp only [parseElems, parseValue_skipWs]

/-- the array branch of the value reader: whitespace after '[', then the first element -/
theorem parseValue_arrW (f : Nat) (cs : List Char) (c : Char) (tl : List Char) (hs : skipWs cs = c :: tl) (hc : isStartN c)
    (xs : List Json) (r : List Char) (h : parseElems f [] cs = some (xs, r)) :
    parseValue (f + 1) ('[' :: cs) = some (.arr xs, r) := by
  have hne := isStartN_ne_rbr hc
  rw [← parseElems_skipWs, hs] at h
  unfold parseValue
  rw [show skipWs ('[' :: cs) = '[' :: cs from by simp [skipWs, isWs]]
  simp only []
  rw [hs]
  split
  · rename_i heq; simp only [List.cons.injEq] at heq; exact absurd heq.1 hne
  · rw [h]

theorem parseValue_objW (f : Nat) (cs tl : List Char) (hs : skipWs cs = '"' :: tl)
    (kvs : List (String × Json)) (r : List Char) (h : parseMembers f [] cs = some (kvs, r)) :
    parseValue (f + 1) ('{' :: cs) = some (.obj kvs, r) := by
  rw [← parseMembers_skipWs, hs] at h
  unfold parseValue
  rw [show skipWs ('{' :: cs) = '{' :: cs from by simp [skipWs, isWs]]
  simp only []
  rw [hs]
  simp [h]

theorem parseValue_arrNil (f : Nat) (w rest : List Char) (hw : allWs w) :
    parseValue (f + 1) ('[' :: w ++ [']'] ++ rest) = some (.arr [], rest) := by
  have : '[' :: w ++ [']'] ++ rest = '[' :: (w ++ ']' :: rest) := by simp
  rw [this]
  unfold parseValue
  rw [show skipWs ('[' :: (w ++ ']' :: rest)) = '[' :: (w ++ ']' :: rest) from by simp [skipWs, isWs]]
  simp only []
  rw [skipWs_ws_append w _ hw, skipWs_rbr]
  simp

theorem parseValue_objNil (f : Nat) (w rest : List Char) (hw : allWs w) :
    parseValue (f + 1) ('{' :: w ++ ['}'] ++ rest) = some (.obj [], rest) := by
  have : '{' :: w ++ ['}'] ++ rest = '{' :: (w ++ '}' :: rest) := by simp
  rw [this]
  unfold parseValue
  rw [show skipWs ('{' :: (w ++ '}' :: rest)) = '{' :: (w ++ '}' :: rest) from by simp [skipWs, isWs]]
  simp only []
  rw [skipWs_ws_append w _ hw, skipWs_rbrace]
  simp

/-- the first element of an array body is where the whitespace after '[' ends -/
theorem elems_skip (l : List Json) (body : List Char) (hl : Json.numsStableList l) (he : Elems l body) (R : List Char) :
    ∃ c tl, skipWs (body ++ R) = c :: tl ∧ isStartN c := by
  cases he with
  | one x w1 tx w2 hw1 ht hw2 =>
    simp only [Json.numsStableList] at hl
    obtain ⟨c, tl, e, hc⟩ := tight_start x tx hl.1 ht
    subst e
    refine ⟨c, tl ++ w2 ++ R, ?_, hc⟩
    simp only [List.append_assoc]
    rw [skipWs_ws_append w1 _ hw1]
    exact skipWs_startN c _ hc
  | cons x y ys w1 tx w2 body' hw1 ht hw2 _ =>
    simp only [Json.numsStableList] at hl
    obtain ⟨c, tl, e, hc⟩ := tight_start x tx hl.1 ht
    subst e
    refine ⟨c, tl ++ w2 ++ ',' :: body' ++ R, ?_, hc⟩
    simp only [List.append_assoc]
    rw [skipWs_ws_append w1 _ hw1]
    exact skipWs_startN c _ hc

theorem members_skip (l : List (String × Json)) (body : List Char) (he : Members l body) (R : List Char) :
    ∃ tl, skipWs (body ++ R) = '"' :: tl := by
  cases he with
  | one k x w1 w2 w3 tx w4 hw1 _ _ _ _ =>
    simp only [List.append_assoc, quote, List.cons_append]
    rw [skipWs_ws_append w1 _ hw1, skipWs_quote]
    exact ⟨_, rfl⟩
  | cons k x kv kvs w1 w2 w3 tx w4 body' hw1 _ _ _ _ _ =>
    simp only [List.append_assoc, quote, List.cons_append]
    rw [skipWs_ws_append w1 _ hw1, skipWs_quote]
    exact ⟨_, rfl⟩


/-! ### the reader on spellings -/

mutual
theorem read_tight : ∀ (v : Json), v.numsStable → ∀ (t : List Char), Tight v t →
    ∀ (fuel : Nat) (rest : List Char), numStop rest → fuel ≥ size v → parseValue fuel (t ++ rest) = some (v, rest)
  | .null, h, t, ht, fuel, rest, hr, hf => by cases ht; exact read_value_num _ h fuel rest hr hf
  | .bool b, h, t, ht, fuel, rest, hr, hf => by cases ht; exact read_value_num _ h fuel rest hr hf
  | .num n, h, t, ht, fuel, rest, hr, hf => by cases ht; exact read_value_num _ h fuel rest hr hf
  | .str s, h, t, ht, fuel, rest, hr, hf => by cases ht; exact read_value_num _ h fuel rest hr hf
  | .arr [], _, t, ht, fuel, rest, _, hf => by
    obtain ⟨f, rfl⟩ : ∃ f, fuel = f + 1 := ⟨fuel - 1, by simp [size] at hf; omega⟩
    cases ht with
    | arrNil w hw => exact parseValue_arrNil f w rest hw
  | .arr (x :: xs), h, t, ht, fuel, rest, _, hf => by
    obtain ⟨f, rfl⟩ : ∃ f, fuel = f + 1 := ⟨fuel - 1, by simp [size] at hf; omega⟩
    have hl : Json.numsStableList (x :: xs) := by simpa only [Json.numsStable] using h
    cases ht with
    | arr _ _ body he =>
      have hel := read_elems (x :: xs) (by simp) hl body he f [] rest (by simp only [size] at hf; omega)
      obtain ⟨c, tl, hsk, hc⟩ := elems_skip (x :: xs) body hl he (']' :: rest)
      have : '[' :: body ++ [']'] ++ rest = '[' :: (body ++ ']' :: rest) := by simp
      rw [this, parseValue_arrW f _ c tl hsk hc _ _ hel]
      simp
  | .obj [], _, t, ht, fuel, rest, _, hf => by
    obtain ⟨f, rfl⟩ : ∃ f, fuel = f + 1 := ⟨fuel - 1, by simp [size] at hf; omega⟩
    cases ht with
    | objNil w hw => exact parseValue_objNil f w rest hw
  | .obj (kv :: kvs), h, t, ht, fuel, rest, _, hf => by
    obtain ⟨f, rfl⟩ : ∃ f, fuel = f + 1 := ⟨fuel - 1, by simp [size] at hf; omega⟩
    have hl : Json.numsStableMembers (kv :: kvs) := by simpa only [Json.numsStable] using h
    cases ht with
    | obj _ _ body he =>
      have hel := read_members (kv :: kvs) (by simp) hl body he f [] rest (by simp only [size] at hf; omega)
      obtain ⟨tl, hsk⟩ := members_skip (kv :: kvs) body he ('}' :: rest)
      have : '{' :: body ++ ['}'] ++ rest = '{' :: (body ++ '}' :: rest) := by simp
      rw [this, parseValue_objW f _ tl hsk _ _ hel]
      simp

theorem read_elems : ∀ (l : List Json), l ≠ [] → Json.numsStableList l → ∀ (body : List Char), Elems l body →
    ∀ (fuel : Nat) (acc : List Json) (rest : List Char), fuel ≥ sizeList l →
    parseElems fuel acc (body ++ ']' :: rest) = some (acc.reverse ++ l, rest)
  | [], hne, _, _, _, _, _, _, _ => absurd rfl hne
  | [x], _, hl, body, he, fuel, acc, rest, hf => by
    have hx : x.numsStable := by simp only [Json.numsStableList] at hl; exact hl.1
    obtain ⟨f, rfl⟩ : ∃ f, fuel = f + 1 := ⟨fuel - 1, by simp [sizeList] at hf; omega⟩
    cases he with
    | one _ w1 tx w2 hw1 ht hw2 =>
      have hv := read_tight x hx tx ht f (w2 ++ ']' :: rest) (numStop_ws_append _ _ hw2 (numStop_rbr rest))
        (by simp [sizeList] at hf; omega)
      have e : w1 ++ tx ++ w2 ++ ']' :: rest = w1 ++ (tx ++ (w2 ++ ']' :: rest)) := by simp
      rw [e]
      simp only [parseElems, parseValue_ws f w1 _ hw1, hv, skipWs_ws_append w2 _ hw2, skipWs_rbr]
      simp
  | x :: y :: ys, _, hl, body, he, fuel, acc, rest, hf => by
    obtain ⟨f, rfl⟩ : ∃ f, fuel = f + 1 := ⟨fuel - 1, by simp [sizeList] at hf; omega⟩
    simp only [Json.numsStableList] at hl
    have hx : x.numsStable := hl.1
    have hxs : Json.numsStableList (y :: ys) := by simp only [Json.numsStableList]; exact hl.2
    cases he with
    | cons _ _ _ w1 tx w2 body' hw1 ht hw2 he' =>
      have hv := read_tight x hx tx ht f (w2 ++ ',' :: (body' ++ ']' :: rest)) (numStop_ws_append _ _ hw2 (numStop_comma _))
        (by simp [sizeList] at hf; omega)
      have ih := read_elems (y :: ys) (by simp) hxs body' he' f (x :: acc) rest (by simp [sizeList] at hf ⊢; omega)
      have e : w1 ++ tx ++ w2 ++ ',' :: body' ++ ']' :: rest = w1 ++ (tx ++ (w2 ++ ',' :: (body' ++ ']' :: rest))) := by simp
      rw [e]
      simp only [parseElems, parseValue_ws f w1 _ hw1, hv, skipWs_ws_append w2 _ hw2, skipWs_comma]
      rw [ih]
      simp

theorem read_members : ∀ (l : List (String × Json)), l ≠ [] → Json.numsStableMembers l → ∀ (body : List Char), Members l body →
    ∀ (fuel : Nat) (acc : List (String × Json)) (rest : List Char), fuel ≥ sizeMembers l →
    parseMembers fuel acc (body ++ '}' :: rest) = some (acc.reverse ++ l, rest)
  | [], hne, _, _, _, _, _, _, _ => absurd rfl hne
  | [(k, x)], _, hl, body, he, fuel, acc, rest, hf => by
    have hx : x.numsStable := by simp only [Json.numsStableMembers] at hl; exact hl.1
    obtain ⟨f, rfl⟩ : ∃ f, fuel = f + 1 := ⟨fuel - 1, by simp [sizeMembers] at hf; omega⟩
    cases he with
    | one _ _ w1 w2 w3 tx w4 hw1 hw2 hw3 ht hw4 =>
      have hv := read_tight x hx tx ht f (w4 ++ '}' :: rest) (numStop_ws_append _ _ hw4 (numStop_rbrace rest))
        (by simp [sizeMembers] at hf; omega)
      have hq := read_quoted k (w2 ++ ':' :: (w3 ++ (tx ++ (w4 ++ '}' :: rest))))
      have e : w1 ++ quote k ++ w2 ++ ':' :: w3 ++ tx ++ w4 ++ '}' :: rest =
          w1 ++ ('"' :: (escape k.toList ++ '"' :: (w2 ++ ':' :: (w3 ++ (tx ++ (w4 ++ '}' :: rest)))))) := by
        simp [quote]
      rw [e]
      simp only [parseMembers, skipWs_ws_append w1 _ hw1, skipWs_quote, hq, skipWs_ws_append w2 _ hw2, skipWs_colon,
        parseValue_ws f w3 _ hw3, hv, skipWs_ws_append w4 _ hw4, skipWs_rbrace, ofList_toList]
      simp
  | (k, x) :: (k', y) :: ys, _, hl, body, he, fuel, acc, rest, hf => by
    obtain ⟨f, rfl⟩ : ∃ f, fuel = f + 1 := ⟨fuel - 1, by simp [sizeMembers] at hf; omega⟩
    simp only [Json.numsStableMembers] at hl
    have hx : x.numsStable := hl.1
    have hxs : Json.numsStableMembers ((k', y) :: ys) := by simp only [Json.numsStableMembers]; exact hl.2
    cases he with
    | cons _ _ _ _ w1 w2 w3 tx w4 body' hw1 hw2 hw3 ht hw4 he' =>
      have hv := read_tight x hx tx ht f (w4 ++ ',' :: (body' ++ '}' :: rest)) (numStop_ws_append _ _ hw4 (numStop_comma _))
        (by simp [sizeMembers] at hf; omega)
      have ih := read_members ((k', y) :: ys) (by simp) hxs body' he' f ((k, x) :: acc) rest (by simp [sizeMembers] at hf ⊢; omega)
      have hq := read_quoted k (w2 ++ ':' :: (w3 ++ (tx ++ (w4 ++ ',' :: (body' ++ '}' :: rest)))))
      have e : w1 ++ quote k ++ w2 ++ ':' :: w3 ++ tx ++ w4 ++ ',' :: body' ++ '}' :: rest =
          w1 ++ ('"' :: (escape k.toList ++ '"' :: (w2 ++ ':' :: (w3 ++ (tx ++ (w4 ++ ',' :: (body' ++ '}' :: rest))))))) := by
        simp [quote]
      rw [e]
      simp only [parseMembers, skipWs_ws_append w1 _ hw1, skipWs_quote, hq, skipWs_ws_append w2 _ hw2, skipWs_colon,
        parseValue_ws f w3 _ hw3, hv, skipWs_ws_append w4 _ hw4, skipWs_comma, ofList_toList]
      rw [ih]
      simp
end


/-! ### fuel: whitespace only lengthens the text -/

mutual
theorem size_le_tight : ∀ (v : Json), v.numsStable → ∀ (t : List Char), Tight v t → size v ≤ t.length
  | .null, h, t, ht => by cases ht; exact size_le_print_num _ h
  | .bool b, h, t, ht => by cases ht; exact size_le_print_num _ h
  | .num n, h, t, ht => by cases ht; exact size_le_print_num _ h
  | .str s, h, t, ht => by cases ht; exact size_le_print_num _ h
  | .arr [], _, t, ht => by
    cases ht with
    | arrNil w hw => simp [size, sizeList]
  | .arr (x :: xs), h, t, ht => by
    have hl : Json.numsStableList (x :: xs) := by simpa only [Json.numsStable] using h
    cases ht with
    | arr _ _ body he =>
      have := sizeList_le_elems (x :: xs) hl body he
      simp only [size, List.length_cons, List.length_append, List.length_nil]
      omega
  | .obj [], _, t, ht => by
    cases ht with
    | objNil w hw => simp [size, sizeMembers]
  | .obj (kv :: kvs), h, t, ht => by
    have hl : Json.numsStableMembers (kv :: kvs) := by simpa only [Json.numsStable] using h
    cases ht with
    | obj _ _ body he =>
      have := sizeMembers_le_members (kv :: kvs) hl body he
      simp only [size, List.length_cons, List.length_append, List.length_nil]
      omega
theorem sizeList_le_elems : ∀ (l : List Json), Json.numsStableList l → ∀ (body : List Char), Elems l body →
    sizeList l ≤ body.length + 1
  | [], _, _, _ => by simp [sizeList]
  | [x], hl, body, he => by
    simp only [Json.numsStableList] at hl
    cases he with
    | one _ w1 tx w2 hw1 ht hw2 =>
      have := size_le_tight x hl.1 tx ht
      simp only [sizeList, List.length_append]
      omega
  | x :: y :: ys, hl, body, he => by
    simp only [Json.numsStableList] at hl
    cases he with
    | cons _ _ _ w1 tx w2 body' hw1 ht hw2 he' =>
      have h1 := size_le_tight x hl.1 tx ht
      have h2 := sizeList_le_elems (y :: ys) (by simp only [Json.numsStableList]; exact hl.2) body' he'
      simp only [sizeList, List.length_append, List.length_cons] at h2 ⊢
      omega
theorem sizeMembers_le_members : ∀ (l : List (String × Json)), Json.numsStableMembers l → ∀ (body : List Char), Members l body →
    sizeMembers l ≤ body.length + 1
  | [], _, _, _ => by simp [sizeMembers]
  | [(k, x)], hl, body, he => by
    simp only [Json.numsStableMembers] at hl
    cases he with
    | one _ _ w1 w2 w3 tx w4 hw1 hw2 hw3 ht hw4 =>
      have := size_le_tight x hl.1 tx ht
      simp only [sizeMembers, List.length_append, List.length_cons]
      omega
  | (k, x) :: (k', y) :: ys, hl, body, he => by
    simp only [Json.numsStableMembers] at hl
    cases he with
    | cons _ _ _ _ w1 w2 w3 tx w4 body' hw1 hw2 hw3 ht hw4 he' =>
      have h1 := size_le_tight x hl.1 tx ht
      have h2 := sizeMembers_le_members ((k', y) :: ys) (by simp only [Json.numsStableMembers]; exact hl.2) body' he'
      simp only [sizeMembers, List.length_append, List.length_cons] at h2 ⊢
      omega
end

/-! ### the results -/

/-- **every whitespace spelling of a value is read as that value** (numbers stable) -/
theorem parse_spelling (v : Json) (t : List Char) (h : v.numsStable) (hs : Spells v t) : Parse.parse t = some v := by
  obtain ⟨w1, tx, w2, hw1, ht, hw2, rfl⟩ := hs
  unfold Parse.parse
  have hsz := size_le_tight v h tx ht
  have hr : numStop w2 := by simpa using numStop_ws_append w2 [] hw2 numStop_nil
  have hv := read_tight v h tx ht (2 * (w1 ++ (tx ++ w2)).length + 2) w2 hr
    (by simp only [List.length_append]; omega)
  rw [List.append_assoc, parseValue_ws _ w1 _ hw1, hv]
  have : skipWs w2 = [] := by simpa [skipWs] using skipWs_ws_append w2 [] hw2
  simp [this]

theorem allWs_nil : allWs [] := rfl

mutual
/-- the compact text is one of the spellings -/
theorem tight_print : ∀ (v : Json), Tight v (print v)
  | .null => Tight.null
  | .bool b => Tight.bool b
  | .num n => Tight.num n
  | .str s => Tight.str s
  | .arr [] => by
    have := Tight.arrNil [] allWs_nil
    simpa [print, printList] using this
  | .arr (x :: xs) => by
    have := Tight.arr x xs _ (elems_print (x :: xs) (by simp))
    simpa [print] using this
  | .obj [] => by
    have := Tight.objNil [] allWs_nil
    simpa [print, printMembers] using this
  | .obj (kv :: kvs) => by
    have := Tight.obj kv kvs _ (members_print (kv :: kvs) (by simp))
    simpa [print] using this
theorem elems_print : ∀ (l : List Json), l ≠ [] → Elems l (printList l)
  | [], h => absurd rfl h
  | [x], _ => by
    have := Elems.one x [] (print x) [] allWs_nil (tight_print x) allWs_nil
    have e : [] ++ print x ++ [] = printList [x] := by simp [printList]
    exact e ▸ this
  | x :: y :: ys, _ => by
    have := Elems.cons x y ys [] (print x) [] (printList (y :: ys)) allWs_nil (tight_print x) allWs_nil
      (elems_print (y :: ys) (by simp))
    have e : [] ++ print x ++ [] ++ ',' :: printList (y :: ys) = printList (x :: y :: ys) := by simp [printList]
    exact e ▸ this
theorem members_print : ∀ (l : List (String × Json)), l ≠ [] → Members l (printMembers l)
  | [], h => absurd rfl h
  | [(k, x)], _ => by
    have := Members.one k x [] [] [] (print x) [] allWs_nil allWs_nil allWs_nil (tight_print x) allWs_nil
    have e : [] ++ quote k ++ [] ++ ':' :: [] ++ print x ++ [] = printMembers [(k, x)] := by simp [printMembers]
    exact e ▸ this
  | (k, x) :: (k', y) :: ys, _ => by
    have := Members.cons k x (k', y) ys [] [] [] (print x) [] (printMembers ((k', y) :: ys))
      allWs_nil allWs_nil allWs_nil (tight_print x) allWs_nil (members_print ((k', y) :: ys) (by simp))
    have e : [] ++ quote k ++ [] ++ ':' :: [] ++ print x ++ [] ++ ',' :: printMembers ((k', y) :: ys) =
        printMembers ((k, x) :: (k', y) :: ys) := by simp [printMembers]
    exact e ▸ this
end

theorem spells_print (v : Json) : Spells v (print v) :=
  ⟨[], print v, [], allWs_nil, tight_print v, allWs_nil, by simp⟩

/-- **insignificant whitespace is irrelevant to the reader**: every spelling of a value is read
    as its compact text is -/
theorem whitespace_irrelevant (v : Json) (t : List Char) (h : v.numsStable) (hs : Spells v t) :
    Parse.parse t = Parse.parse (print v) := by
  rw [parse_spelling v t h hs, parse_print_num v h]

/-- two spellings of the same value are read alike -/
theorem spellings_agree (v : Json) (t1 t2 : List Char) (h : v.numsStable) (h1 : Spells v t1) (h2 : Spells v t2) :
    Parse.parse t1 = Parse.parse t2 := by
  rw [parse_spelling v t1 h h1, parse_spelling v t2 h h2]

/-- … and so every spelling has the value's canonical form -/
theorem whitespace_irrelevant_jcs (v : Json) (t : List Char) (h : v.numsStable) (hs : Spells v t) :
    (Parse.parse t).bind Json.jcs = v.jcs := by
  rw [parse_spelling v t h hs]; rfl


/-! ### the relation is inhabited by ordinary texts, and the theorem applies to them -/

theorem allWs_of (w : List Char) (h : w.all isWs = true) : allWs w := h

def sampleValue : Json := .obj [("a", .arr [.num (JNum.ofNat 1), .str "x"])]

theorem sample_spells : Spells sampleValue " { \"a\" : [ 1 , \"x\" ]\n}".toList := by
  refine ⟨[' '], _, [], allWs_of _ (by decide),
    Tight.obj _ _ _ (Members.one "a" _ [' '] [' '] [' '] _ ['\n'] (allWs_of _ (by decide)) (allWs_of _ (by decide))
      (allWs_of _ (by decide))
      (Tight.arr _ _ _ (Elems.cons _ _ _ [' '] _ [' '] _ (allWs_of _ (by decide)) (Tight.num _) (allWs_of _ (by decide))
        (Elems.one _ [' '] _ [' '] (allWs_of _ (by decide)) (Tight.str _) (allWs_of _ (by decide)))))
      (allWs_of _ (by decide))),
    allWs_nil, ?_⟩
  decide

theorem sample_numsStable : sampleValue.numsStable :=
  Props.C05.intsOnly_numsStable _ (by decide)

example : Parse.parse " { \"a\" : [ 1 , \"x\" ]\n}".toList = some sampleValue :=
  parse_spelling _ _ sample_numsStable sample_spells

example : (Parse.parse " { \"a\" : [ 1 , \"x\" ]\n}".toList).bind Json.jcs = sampleValue.jcs :=
  whitespace_irrelevant_jcs _ _ sample_numsStable sample_spells

end Sidetree.WS
