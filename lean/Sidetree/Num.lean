/-
  Numbers: IEEE-754 binary64 by exact `Nat` arithmetic.

  * `F64`   finite doubles as (sign, mantissa, binary exponent)
  * `toF64` correctly rounded decimal → double (what `strconv.ParseFloat` does on a JSON literal)
  * `es6`   ECMA-262 `Number::toString` (shortest round-trip digits, then the notation rules);
            mirrors `es6numfmt.go:NumberToJSON`
-/
import Sidetree.Json

namespace Sidetree

/-- finite double: value = (-1)^neg · m · 2^e, `m < 2^53`, and (`2^52 ≤ m` or `e = -1074`) -/
structure F64 where
  neg : Bool
  m : Nat
  e : Int
deriving DecidableEq, Repr, Inhabited

namespace F64

def zero : F64 := { neg := false, m := 0, e := -1074 }

def isZero (d : F64) : Bool := d.m == 0

/-- decode a 64-bit pattern; `none` for NaN / ±Inf -/
def ofBits (b : Nat) : Option F64 :=
  let sign : Nat := b / 2 ^ 63 % 2
  let ex : Nat := b / 2 ^ 52 % 2048
  let frac : Nat := b % 2 ^ 52
  if ex = 2047 then none
  else if ex = 0 then some { neg := sign = 1, m := frac, e := -1074 }
  else some { neg := sign = 1, m := 2 ^ 52 + frac, e := (ex : Int) - 1075 }

def toBits (d : F64) : Nat :=
  let s := if d.neg then 2 ^ 63 else 0
  if d.m < 2 ^ 52 then s + d.m
  else s + ((d.e + 1075).toNat) * 2 ^ 52 + (d.m - 2 ^ 52)

end F64

def bitLen (n : Nat) : Nat := if n = 0 then 0 else Nat.log2 n + 1

def pow10 (n : Nat) : Nat := 10 ^ n

/-- number of decimal digits of a positive Nat -/
def decLen (n : Nat) : Nat := (Nat.repr n).length

/-- round-half-even division: nearest integer to num/den -/
def divRoundEven (num den : Nat) : Nat :=
  let q := num / den
  let r := num % den
  if 2 * r < den then q
  else if 2 * r > den then q + 1
  else if q % 2 = 0 then q else q + 1

/-- `mant · 10^exp10` to the nearest double (ties to even). `none` = out of range (±Inf). -/
def toF64 (neg : Bool) (mant : Nat) (exp10 : Int) : Option F64 :=
  if mant = 0 then some { neg := neg, m := 0, e := -1074 }
  else
    let mag : Int := (decLen mant : Int) + exp10   -- 10^(mag-1) ≤ value < 10^mag
    if mag > 310 then none
    else if mag < -330 then some { neg := neg, m := 0, e := -1074 }
    else
      let num : Nat := if exp10 ≥ 0 then mant * pow10 exp10.toNat else mant
      let den : Nat := if exp10 ≥ 0 then 1 else pow10 (-exp10).toNat
      -- first guess of the binary exponent so that num/den / 2^e ∈ [2^52, 2^53)
      let e0 : Int := (bitLen num : Int) - (bitLen den : Int) - 53
      let scaled (e : Int) : Nat × Nat :=   -- value / 2^e as a fraction
        if e ≥ 0 then (num, den * 2 ^ e.toNat) else (num * 2 ^ (-e).toNat, den)
      let fl (e : Int) : Nat := (scaled e).1 / (scaled e).2
      let e1 : Int := if fl e0 ≥ 2 ^ 53 then e0 + 1 else if fl e0 < 2 ^ 52 then e0 - 1 else e0
      let e2 : Int := if fl e1 ≥ 2 ^ 53 then e1 + 1 else if fl e1 < 2 ^ 52 then e1 - 1 else e1
      let e3 : Int := if e2 < -1074 then -1074 else e2
      let m := divRoundEven (scaled e3).1 (scaled e3).2
      let (m, e4) : Nat × Int := if m = 2 ^ 53 then (2 ^ 52, e3 + 1) else (m, e3)
      if e4 > 971 then none else some { neg := neg, m := m, e := e4 }

def JNum.toF64 (n : JNum) : Option F64 := Sidetree.toF64 n.neg n.mant n.exp10

/-! ### shortest round-trip digits -/

/-- a non-negative rational as numerator / denominator -/
structure Q where
  num : Nat
  den : Nat

namespace Q
def le (a b : Q) : Bool := a.num * b.den ≤ b.num * a.den
def lt (a b : Q) : Bool := a.num * b.den < b.num * a.den
/-- |a - b| as a rational -/
def dist (a b : Q) : Q :=
  let x := a.num * b.den
  let y := b.num * a.den
  { num := if x ≥ y then x - y else y - x, den := a.den * b.den }
/-- n · 10^p -/
def dec (n : Nat) (p : Int) : Q :=
  if p ≥ 0 then { num := n * pow10 p.toNat, den := 1 } else { num := n, den := pow10 (-p).toNat }
/-- x · 2^e / 4 -/
def bin4 (x : Nat) (e : Int) : Q :=
  if e ≥ 0 then { num := x * 2 ^ e.toNat, den := 4 } else { num := x, den := 4 * 2 ^ (-e).toNat }
def floorDiv10 (a : Q) (p : Int) : Nat :=   -- ⌊a / 10^p⌋
  if p ≥ 0 then a.num / (a.den * pow10 p.toNat) else (a.num * pow10 (-p).toNat) / a.den
end Q

/-- decimal magnitude `M` with `10^(M-1) ≤ v < 10^M` for a positive rational; found by
    adjusting an estimate (at most a few steps; fuel bounds the search) -/
def decMagnitude (v : Q) : Int :=
  let est : Int := (((bitLen v.num : Int) - (bitLen v.den : Int)) * 30103) / 100000
  let rec up (fuel : Nat) (M : Int) : Int :=      -- make v < 10^M
    match fuel with
    | 0 => M
    | f + 1 => if Q.lt v (Q.dec 1 M) then M else up f (M + 1)
  let rec down (fuel : Nat) (M : Int) : Int :=    -- make 10^(M-1) ≤ v
    match fuel with
    | 0 => M
    | f + 1 => if Q.le (Q.dec 1 (M - 1)) v then M else down f (M - 1)
  down 8 (up 8 (est - 2))

/-- shortest digits: `(n, p)` with value `n · 10^p` inside the rounding interval of `d`,
    fewest digits, closest to `d`. `d` must be non-zero. -/
def shortest (d : F64) : Nat × Int :=
  let v := Q.bin4 (4 * d.m) d.e
  let boundary := d.m = 2 ^ 52 ∧ d.e > -1074
  let lo := Q.bin4 (if boundary then 4 * d.m - 1 else 4 * d.m - 2) d.e
  let hi := Q.bin4 (4 * d.m + 2) d.e
  let incl := d.m % 2 = 0
  let inside (c : Q) : Bool :=
    (if incl then Q.le lo c else Q.lt lo c) && (if incl then Q.le c hi else Q.lt c hi)
  let M := decMagnitude v
  let rec go (fuel : Nat) (k : Nat) : Nat × Int :=
    match fuel with
    | 0 => (d.m, d.e)   -- unreachable for k ≤ 17; kept total
    | f + 1 =>
      let p : Int := M - k
      let n0 := Q.floorDiv10 v p
      let c0 := Q.dec n0 p
      let c1 := Q.dec (n0 + 1) p
      let ok0 := inside c0
      let ok1 := inside c1
      if ok0 && ok1 then
        -- closest; on an exact tie the even digit string (ECMA-262 Number::toString step 5)
        (if Q.lt (Q.dist c0 v) (Q.dist c1 v) then (n0, p)
         else if Q.lt (Q.dist c1 v) (Q.dist c0 v) then (n0 + 1, p)
         else if n0 % 2 = 0 then (n0, p) else (n0 + 1, p))
      else if ok0 then (n0, p)
      else if ok1 then (n0 + 1, p)
      else go f (k + 1)
  go 20 1

/-- strip trailing zeros of `n`, raising `p` -/
def stripZeros : Nat → Nat → Int → Nat × Int
  | 0, n, p => (n, p)
  | f + 1, n, p => if n ≠ 0 ∧ n % 10 = 0 then stripZeros f (n / 10) (p + 1) else (n, p)

def zeros (n : Nat) : List Char := List.replicate n '0'

/-- ECMA-262 Number::toString notation for digits `ds` (no trailing zeros) and point
    position `n` (value = 0.ds · 10^n) -/
def es6Notation (ds : List Char) (n : Int) : List Char :=
  let k : Int := ds.length
  if k ≤ n ∧ n ≤ 21 then ds ++ zeros (n - k).toNat
  else if 0 < n ∧ n ≤ 21 then ds.take n.toNat ++ '.' :: ds.drop n.toNat
  else if -6 < n ∧ n ≤ 0 then '0' :: '.' :: zeros (-n).toNat ++ ds
  else
    let e := n - 1
    let es := (if e < 0 then '-' else '+') :: natDigits e.natAbs
    match ds with
    | [c] => c :: 'e' :: es
    | c :: rest => c :: '.' :: rest ++ 'e' :: es
    | [] => []

/-- `NumberToJSON` -/
def es6 (d : F64) : List Char :=
  if d.isZero then ['0']
  else
    let (n, p) := shortest d
    let (n, p) := stripZeros 400 n p
    let ds := natDigits n
    (if d.neg then ['-'] else []) ++ es6Notation ds (p + ds.length)

/-- canonical number literal of a JSON number token; `none` = not representable (±Inf) -/
def JNum.canon (n : JNum) : Option (List Char) := n.toF64.map es6

end Sidetree
