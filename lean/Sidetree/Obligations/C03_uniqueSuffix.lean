import Sidetree.Expected
import Sidetree.Generated.Parser
namespace Sidetree.Obligations
/-- model/util.go: GetUniqueSuffix hashes the suffix data with algs[0] -/
theorem C03_uniqueSuffix :
    Generated.uniqueSuffixCalls = some Expected.uniqueSuffixCalls := by decide
end Sidetree.Obligations
