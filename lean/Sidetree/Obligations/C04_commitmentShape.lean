import Sidetree.Expected
import Sidetree.Generated.Hashing
namespace Sidetree.Obligations
/-- commitment/hash.go: call chains of GetCommitment and GetCommitmentFromRevealValue -/
theorem C04_commitmentShape :
    Generated.commitmentInnerHash = some Expected.commitmentInnerHash ∧
    Generated.commitmentFromRevealCalls = some Expected.commitmentFromRevealCalls := by decide
end Sidetree.Obligations
