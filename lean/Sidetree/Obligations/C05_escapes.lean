import Sidetree.Expected
import Sidetree.Generated.Jcs
namespace Sidetree.Obligations
/-- jsoncanonicalizer.go: escape tables and the control-character rule -/
theorem C05_escapes :
    Generated.jcsAsciiEscapes = some Expected.jcsAsciiEscapes ∧ Generated.jcsBinaryEscapes = some Expected.jcsBinaryEscapes ∧
    Generated.jcsControlFormat = some Expected.jcsControlFormat := by decide
end Sidetree.Obligations
