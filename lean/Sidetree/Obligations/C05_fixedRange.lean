import Sidetree.Expected
import Sidetree.Generated.Jcs
namespace Sidetree.Obligations
/-- es6numfmt.go: fixed notation exactly for 1e-6 ≤ v < 1e21 -/
theorem C05_fixedRange :
    Generated.es6FixedRange = some Expected.es6FixedRange := by decide
end Sidetree.Obligations
