import Sidetree.Expected
import Sidetree.Generated.Jcs
namespace Sidetree.Obligations
/-- jsoncanonicalizer.go: members are sorted on UTF-16 code units of the name -/
theorem C05_sortKey :
    Generated.jcsSortKey = some Expected.jcsSortKey := by decide
end Sidetree.Obligations
