import Sidetree.Expected
import Sidetree.Generated.Hashing
namespace Sidetree.Obligations
/-- hash.go: supported codes are sha2-256 and sha2-512 -/
theorem C06_supportedCodes :
    Generated.hashSupportedCodes = some Expected.hashSupportedCodes := by decide
end Sidetree.Obligations
