import Sidetree.Expected
import Sidetree.Generated.Hashing
namespace Sidetree.Obligations
/-- hash.go: IsValidModelMultihash recomputes under the code of the supplied hash and compares encoded strings -/
theorem C06_validCompare :
    Generated.isValidCompare = some Expected.isValidCompare ∧ Generated.isValidCalls = some Expected.isValidCalls := by decide
end Sidetree.Obligations
