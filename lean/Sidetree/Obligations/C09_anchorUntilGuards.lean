import Sidetree.Expected
import Sidetree.Generated.Window
namespace Sidetree.Obligations
/-- both getAnchorUntil substitute the default exactly when `from != 0 && until == 0` -/
theorem C09_anchorUntilGuards :
    Generated.anchorUntilGuardApplier = some Expected.anchorUntilGuard ∧
    Generated.anchorUntilGuardParser = some Expected.anchorUntilGuard := by decide
end Sidetree.Obligations
