import Sidetree.Expected
import Sidetree.Generated.Window
namespace Sidetree.Obligations
/-- operationapplier.go:getAnchorUntil adds the protocol's maximum operation time delta -/
theorem C09_anchorUntilParamApplier :
    Generated.anchorUntilParamApplier = some Expected.anchorUntilParamApplier := by decide
end Sidetree.Obligations
