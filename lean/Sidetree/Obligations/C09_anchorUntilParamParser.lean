import Sidetree.Expected
import Sidetree.Generated.Window
namespace Sidetree.Obligations
/-- operationparser/recover.go:getAnchorUntil adds the protocol's maximum operation time delta -/
theorem C09_anchorUntilParamParser :
    Generated.anchorUntilParamParser = some Expected.anchorUntilParamParser := by decide
end Sidetree.Obligations
