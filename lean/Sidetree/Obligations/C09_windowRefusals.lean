import Sidetree.Expected
import Sidetree.Generated.Window
namespace Sidetree.Obligations
/-- verifyAnchoringTimeRange: the unset guard and the two ordered refusals with their operators -/
theorem C09_windowRefusals :
    Generated.windowUnsetGuard = some Expected.windowUnsetGuard ∧
    Generated.windowRefusals = some Expected.windowRefusals := by decide
end Sidetree.Obligations
