import Sidetree.Expected
import Sidetree.Generated.Composer
namespace Sidetree.Obligations
/-- composer.go: action dispatch and the one-operation-at-a-time application of json patches -/
theorem C10_composerShape :
    Generated.composerDispatch = some Expected.composerDispatch ∧ Generated.applyJSONShape = some Expected.applyJSONShape := by decide
end Sidetree.Obligations
