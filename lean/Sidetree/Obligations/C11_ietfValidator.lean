import Sidetree.Expected
import Sidetree.Generated.Validator
namespace Sidetree.Obligations
/-- ietf.go: protected prefixes, inspected operation members (path and from), and the guards of validateJSONPatches / validateJSONPointer -/
theorem C11_ietfValidator :
    Generated.protectedPrefixes = some Expected.protectedPrefixes ∧ Generated.inspectedMembers = some Expected.inspectedMembers ∧
    Generated.ietfConds = some Expected.ietfConds ∧ Generated.pointerConds = some Expected.pointerConds := by decide
end Sidetree.Obligations
