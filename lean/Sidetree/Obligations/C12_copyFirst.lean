import Sidetree.Expected
import Sidetree.Generated.Composer
namespace Sidetree.Obligations
/-- composer.go: ApplyPatches works on a deep copy taken first, through a JSON round trip -/
theorem C12_copyFirst :
    Generated.applyPatchesFirst = some Expected.applyPatchesFirst ∧ Generated.deepCopyCalls = some Expected.deepCopyCalls := by decide
end Sidetree.Obligations
