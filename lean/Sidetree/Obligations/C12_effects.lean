import Sidetree.Effects
import Sidetree.Generated.Effects
namespace Sidetree.Obligations
open Sidetree.Effects

def disciplinedOpt : Option (List Nat) → Option (Prog Nat) → Bool
  | some ins, some p => Disciplined ins p
  | _, _ => false

/-- composer.go: ApplyPatches (with every function it calls in that file) never writes through
    `doc`, `patches` or anything that may alias them -/
theorem C12_effects_ApplyPatches :
    disciplinedOpt Generated.inputs_ApplyPatches Generated.prog_ApplyPatches = true := by decide +kernel

/-- operationapplier.go: Apply (with the four apply functions) never writes through the anchored
    operation, the previous resolution model or the applier itself -/
theorem C12_effects_Apply :
    disciplinedOpt Generated.inputs_Apply Generated.prog_Apply = true := by decide +kernel
end Sidetree.Obligations
