import Sidetree.Expected
import Sidetree.Generated.Validator
namespace Sidetree.Obligations
/-- document.go: id / service-type length limits, id alphabet and the comparison operators of every size gate -/
theorem C13_limits :
    Generated.maxIDLength = some Expected.maxIDLength ∧ Generated.maxServiceTypeLength = some Expected.maxServiceTypeLength ∧
    Generated.idRegexp = some Expected.idRegexp ∧ Generated.limitOps = some Expected.limitOps := by decide
end Sidetree.Obligations
