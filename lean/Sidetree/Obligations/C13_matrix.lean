import Sidetree.Expected
import Sidetree.Generated.Validator
namespace Sidetree.Obligations
/-- document.go: allowed purposes and the key type x purpose tables -/
theorem C13_matrix :
    Generated.allowedPurposes = some Expected.allowedPurposes ∧ Generated.keyTypesGeneral = some Expected.keyTypesGeneral ∧
    Generated.keyTypesVerification = some Expected.keyTypesVerification ∧ Generated.keyTypesAgreement = some Expected.keyTypesAgreement ∧
    Generated.keyTypePurpose = some Expected.keyTypePurpose := by decide
end Sidetree.Obligations
