import Sidetree.Expected
import Sidetree.Generated.Validator
namespace Sidetree.Obligations
/-- document.go / replace.go: member lists of a public key entry and of a replace document; the base58 exception; the endpoint loop -/
theorem C13_members :
    Generated.pkRequiredMembers = some Expected.pkRequiredMembers ∧ Generated.pkOptionalMembers = some Expected.pkOptionalMembers ∧
    Generated.pkOneOfMembers = some Expected.pkOneOfMembers ∧ Generated.replaceAllowedMembers = some Expected.replaceAllowedMembers ∧
    Generated.base58Exception = some Expected.base58Exception ∧ Generated.endpointLoopShape = some Expected.endpointLoopShape := by decide
end Sidetree.Obligations
