import Sidetree.Expected
import Sidetree.Generated.Patch
namespace Sidetree.Obligations
/-- patch.go: action ↦ value member -/
theorem C14_actionConfig :
    Generated.actionConfig = some Expected.actionConfig := by decide
end Sidetree.Obligations
