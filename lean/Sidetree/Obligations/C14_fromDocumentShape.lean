import Sidetree.Expected
import Sidetree.Generated.Patch
namespace Sidetree.Obligations
/-- patch.go: PatchesFromDocument dispatch and the json patch template -/
theorem C14_fromDocumentShape :
    Generated.fromDocumentCases = some Expected.fromDocumentCases ∧ Generated.jsonPatchAddTemplate = some Expected.jsonPatchAddTemplate := by decide
end Sidetree.Obligations
