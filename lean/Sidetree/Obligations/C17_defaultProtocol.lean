import Sidetree.Expected
import Sidetree.Generated.Did
namespace Sidetree.Obligations
/-- config/protocol.go: the protocol of the long-form handler -/
theorem C17_defaultProtocol :
    Generated.defaultProtocol = some Expected.defaultProtocol := rfl
end Sidetree.Obligations
