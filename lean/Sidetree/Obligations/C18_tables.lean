import Sidetree.Expected
import Sidetree.Generated.Transformer
namespace Sidetree.Obligations
/-- transformer.go / metadata.go: key contexts, purpose switch and the comparator of sortOperations -/
theorem C18_tables :
    Generated.keyContexts = some Expected.keyContexts ∧ Generated.purposeSwitch = some Expected.purposeSwitch ∧
    Generated.sortCmp = some Expected.sortCmp := by decide
end Sidetree.Obligations
