import Sidetree.Expected
import Sidetree.Generated.Composer
namespace Sidetree.Obligations
/-- composer.go: the deferred closure of applyJSONPatchOperation calls recover() itself -/
theorem C19_recoverGuard :
    Generated.recoverGuard = some Expected.recoverGuard := by decide
end Sidetree.Obligations
