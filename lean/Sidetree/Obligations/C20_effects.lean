import Sidetree.Effects
import Sidetree.Generated.Effects
import Sidetree.Obligations.C12_effects
namespace Sidetree.Obligations
open Sidetree.Effects

/-- metadata.go: CreateDocumentMetadata (with the functions it calls in that file) never writes
    through the resolution model, the transformation info, or anything reachable from them: the
    operation lists are sorted as copies -/
theorem C20_effects_Metadata :
    disciplinedOpt Generated.inputs_Metadata Generated.prog_Metadata = true := by decide +kernel

/-- doctransformer/transformer.go: TransformDocument never writes through the resolution model
    (the id goes into a copy of the document) -/
theorem C20_effects_DocTransform :
    disciplinedOpt Generated.inputs_DocTransform Generated.prog_DocTransform = true := by decide +kernel

/-- didtransformer/transformer.go: TransformDocument never writes through the resolution model,
    the transformation info or the transformer -/
theorem C20_effects_DidTransform :
    disciplinedOpt Generated.inputs_DidTransform Generated.prog_DidTransform = true := by decide +kernel
end Sidetree.Obligations
