import Sidetree.ExpectedSkeletons
import Sidetree.Generated.AnchorsC02
namespace Sidetree.Obligations
/-- the Go functions mirrored by the AnchorsC02 model have the reviewed control structure and literals -/
theorem Shape_AnchorsC02 :
    Generated.skel_C02_file_hashing_hash = some ExpectedSkeletons.skel_C02_file_hashing_hash ∧
    Generated.skel_C02_file_jwsutil_jws = some ExpectedSkeletons.skel_C02_file_jwsutil_jws ∧
    Generated.skel_C02_file_jwsutil_signature = some ExpectedSkeletons.skel_C02_file_jwsutil_signature ∧
    Generated.skel_C02_file_versions_1_0_operationapplier_operationapplier = some ExpectedSkeletons.skel_C02_file_versions_1_0_operationapplier_operationapplier ∧
    Generated.skel_C02_file_versions_1_0_operationparser_deactivate = some ExpectedSkeletons.skel_C02_file_versions_1_0_operationparser_deactivate ∧
    Generated.skel_C02_file_versions_1_0_operationparser_recover = some ExpectedSkeletons.skel_C02_file_versions_1_0_operationparser_recover ∧
    Generated.skel_C02_file_versions_1_0_operationparser_update = some ExpectedSkeletons.skel_C02_file_versions_1_0_operationparser_update :=
  ⟨rfl, rfl, rfl, rfl, rfl, rfl, rfl⟩
end Sidetree.Obligations
