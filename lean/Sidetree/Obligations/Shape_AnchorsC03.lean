import Sidetree.ExpectedSkeletons
import Sidetree.Generated.AnchorsC03
namespace Sidetree.Obligations
/-- the Go functions mirrored by the AnchorsC03 model have the reviewed control structure and literals -/
theorem Shape_AnchorsC03 :
    Generated.skel_C03_file_docutil_doc = some ExpectedSkeletons.skel_C03_file_docutil_doc ∧
    Generated.skel_C03_file_hashing_hash = some ExpectedSkeletons.skel_C03_file_hashing_hash ∧
    Generated.skel_C03_file_versions_1_0_model_util = some ExpectedSkeletons.skel_C03_file_versions_1_0_model_util ∧
    Generated.skel_C03_file_versions_1_0_operationparser_create = some ExpectedSkeletons.skel_C03_file_versions_1_0_operationparser_create ∧
    Generated.skel_C03_file_versions_1_0_operationparser_operation = some ExpectedSkeletons.skel_C03_file_versions_1_0_operationparser_operation :=
  ⟨rfl, rfl, rfl, rfl, rfl⟩
end Sidetree.Obligations
