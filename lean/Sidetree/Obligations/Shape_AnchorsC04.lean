import Sidetree.ExpectedSkeletons
import Sidetree.Generated.AnchorsC04
namespace Sidetree.Obligations
/-- the Go functions mirrored by the AnchorsC04 model have the reviewed control structure and literals -/
theorem Shape_AnchorsC04 :
    Generated.skel_C04_file_canonicalizer_canonicalizer = some ExpectedSkeletons.skel_C04_file_canonicalizer_canonicalizer ∧
    Generated.skel_C04_file_commitment_hash = some ExpectedSkeletons.skel_C04_file_commitment_hash ∧
    Generated.skel_C04_file_hashing_hash = some ExpectedSkeletons.skel_C04_file_hashing_hash ∧
    Generated.skel_C04_file_jws_jwk = some ExpectedSkeletons.skel_C04_file_jws_jwk ∧
    Generated.skel_C04_file_versions_1_0_operationparser_commitment = some ExpectedSkeletons.skel_C04_file_versions_1_0_operationparser_commitment :=
  ⟨rfl, rfl, rfl, rfl, rfl⟩
end Sidetree.Obligations
