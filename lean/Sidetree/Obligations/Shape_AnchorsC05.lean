import Sidetree.ExpectedSkeletons
import Sidetree.Generated.AnchorsC05
namespace Sidetree.Obligations
/-- the Go functions mirrored by the AnchorsC05 model have the reviewed control structure and literals -/
theorem Shape_AnchorsC05 :
    Generated.skel_C05_file_canonicalizer_canonicalizer = some ExpectedSkeletons.skel_C05_file_canonicalizer_canonicalizer ∧
    Generated.skel_C05_file_internal_jsoncanonicalizer_es6numfmt = some ExpectedSkeletons.skel_C05_file_internal_jsoncanonicalizer_es6numfmt ∧
    Generated.skel_C05_file_internal_jsoncanonicalizer_jsoncanonicalizer = some ExpectedSkeletons.skel_C05_file_internal_jsoncanonicalizer_jsoncanonicalizer :=
  ⟨rfl, rfl, rfl⟩
end Sidetree.Obligations
