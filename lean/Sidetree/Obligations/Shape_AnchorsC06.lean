import Sidetree.ExpectedSkeletons
import Sidetree.Generated.AnchorsC06
namespace Sidetree.Obligations
/-- the Go functions mirrored by the AnchorsC06 model have the reviewed control structure and literals -/
theorem Shape_AnchorsC06 :
    Generated.skel_C06_file_canonicalizer_canonicalizer = some ExpectedSkeletons.skel_C06_file_canonicalizer_canonicalizer ∧
    Generated.skel_C06_file_docutil_doc = some ExpectedSkeletons.skel_C06_file_docutil_doc ∧
    Generated.skel_C06_file_encoder_encoder = some ExpectedSkeletons.skel_C06_file_encoder_encoder ∧
    Generated.skel_C06_file_hashing_hash = some ExpectedSkeletons.skel_C06_file_hashing_hash :=
  ⟨rfl, rfl, rfl, rfl⟩
end Sidetree.Obligations
