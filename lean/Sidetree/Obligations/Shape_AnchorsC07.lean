import Sidetree.ExpectedSkeletons
import Sidetree.Generated.AnchorsC07
namespace Sidetree.Obligations
/-- the Go functions mirrored by the AnchorsC07 model have the reviewed control structure and literals -/
theorem Shape_AnchorsC07 :
    Generated.skel_C07_file_api_operation_models = some ExpectedSkeletons.skel_C07_file_api_operation_models ∧
    Generated.skel_C07_file_api_protocol_protocol = some ExpectedSkeletons.skel_C07_file_api_protocol_protocol ∧
    Generated.skel_C07_file_versions_1_0_operationparser_create = some ExpectedSkeletons.skel_C07_file_versions_1_0_operationparser_create ∧
    Generated.skel_C07_file_versions_1_0_operationparser_deactivate = some ExpectedSkeletons.skel_C07_file_versions_1_0_operationparser_deactivate ∧
    Generated.skel_C07_file_versions_1_0_operationparser_operation = some ExpectedSkeletons.skel_C07_file_versions_1_0_operationparser_operation ∧
    Generated.skel_C07_file_versions_1_0_operationparser_recover = some ExpectedSkeletons.skel_C07_file_versions_1_0_operationparser_recover ∧
    Generated.skel_C07_file_versions_1_0_operationparser_update = some ExpectedSkeletons.skel_C07_file_versions_1_0_operationparser_update :=
  ⟨rfl, rfl, rfl, rfl, rfl, rfl, rfl⟩
end Sidetree.Obligations
