import Sidetree.ExpectedSkeletons
import Sidetree.Generated.AnchorsC08
namespace Sidetree.Obligations
/-- the Go functions mirrored by the AnchorsC08 model have the reviewed control structure and literals -/
theorem Shape_AnchorsC08 :
    Generated.skel_C08_file_patch_patch = some ExpectedSkeletons.skel_C08_file_patch_patch ∧
    Generated.skel_C08_file_util_signutil_signature = some ExpectedSkeletons.skel_C08_file_util_signutil_signature ∧
    Generated.skel_C08_file_vdr_sidetreelongform_sidetree_client = some ExpectedSkeletons.skel_C08_file_vdr_sidetreelongform_sidetree_client ∧
    Generated.skel_C08_file_vdr_sidetreelongform_sidetree_doc_doc = some ExpectedSkeletons.skel_C08_file_vdr_sidetreelongform_sidetree_doc_doc ∧
    Generated.skel_C08_file_versions_1_0_client_create = some ExpectedSkeletons.skel_C08_file_versions_1_0_client_create ∧
    Generated.skel_C08_file_versions_1_0_client_deactivate = some ExpectedSkeletons.skel_C08_file_versions_1_0_client_deactivate ∧
    Generated.skel_C08_file_versions_1_0_client_recover = some ExpectedSkeletons.skel_C08_file_versions_1_0_client_recover ∧
    Generated.skel_C08_file_versions_1_0_client_update = some ExpectedSkeletons.skel_C08_file_versions_1_0_client_update ∧
    Generated.skel_C08_file_versions_1_0_model_util = some ExpectedSkeletons.skel_C08_file_versions_1_0_model_util :=
  ⟨rfl, rfl, rfl, rfl, rfl, rfl, rfl, rfl, rfl⟩
end Sidetree.Obligations
