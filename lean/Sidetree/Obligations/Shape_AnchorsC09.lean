import Sidetree.ExpectedSkeletons
import Sidetree.Generated.AnchorsC09
namespace Sidetree.Obligations
/-- the Go functions mirrored by the AnchorsC09 model have the reviewed control structure and literals -/
theorem Shape_AnchorsC09 :
    Generated.skel_C09_file_api_protocol_protocol = some ExpectedSkeletons.skel_C09_file_api_protocol_protocol ∧
    Generated.skel_C09_file_versions_1_0_operationapplier_operationapplier = some ExpectedSkeletons.skel_C09_file_versions_1_0_operationapplier_operationapplier ∧
    Generated.skel_C09_file_versions_1_0_operationparser_deactivate = some ExpectedSkeletons.skel_C09_file_versions_1_0_operationparser_deactivate ∧
    Generated.skel_C09_file_versions_1_0_operationparser_recover = some ExpectedSkeletons.skel_C09_file_versions_1_0_operationparser_recover ∧
    Generated.skel_C09_file_versions_1_0_operationparser_update = some ExpectedSkeletons.skel_C09_file_versions_1_0_operationparser_update :=
  ⟨rfl, rfl, rfl, rfl, rfl⟩
end Sidetree.Obligations
