import Sidetree.ExpectedSkeletons
import Sidetree.Generated.AnchorsC10
namespace Sidetree.Obligations
/-- the Go functions mirrored by the AnchorsC10 model have the reviewed control structure and literals -/
theorem Shape_AnchorsC10 :
    Generated.skel_C10_file_document_diddocument = some ExpectedSkeletons.skel_C10_file_document_diddocument ∧
    Generated.skel_C10_file_document_document = some ExpectedSkeletons.skel_C10_file_document_document ∧
    Generated.skel_C10_file_patch_patch = some ExpectedSkeletons.skel_C10_file_patch_patch ∧
    Generated.skel_C10_file_versions_1_0_doccomposer_composer = some ExpectedSkeletons.skel_C10_file_versions_1_0_doccomposer_composer :=
  ⟨rfl, rfl, rfl, rfl⟩
end Sidetree.Obligations
