import Sidetree.ExpectedSkeletons
import Sidetree.Generated.AnchorsC11
namespace Sidetree.Obligations
/-- the Go functions mirrored by the AnchorsC11 model have the reviewed control structure and literals -/
theorem Shape_AnchorsC11 :
    Generated.skel_C11_file_versions_1_0_doccomposer_composer = some ExpectedSkeletons.skel_C11_file_versions_1_0_doccomposer_composer ∧
    Generated.skel_C11_file_versions_1_0_operationparser_patchvalidator_ietf = some ExpectedSkeletons.skel_C11_file_versions_1_0_operationparser_patchvalidator_ietf :=
  ⟨rfl, rfl⟩
end Sidetree.Obligations
