import Sidetree.ExpectedSkeletons
import Sidetree.Generated.AnchorsC12
namespace Sidetree.Obligations
/-- the Go functions mirrored by the AnchorsC12 model have the reviewed control structure and literals -/
theorem Shape_AnchorsC12 :
    Generated.skel_C12_file_versions_1_0_doccomposer_composer = some ExpectedSkeletons.skel_C12_file_versions_1_0_doccomposer_composer ∧
    Generated.skel_C12_file_versions_1_0_operationapplier_operationapplier = some ExpectedSkeletons.skel_C12_file_versions_1_0_operationapplier_operationapplier :=
  ⟨rfl, rfl⟩
end Sidetree.Obligations
