import Sidetree.ExpectedSkeletons
import Sidetree.Generated.AnchorsC14
namespace Sidetree.Obligations
/-- the Go functions mirrored by the AnchorsC14 model have the reviewed control structure and literals -/
theorem Shape_AnchorsC14 :
    Generated.skel_C14_file_patch_patch = some ExpectedSkeletons.skel_C14_file_patch_patch ∧
    Generated.skel_C14_file_util_json_json = some ExpectedSkeletons.skel_C14_file_util_json_json ∧
    Generated.skel_C14_file_versions_1_0_doccomposer_composer = some ExpectedSkeletons.skel_C14_file_versions_1_0_doccomposer_composer ∧
    Generated.skel_C14_file_versions_1_0_operationparser_patchvalidator_validator = some ExpectedSkeletons.skel_C14_file_versions_1_0_operationparser_patchvalidator_validator :=
  ⟨rfl, rfl, rfl, rfl⟩
end Sidetree.Obligations
