import Sidetree.ExpectedSkeletons
import Sidetree.Generated.AnchorsC15
namespace Sidetree.Obligations
/-- the Go functions mirrored by the AnchorsC15 model have the reviewed control structure and literals -/
theorem Shape_AnchorsC15 :
    Generated.skel_C15_file_jwsutil_jwk = some ExpectedSkeletons.skel_C15_file_jwsutil_jwk ∧
    Generated.skel_C15_file_jwsutil_jws = some ExpectedSkeletons.skel_C15_file_jwsutil_jws ∧
    Generated.skel_C15_file_jwsutil_signature = some ExpectedSkeletons.skel_C15_file_jwsutil_signature ∧
    Generated.skel_C15_file_util_ecsigner_signer = some ExpectedSkeletons.skel_C15_file_util_ecsigner_signer ∧
    Generated.skel_C15_file_util_edsigner_signer = some ExpectedSkeletons.skel_C15_file_util_edsigner_signer ∧
    Generated.skel_C15_file_util_signutil_signature = some ExpectedSkeletons.skel_C15_file_util_signutil_signature :=
  ⟨rfl, rfl, rfl, rfl, rfl, rfl⟩
end Sidetree.Obligations
