import Sidetree.ExpectedSkeletons
import Sidetree.Generated.AnchorsC16
namespace Sidetree.Obligations
/-- the Go functions mirrored by the AnchorsC16 model have the reviewed control structure and literals -/
theorem Shape_AnchorsC16 :
    Generated.skel_C16_file_jws_jwk = some ExpectedSkeletons.skel_C16_file_jws_jwk ∧
    Generated.skel_C16_file_jwsutil_jwk = some ExpectedSkeletons.skel_C16_file_jwsutil_jwk ∧
    Generated.skel_C16_file_util_pubkey_jwk = some ExpectedSkeletons.skel_C16_file_util_pubkey_jwk :=
  ⟨rfl, rfl, rfl⟩
end Sidetree.Obligations
