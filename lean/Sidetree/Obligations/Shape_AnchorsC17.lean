import Sidetree.ExpectedSkeletons
import Sidetree.Generated.AnchorsC17
namespace Sidetree.Obligations
/-- the Go functions mirrored by the AnchorsC17 model have the reviewed control structure and literals -/
theorem Shape_AnchorsC17 :
    Generated.skel_C17_file_docutil_docutil = some ExpectedSkeletons.skel_C17_file_docutil_docutil ∧
    Generated.skel_C17_file_vdr_sidetreelongform_dochandler_dochandler = some ExpectedSkeletons.skel_C17_file_vdr_sidetreelongform_dochandler_dochandler ∧
    Generated.skel_C17_file_vdr_sidetreelongform_sidetree_client = some ExpectedSkeletons.skel_C17_file_vdr_sidetreelongform_sidetree_client ∧
    Generated.skel_C17_file_vdr_sidetreelongform_vdr = some ExpectedSkeletons.skel_C17_file_vdr_sidetreelongform_vdr ∧
    Generated.skel_C17_file_versions_1_0_operationparser_method = some ExpectedSkeletons.skel_C17_file_versions_1_0_operationparser_method :=
  ⟨rfl, rfl, rfl, rfl, rfl⟩
end Sidetree.Obligations
