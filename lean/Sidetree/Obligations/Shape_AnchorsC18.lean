import Sidetree.ExpectedSkeletons
import Sidetree.Generated.AnchorsC18
namespace Sidetree.Obligations
/-- the Go functions mirrored by the AnchorsC18 model have the reviewed control structure and literals -/
theorem Shape_AnchorsC18 :
    Generated.skel_C18_file_document_resolution = some ExpectedSkeletons.skel_C18_file_document_resolution ∧
    Generated.skel_C18_file_docutil_docutil = some ExpectedSkeletons.skel_C18_file_docutil_docutil ∧
    Generated.skel_C18_file_versions_1_0_doctransformer_didtransformer_transformer = some ExpectedSkeletons.skel_C18_file_versions_1_0_doctransformer_didtransformer_transformer ∧
    Generated.skel_C18_file_versions_1_0_doctransformer_doctransformer_transformer = some ExpectedSkeletons.skel_C18_file_versions_1_0_doctransformer_doctransformer_transformer ∧
    Generated.skel_C18_file_versions_1_0_doctransformer_metadata_metadata = some ExpectedSkeletons.skel_C18_file_versions_1_0_doctransformer_metadata_metadata :=
  ⟨rfl, rfl, rfl, rfl, rfl⟩
end Sidetree.Obligations
