import Sidetree.ExpectedSkeletons
import Sidetree.Generated.AnchorsC19
namespace Sidetree.Obligations
/-- the Go functions mirrored by the AnchorsC19 model have the reviewed control structure and literals -/
theorem Shape_AnchorsC19 :
    Generated.skel_C19_file_internal_jsoncanonicalizer_jsoncanonicalizer = some ExpectedSkeletons.skel_C19_file_internal_jsoncanonicalizer_jsoncanonicalizer ∧
    Generated.skel_C19_file_jwsutil_jwk = some ExpectedSkeletons.skel_C19_file_jwsutil_jwk ∧
    Generated.skel_C19_file_jwsutil_jws = some ExpectedSkeletons.skel_C19_file_jwsutil_jws ∧
    Generated.skel_C19_file_jwsutil_signature = some ExpectedSkeletons.skel_C19_file_jwsutil_signature ∧
    Generated.skel_C19_file_patch_patch = some ExpectedSkeletons.skel_C19_file_patch_patch ∧
    Generated.skel_C19_file_vdr_sidetreelongform_dochandler_dochandler = some ExpectedSkeletons.skel_C19_file_vdr_sidetreelongform_dochandler_dochandler ∧
    Generated.skel_C19_file_versions_1_0_doccomposer_composer = some ExpectedSkeletons.skel_C19_file_versions_1_0_doccomposer_composer ∧
    Generated.skel_C19_file_versions_1_0_doctransformer_didtransformer_transformer = some ExpectedSkeletons.skel_C19_file_versions_1_0_doctransformer_didtransformer_transformer ∧
    Generated.skel_C19_file_versions_1_0_operationapplier_operationapplier = some ExpectedSkeletons.skel_C19_file_versions_1_0_operationapplier_operationapplier ∧
    Generated.skel_C19_file_versions_1_0_operationparser_method = some ExpectedSkeletons.skel_C19_file_versions_1_0_operationparser_method ∧
    Generated.skel_C19_file_versions_1_0_operationparser_operation = some ExpectedSkeletons.skel_C19_file_versions_1_0_operationparser_operation ∧
    Generated.skel_C19_file_versions_1_0_operationparser_patchvalidator_document = some ExpectedSkeletons.skel_C19_file_versions_1_0_operationparser_patchvalidator_document :=
  ⟨rfl, rfl, rfl, rfl, rfl, rfl, rfl, rfl, rfl, rfl, rfl, rfl⟩
end Sidetree.Obligations
