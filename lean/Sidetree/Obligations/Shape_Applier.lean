import Sidetree.ExpectedSkeletons
import Sidetree.Generated.Applier
namespace Sidetree.Obligations
/-- the Go functions mirrored by the Applier model have the reviewed control structure and literals -/
theorem Shape_Applier :
    Generated.skel_Apply = some ExpectedSkeletons.skel_Apply ∧
    Generated.skel_applyCreateOperation = some ExpectedSkeletons.skel_applyCreateOperation ∧
    Generated.skel_applyUpdateOperation = some ExpectedSkeletons.skel_applyUpdateOperation ∧
    Generated.skel_applyDeactivateOperation = some ExpectedSkeletons.skel_applyDeactivateOperation ∧
    Generated.skel_applyRecoverOperation = some ExpectedSkeletons.skel_applyRecoverOperation ∧
    Generated.lit_applyCreateOperation = some ExpectedSkeletons.lit_applyCreateOperation ∧
    Generated.lit_applyUpdateOperation = some ExpectedSkeletons.lit_applyUpdateOperation ∧
    Generated.lit_applyDeactivateOperation = some ExpectedSkeletons.lit_applyDeactivateOperation ∧
    Generated.lit_applyRecoverOperation = some ExpectedSkeletons.lit_applyRecoverOperation :=
  ⟨rfl, rfl, rfl, rfl, rfl, rfl, rfl, rfl, rfl⟩
end Sidetree.Obligations
