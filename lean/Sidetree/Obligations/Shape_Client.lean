import Sidetree.ExpectedSkeletons
import Sidetree.Generated.Client
namespace Sidetree.Obligations
/-- the Go functions mirrored by the Client model have the reviewed control structure and literals -/
theorem Shape_Client :
    Generated.skel_create_NewCreateRequest = some ExpectedSkeletons.skel_create_NewCreateRequest ∧
    Generated.skel_create_getPatches = some ExpectedSkeletons.skel_create_getPatches ∧
    Generated.skel_create_validateCreateRequest = some ExpectedSkeletons.skel_create_validateCreateRequest ∧
    Generated.skel_update_NewUpdateRequest = some ExpectedSkeletons.skel_update_NewUpdateRequest ∧
    Generated.skel_update_validateUpdateRequest = some ExpectedSkeletons.skel_update_validateUpdateRequest ∧
    Generated.skel_update_validateUpdateKey = some ExpectedSkeletons.skel_update_validateUpdateKey ∧
    Generated.skel_recover_NewRecoverRequest = some ExpectedSkeletons.skel_recover_NewRecoverRequest ∧
    Generated.skel_recover_validateRecoverRequest = some ExpectedSkeletons.skel_recover_validateRecoverRequest ∧
    Generated.skel_recover_validateRecoveryKey = some ExpectedSkeletons.skel_recover_validateRecoveryKey ∧
    Generated.skel_recover_validateCommitment = some ExpectedSkeletons.skel_recover_validateCommitment ∧
    Generated.skel_deactivate_NewDeactivateRequest = some ExpectedSkeletons.skel_deactivate_NewDeactivateRequest ∧
    Generated.skel_deactivate_validateDeactivateRequest = some ExpectedSkeletons.skel_deactivate_validateDeactivateRequest ∧
    Generated.skel_deactivate_validateSigner = some ExpectedSkeletons.skel_deactivate_validateSigner ∧
    Generated.skel_client_buildCreateRequest = some ExpectedSkeletons.skel_client_buildCreateRequest ∧
    Generated.skel_client_buildUpdateRequest = some ExpectedSkeletons.skel_client_buildUpdateRequest ∧
    Generated.skel_client_buildRecoverRequest = some ExpectedSkeletons.skel_client_buildRecoverRequest ∧
    Generated.skel_client_buildDeactivateRequest = some ExpectedSkeletons.skel_client_buildDeactivateRequest ∧
    Generated.skel_client_createUpdatePatches = some ExpectedSkeletons.skel_client_createUpdatePatches ∧
    Generated.skel_client_getUniqueSuffix = some ExpectedSkeletons.skel_client_getUniqueSuffix ∧
    Generated.skel_client_getCommitment = some ExpectedSkeletons.skel_client_getCommitment ∧
    Generated.skel_client_createRemovePublicKeysPatch = some ExpectedSkeletons.skel_client_createRemovePublicKeysPatch ∧
    Generated.skel_client_createRemoveServicesPatch = some ExpectedSkeletons.skel_client_createRemoveServicesPatch ∧
    Generated.skel_client_createRemoveAlsoKnownAsPatch = some ExpectedSkeletons.skel_client_createRemoveAlsoKnownAsPatch ∧
    Generated.skel_client_createAddAlsoKnownAsPatch = some ExpectedSkeletons.skel_client_createAddAlsoKnownAsPatch ∧
    Generated.skel_client_createAddServicesPatch = some ExpectedSkeletons.skel_client_createAddServicesPatch ∧
    Generated.skel_client_createAddPublicKeysPatch = some ExpectedSkeletons.skel_client_createAddPublicKeysPatch ∧
    Generated.skel_client_validateCreateReq = some ExpectedSkeletons.skel_client_validateCreateReq ∧
    Generated.skel_client_validateUpdateReq = some ExpectedSkeletons.skel_client_validateUpdateReq ∧
    Generated.skel_client_validateRecoverReq = some ExpectedSkeletons.skel_client_validateRecoverReq ∧
    Generated.skel_client_validateDeactivateReq = some ExpectedSkeletons.skel_client_validateDeactivateReq ∧
    Generated.skel_doc_JSONBytes = some ExpectedSkeletons.skel_doc_JSONBytes ∧
    Generated.skel_doc_PopulateRawPublicKeys = some ExpectedSkeletons.skel_doc_PopulateRawPublicKeys ∧
    Generated.skel_doc_populateRawPublicKey = some ExpectedSkeletons.skel_doc_populateRawPublicKey ∧
    Generated.skel_doc_PopulateRawServices = some ExpectedSkeletons.skel_doc_PopulateRawServices ∧
    Generated.skel_doc_PopulateRawAlsoKnownAs = some ExpectedSkeletons.skel_doc_PopulateRawAlsoKnownAs ∧
    Generated.lit_NewCreateRequest_model_DeltaModel = some ExpectedSkeletons.lit_NewCreateRequest_model_DeltaModel ∧
    Generated.lit_NewCreateRequest_model_SuffixDataModel = some ExpectedSkeletons.lit_NewCreateRequest_model_SuffixDataModel ∧
    Generated.lit_NewCreateRequest_model_CreateRequest = some ExpectedSkeletons.lit_NewCreateRequest_model_CreateRequest ∧
    Generated.lit_NewUpdateRequest_model_DeltaModel = some ExpectedSkeletons.lit_NewUpdateRequest_model_DeltaModel ∧
    Generated.lit_NewUpdateRequest_model_UpdateSignedDataModel = some ExpectedSkeletons.lit_NewUpdateRequest_model_UpdateSignedDataModel ∧
    Generated.lit_NewUpdateRequest_model_UpdateRequest = some ExpectedSkeletons.lit_NewUpdateRequest_model_UpdateRequest ∧
    Generated.lit_NewRecoverRequest_model_DeltaModel = some ExpectedSkeletons.lit_NewRecoverRequest_model_DeltaModel ∧
    Generated.lit_NewRecoverRequest_model_RecoverSignedDataModel = some ExpectedSkeletons.lit_NewRecoverRequest_model_RecoverSignedDataModel ∧
    Generated.lit_NewRecoverRequest_model_RecoverRequest = some ExpectedSkeletons.lit_NewRecoverRequest_model_RecoverRequest ∧
    Generated.lit_NewDeactivateRequest_model_DeactivateSignedDataModel = some ExpectedSkeletons.lit_NewDeactivateRequest_model_DeactivateSignedDataModel ∧
    Generated.lit_NewDeactivateRequest_model_DeactivateRequest = some ExpectedSkeletons.lit_NewDeactivateRequest_model_DeactivateRequest ∧
    Generated.lit_GetAnchoredOperation_CreateRequest = some ExpectedSkeletons.lit_GetAnchoredOperation_CreateRequest ∧
    Generated.lit_GetAnchoredOperation_UpdateRequest = some ExpectedSkeletons.lit_GetAnchoredOperation_UpdateRequest ∧
    Generated.lit_GetAnchoredOperation_DeactivateRequest = some ExpectedSkeletons.lit_GetAnchoredOperation_DeactivateRequest ∧
    Generated.lit_GetAnchoredOperation_RecoverRequest = some ExpectedSkeletons.lit_GetAnchoredOperation_RecoverRequest ∧
    Generated.lit_GetAnchoredOperation_operation_AnchoredOperation = some ExpectedSkeletons.lit_GetAnchoredOperation_operation_AnchoredOperation ∧
    Generated.lit_buildCreateRequest_client_CreateRequestInfo = some ExpectedSkeletons.lit_buildCreateRequest_client_CreateRequestInfo ∧
    Generated.lit_buildCreateRequest_doc_Doc = some ExpectedSkeletons.lit_buildCreateRequest_doc_Doc ∧
    Generated.lit_buildUpdateRequest_client_UpdateRequestInfo = some ExpectedSkeletons.lit_buildUpdateRequest_client_UpdateRequestInfo ∧
    Generated.lit_buildRecoverRequest_client_RecoverRequestInfo = some ExpectedSkeletons.lit_buildRecoverRequest_client_RecoverRequestInfo ∧
    Generated.lit_buildRecoverRequest_doc_Doc = some ExpectedSkeletons.lit_buildRecoverRequest_doc_Doc ∧
    Generated.lit_buildDeactivateRequest_client_DeactivateRequestInfo = some ExpectedSkeletons.lit_buildDeactivateRequest_client_DeactivateRequestInfo ∧
    Generated.lit_JSONBytes_rawDoc = some ExpectedSkeletons.lit_JSONBytes_rawDoc ∧
    Generated.lit_tags_CreateRequest = some ExpectedSkeletons.lit_tags_CreateRequest ∧
    Generated.lit_tags_SuffixDataModel = some ExpectedSkeletons.lit_tags_SuffixDataModel ∧
    Generated.lit_tags_DeltaModel = some ExpectedSkeletons.lit_tags_DeltaModel ∧
    Generated.lit_tags_UpdateRequest = some ExpectedSkeletons.lit_tags_UpdateRequest ∧
    Generated.lit_tags_DeactivateRequest = some ExpectedSkeletons.lit_tags_DeactivateRequest ∧
    Generated.lit_tags_RecoverRequest = some ExpectedSkeletons.lit_tags_RecoverRequest ∧
    Generated.lit_tags_UpdateSignedDataModel = some ExpectedSkeletons.lit_tags_UpdateSignedDataModel ∧
    Generated.lit_tags_RecoverSignedDataModel = some ExpectedSkeletons.lit_tags_RecoverSignedDataModel ∧
    Generated.lit_tags_DeactivateSignedDataModel = some ExpectedSkeletons.lit_tags_DeactivateSignedDataModel ∧
    Generated.lit_tags_JWK = some ExpectedSkeletons.lit_tags_JWK ∧
    Generated.lit_tags_rawDoc = some ExpectedSkeletons.lit_tags_rawDoc :=
  ⟨rfl, rfl, rfl, rfl, rfl, rfl, rfl, rfl, rfl, rfl, rfl, rfl, rfl, rfl, rfl, rfl, rfl, rfl, rfl, rfl, rfl, rfl, rfl, rfl, rfl, rfl, rfl, rfl, rfl, rfl, rfl, rfl, rfl, rfl, rfl, rfl, rfl, rfl, rfl, rfl, rfl, rfl, rfl, rfl, rfl, rfl, rfl, rfl, rfl, rfl, rfl, rfl, rfl, rfl, rfl, rfl, rfl, rfl, rfl, rfl, rfl, rfl, rfl, rfl, rfl, rfl, rfl, rfl, rfl⟩
end Sidetree.Obligations
