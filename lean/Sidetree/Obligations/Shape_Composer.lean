import Sidetree.ExpectedSkeletons
import Sidetree.Generated.Composer
namespace Sidetree.Obligations
/-- the Go functions mirrored by the Composer model have the reviewed control structure and literals -/
theorem Shape_Composer :
    Generated.skel_composer_ApplyPatches = some ExpectedSkeletons.skel_composer_ApplyPatches ∧
    Generated.skel_composer_applyPatch = some ExpectedSkeletons.skel_composer_applyPatch ∧
    Generated.skel_composer_applyJSON = some ExpectedSkeletons.skel_composer_applyJSON ∧
    Generated.skel_composer_applyJSONPatchOperation = some ExpectedSkeletons.skel_composer_applyJSONPatchOperation ∧
    Generated.skel_composer_targetsOwnSource = some ExpectedSkeletons.skel_composer_targetsOwnSource ∧
    Generated.skel_composer_stringMember = some ExpectedSkeletons.skel_composer_stringMember ∧
    Generated.skel_composer_isBelow = some ExpectedSkeletons.skel_composer_isBelow ∧
    Generated.skel_composer_applyRecover = some ExpectedSkeletons.skel_composer_applyRecover ∧
    Generated.skel_composer_applyAddPublicKeys = some ExpectedSkeletons.skel_composer_applyAddPublicKeys ∧
    Generated.skel_composer_updateKey = some ExpectedSkeletons.skel_composer_updateKey ∧
    Generated.skel_composer_applyRemovePublicKeys = some ExpectedSkeletons.skel_composer_applyRemovePublicKeys ∧
    Generated.skel_composer_applyAddServiceEndpoints = some ExpectedSkeletons.skel_composer_applyAddServiceEndpoints ∧
    Generated.skel_composer_applyRemoveServiceEndpoints = some ExpectedSkeletons.skel_composer_applyRemoveServiceEndpoints ∧
    Generated.skel_composer_applyAddAlsoKnownAs = some ExpectedSkeletons.skel_composer_applyAddAlsoKnownAs ∧
    Generated.skel_composer_applyRemoveAlsoKnownAs = some ExpectedSkeletons.skel_composer_applyRemoveAlsoKnownAs ∧
    Generated.skel_composer_pointerTokenDecoder = some ExpectedSkeletons.skel_composer_pointerTokenDecoder :=
  ⟨rfl, rfl, rfl, rfl, rfl, rfl, rfl, rfl, rfl, rfl, rfl, rfl, rfl, rfl, rfl, rfl⟩
end Sidetree.Obligations
