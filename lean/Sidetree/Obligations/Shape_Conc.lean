import Sidetree.ExpectedSkeletons
import Sidetree.Generated.Conc
namespace Sidetree.Obligations
/-- the Go functions mirrored by the Conc model have the reviewed control structure and literals -/
theorem Shape_Conc :
    Generated.lit_conc_lock_Provider = some ExpectedSkeletons.lit_conc_lock_Provider ∧
    Generated.lit_conc_lock_Registry = some ExpectedSkeletons.lit_conc_lock_Registry ∧
    Generated.lit_conc_state_versions_1_0_operationparser = some ExpectedSkeletons.lit_conc_state_versions_1_0_operationparser ∧
    Generated.lit_conc_state_versions_1_0_operationparser_patchvalidator = some ExpectedSkeletons.lit_conc_state_versions_1_0_operationparser_patchvalidator ∧
    Generated.lit_conc_state_versions_1_0_operationapplier = some ExpectedSkeletons.lit_conc_state_versions_1_0_operationapplier ∧
    Generated.lit_conc_state_versions_1_0_doccomposer = some ExpectedSkeletons.lit_conc_state_versions_1_0_doccomposer ∧
    Generated.lit_conc_state_versions_1_0_doctransformer_didtransformer = some ExpectedSkeletons.lit_conc_state_versions_1_0_doctransformer_didtransformer ∧
    Generated.lit_conc_state_versions_1_0_doctransformer_doctransformer = some ExpectedSkeletons.lit_conc_state_versions_1_0_doctransformer_doctransformer ∧
    Generated.lit_conc_state_versions_1_0_doctransformer_metadata = some ExpectedSkeletons.lit_conc_state_versions_1_0_doctransformer_metadata ∧
    Generated.lit_conc_state_vdr_sidetreelongform_dochandler = some ExpectedSkeletons.lit_conc_state_vdr_sidetreelongform_dochandler ∧
    Generated.lit_conc_state_vdr_sidetreelongform = some ExpectedSkeletons.lit_conc_state_vdr_sidetreelongform ∧
    Generated.lit_conc_state_vdr_sidetreelongform_dochandler_protocol_verprovider = some ExpectedSkeletons.lit_conc_state_vdr_sidetreelongform_dochandler_protocol_verprovider ∧
    Generated.lit_conc_state_vdr_sidetreelongform_dochandler_protocol_nsprovider = some ExpectedSkeletons.lit_conc_state_vdr_sidetreelongform_dochandler_protocol_nsprovider ∧
    Generated.lit_conc_state_vdr_sidetreelongform_dochandler_protocolversion_clientregistry = some ExpectedSkeletons.lit_conc_state_vdr_sidetreelongform_dochandler_protocolversion_clientregistry ∧
    Generated.lit_conc_state_jwsutil = some ExpectedSkeletons.lit_conc_state_jwsutil ∧
    Generated.lit_conc_state_hashing = some ExpectedSkeletons.lit_conc_state_hashing ∧
    Generated.lit_conc_state_canonicalizer = some ExpectedSkeletons.lit_conc_state_canonicalizer ∧
    Generated.lit_conc_state_internal_jsoncanonicalizer = some ExpectedSkeletons.lit_conc_state_internal_jsoncanonicalizer ∧
    Generated.lit_conc_state_docutil = some ExpectedSkeletons.lit_conc_state_docutil ∧
    Generated.lit_conc_state_patch = some ExpectedSkeletons.lit_conc_state_patch ∧
    Generated.lit_conc_state_document = some ExpectedSkeletons.lit_conc_state_document ∧
    Generated.lit_conc_state_commitment = some ExpectedSkeletons.lit_conc_state_commitment :=
  ⟨rfl, rfl, rfl, rfl, rfl, rfl, rfl, rfl, rfl, rfl, rfl, rfl, rfl, rfl, rfl, rfl, rfl, rfl, rfl, rfl, rfl, rfl⟩
end Sidetree.Obligations
