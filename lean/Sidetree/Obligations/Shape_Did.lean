import Sidetree.ExpectedSkeletons
import Sidetree.Generated.Did
namespace Sidetree.Obligations
/-- the Go functions mirrored by the Did model have the reviewed control structure and literals -/
theorem Shape_Did :
    Generated.skel_method_ParseDID = some ExpectedSkeletons.skel_method_ParseDID ∧
    Generated.skel_method_parseInitialState = some ExpectedSkeletons.skel_method_parseInitialState ∧
    Generated.skel_dochandler_ResolveDocument = some ExpectedSkeletons.skel_dochandler_ResolveDocument ∧
    Generated.skel_dochandler_getNamespace = some ExpectedSkeletons.skel_dochandler_getNamespace ∧
    Generated.skel_dochandler_resolveRequestWithInitialState = some ExpectedSkeletons.skel_dochandler_resolveRequestWithInitialState ∧
    Generated.skel_dochandler_getSuffix = some ExpectedSkeletons.skel_dochandler_getSuffix ∧
    Generated.skel_dochandler_ProcessOperation = some ExpectedSkeletons.skel_dochandler_ProcessOperation ∧
    Generated.skel_dochandler_getCreateResponse = some ExpectedSkeletons.skel_dochandler_getCreateResponse ∧
    Generated.skel_dochandler_createProtocolClient = some ExpectedSkeletons.skel_dochandler_createProtocolClient ∧
    Generated.skel_docutil_GetTransformationInfoForUnpublished = some ExpectedSkeletons.skel_docutil_GetTransformationInfoForUnpublished ∧
    Generated.skel_docutil_GetCreateResult = some ExpectedSkeletons.skel_docutil_GetCreateResult ∧
    Generated.skel_client_Create = some ExpectedSkeletons.skel_client_Create ∧
    Generated.skel_vdr_Create = some ExpectedSkeletons.skel_vdr_Create ∧
    Generated.skel_vdr_Read = some ExpectedSkeletons.skel_vdr_Read ∧
    Generated.skel_vdr_getSidetreePublicKeys = some ExpectedSkeletons.skel_vdr_getSidetreePublicKeys ∧
    Generated.skel_vdr_sendRequest = some ExpectedSkeletons.skel_vdr_sendRequest :=
  ⟨rfl, rfl, rfl, rfl, rfl, rfl, rfl, rfl, rfl, rfl, rfl, rfl, rfl, rfl, rfl, rfl⟩
end Sidetree.Obligations
