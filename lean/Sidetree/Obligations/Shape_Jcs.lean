import Sidetree.ExpectedSkeletons
import Sidetree.Generated.Jcs
namespace Sidetree.Obligations
/-- the Go functions mirrored by the Jcs model have the reviewed control structure and literals -/
theorem Shape_Jcs :
    Generated.skel_jcs_Transform = some ExpectedSkeletons.skel_jcs_Transform ∧
    Generated.skel_jcs_NumberToJSON = some ExpectedSkeletons.skel_jcs_NumberToJSON ∧
    Generated.skel_jcs_MarshalCanonical = some ExpectedSkeletons.skel_jcs_MarshalCanonical ∧
    Generated.skel_hashing_ComputeMultihash = some ExpectedSkeletons.skel_hashing_ComputeMultihash ∧
    Generated.skel_hashing_GetMultihash = some ExpectedSkeletons.skel_hashing_GetMultihash ∧
    Generated.skel_hashing_GetMultihashCode = some ExpectedSkeletons.skel_hashing_GetMultihashCode ∧
    Generated.skel_hashing_IsSupportedMultihash = some ExpectedSkeletons.skel_hashing_IsSupportedMultihash ∧
    Generated.skel_hashing_IsComputedUsingMultihashAlgorithms = some ExpectedSkeletons.skel_hashing_IsComputedUsingMultihashAlgorithms ∧
    Generated.skel_hashing_CalculateModelMultihash = some ExpectedSkeletons.skel_hashing_CalculateModelMultihash ∧
    Generated.skel_hashing_IsValidModelMultihash = some ExpectedSkeletons.skel_hashing_IsValidModelMultihash ∧
    Generated.skel_hashing_GetHashFromMultihash = some ExpectedSkeletons.skel_hashing_GetHashFromMultihash ∧
    Generated.skel_hashing_GetHash = some ExpectedSkeletons.skel_hashing_GetHash ∧
    Generated.skel_commitment_GetRevealValue = some ExpectedSkeletons.skel_commitment_GetRevealValue ∧
    Generated.skel_commitment_GetCommitment = some ExpectedSkeletons.skel_commitment_GetCommitment ∧
    Generated.skel_commitment_GetCommitmentFromRevealValue = some ExpectedSkeletons.skel_commitment_GetCommitmentFromRevealValue :=
  ⟨rfl, rfl, rfl, rfl, rfl, rfl, rfl, rfl, rfl, rfl, rfl, rfl, rfl, rfl, rfl⟩
end Sidetree.Obligations
