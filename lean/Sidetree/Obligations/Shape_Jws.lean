import Sidetree.ExpectedSkeletons
import Sidetree.Generated.Jws
namespace Sidetree.Obligations
/-- the Go functions mirrored by the Jws model have the reviewed control structure and literals -/
theorem Shape_Jws :
    Generated.skel_ParseJWS = some ExpectedSkeletons.skel_ParseJWS ∧
    Generated.skel_VerifyJWS = some ExpectedSkeletons.skel_VerifyJWS ∧
    Generated.skel_parseCompacted = some ExpectedSkeletons.skel_parseCompacted ∧
    Generated.skel_parseCompactedPayload = some ExpectedSkeletons.skel_parseCompactedPayload ∧
    Generated.skel_parseCompactedHeaders = some ExpectedSkeletons.skel_parseCompactedHeaders ∧
    Generated.skel_signingInput = some ExpectedSkeletons.skel_signingInput ∧
    Generated.skel_checkJWSHeaders = some ExpectedSkeletons.skel_checkJWSHeaders ∧
    Generated.skel_VerifySignature = some ExpectedSkeletons.skel_VerifySignature ∧
    Generated.skel_verifyECSignature = some ExpectedSkeletons.skel_verifyECSignature ∧
    Generated.skel_verifyEd25519Signature = some ExpectedSkeletons.skel_verifyEd25519Signature ∧
    Generated.skel_GetED25519PublicKey = some ExpectedSkeletons.skel_GetED25519PublicKey ∧
    Generated.skel_parseEllipticCurve = some ExpectedSkeletons.skel_parseEllipticCurve :=
  ⟨rfl, rfl, rfl, rfl, rfl, rfl, rfl, rfl, rfl, rfl, rfl, rfl⟩
end Sidetree.Obligations
