import Sidetree.ExpectedSkeletons
import Sidetree.Generated.Keys
namespace Sidetree.Obligations
/-- the Go functions mirrored by the Keys model have the reviewed control structure and literals -/
theorem Shape_Keys :
    Generated.skel_signer_Sign = some ExpectedSkeletons.skel_signer_Sign ∧
    Generated.skel_signer_getHasher = some ExpectedSkeletons.skel_signer_getHasher ∧
    Generated.skel_signer_copyPadded = some ExpectedSkeletons.skel_signer_copyPadded ∧
    Generated.skel_signer_Headers = some ExpectedSkeletons.skel_signer_Headers ∧
    Generated.skel_signature_SignPayload = some ExpectedSkeletons.skel_signature_SignPayload ∧
    Generated.skel_signature_SignModel = some ExpectedSkeletons.skel_signature_SignModel ∧
    Generated.skel_jwk_GetPublicKeyJWK = some ExpectedSkeletons.skel_jwk_GetPublicKeyJWK ∧
    Generated.skel_jwk_UnmarshalJSON = some ExpectedSkeletons.skel_jwk_UnmarshalJSON ∧
    Generated.skel_jwk_MarshalJSON = some ExpectedSkeletons.skel_jwk_MarshalJSON ∧
    Generated.skel_jwk_unmarshalSecp256k1 = some ExpectedSkeletons.skel_jwk_unmarshalSecp256k1 ∧
    Generated.skel_jwk_marshalSecp256k1 = some ExpectedSkeletons.skel_jwk_marshalSecp256k1 ∧
    Generated.skel_jwk_newFixedSizeBuffer = some ExpectedSkeletons.skel_jwk_newFixedSizeBuffer ∧
    Generated.skel_jwk_curveSize = some ExpectedSkeletons.skel_jwk_curveSize ∧
    Generated.skel_jwk_isSecp256k1 = some ExpectedSkeletons.skel_jwk_isSecp256k1 ∧
    Generated.skel_jws_NewJWS = some ExpectedSkeletons.skel_jws_NewJWS ∧
    Generated.skel_jws_SerializeCompact = some ExpectedSkeletons.skel_jws_SerializeCompact ∧
    Generated.skel_jws_sign = some ExpectedSkeletons.skel_jws_sign ∧
    Generated.skel_jws_mergeHeaders = some ExpectedSkeletons.skel_jws_mergeHeaders ∧
    Generated.skel_jwk_Validate = some ExpectedSkeletons.skel_jwk_Validate :=
  ⟨rfl, rfl, rfl, rfl, rfl, rfl, rfl, rfl, rfl, rfl, rfl, rfl, rfl, rfl, rfl, rfl, rfl, rfl, rfl⟩
end Sidetree.Obligations
