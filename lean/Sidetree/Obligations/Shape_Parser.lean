import Sidetree.ExpectedSkeletons
import Sidetree.Generated.Parser
namespace Sidetree.Obligations
/-- the Go functions mirrored by the Parser model have the reviewed control structure and literals -/
theorem Shape_Parser :
    Generated.skel_Parse = some ExpectedSkeletons.skel_Parse ∧
    Generated.skel_ParseOperation = some ExpectedSkeletons.skel_ParseOperation ∧
    Generated.skel_ParseCreateOperation = some ExpectedSkeletons.skel_ParseCreateOperation ∧
    Generated.skel_ValidateDelta = some ExpectedSkeletons.skel_ValidateDelta ∧
    Generated.skel_validateMultihash = some ExpectedSkeletons.skel_validateMultihash ∧
    Generated.skel_validateDeltaSize = some ExpectedSkeletons.skel_validateDeltaSize ∧
    Generated.skel_ValidateSuffixData = some ExpectedSkeletons.skel_ValidateSuffixData ∧
    Generated.skel_ParseUpdateOperation = some ExpectedSkeletons.skel_ParseUpdateOperation ∧
    Generated.skel_ParseSignedDataForUpdate = some ExpectedSkeletons.skel_ParseSignedDataForUpdate ∧
    Generated.skel_validateUpdateRequest = some ExpectedSkeletons.skel_validateUpdateRequest ∧
    Generated.skel_validateSignedDataForUpdate = some ExpectedSkeletons.skel_validateSignedDataForUpdate ∧
    Generated.skel_ParseRecoverOperation = some ExpectedSkeletons.skel_ParseRecoverOperation ∧
    Generated.skel_ParseSignedDataForRecover = some ExpectedSkeletons.skel_ParseSignedDataForRecover ∧
    Generated.skel_validateSignedDataForRecovery = some ExpectedSkeletons.skel_validateSignedDataForRecovery ∧
    Generated.skel_parseSignedData = some ExpectedSkeletons.skel_parseSignedData ∧
    Generated.skel_validateProtectedHeaders = some ExpectedSkeletons.skel_validateProtectedHeaders ∧
    Generated.skel_validateSigningKey = some ExpectedSkeletons.skel_validateSigningKey ∧
    Generated.skel_validateCommitment = some ExpectedSkeletons.skel_validateCommitment ∧
    Generated.skel_validateNonce = some ExpectedSkeletons.skel_validateNonce ∧
    Generated.skel_validateRecoverRequest = some ExpectedSkeletons.skel_validateRecoverRequest ∧
    Generated.skel_ParseDeactivateOperation = some ExpectedSkeletons.skel_ParseDeactivateOperation ∧
    Generated.skel_ParseSignedDataForDeactivate = some ExpectedSkeletons.skel_ParseSignedDataForDeactivate ∧
    Generated.skel_validateDeactivateRequest = some ExpectedSkeletons.skel_validateDeactivateRequest ∧
    Generated.skel_GetRevealValue = some ExpectedSkeletons.skel_GetRevealValue ∧
    Generated.skel_GetCommitment = some ExpectedSkeletons.skel_GetCommitment ∧
    Generated.skel_GetAnchoredOperation = some ExpectedSkeletons.skel_GetAnchoredOperation ∧
    Generated.lit_Parse = some ExpectedSkeletons.lit_Parse ∧
    Generated.lit_ParseCreateOperation = some ExpectedSkeletons.lit_ParseCreateOperation ∧
    Generated.lit_ParseUpdateOperation = some ExpectedSkeletons.lit_ParseUpdateOperation ∧
    Generated.lit_ParseRecoverOperation = some ExpectedSkeletons.lit_ParseRecoverOperation ∧
    Generated.lit_ParseDeactivateOperation = some ExpectedSkeletons.lit_ParseDeactivateOperation :=
  ⟨rfl, rfl, rfl, rfl, rfl, rfl, rfl, rfl, rfl, rfl, rfl, rfl, rfl, rfl, rfl, rfl, rfl, rfl, rfl, rfl, rfl, rfl, rfl, rfl, rfl, rfl, rfl, rfl, rfl, rfl, rfl⟩
end Sidetree.Obligations
