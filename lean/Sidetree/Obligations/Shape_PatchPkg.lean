import Sidetree.ExpectedSkeletons
import Sidetree.Generated.PatchPkg
namespace Sidetree.Obligations
/-- the Go functions mirrored by the PatchPkg model have the reviewed control structure and literals -/
theorem Shape_PatchPkg :
    Generated.skel_patch_PatchesFromDocument = some ExpectedSkeletons.skel_patch_PatchesFromDocument ∧
    Generated.skel_patch_NewReplacePatch = some ExpectedSkeletons.skel_patch_NewReplacePatch ∧
    Generated.skel_patch_NewJSONPatch = some ExpectedSkeletons.skel_patch_NewJSONPatch ∧
    Generated.skel_patch_NewAddPublicKeysPatch = some ExpectedSkeletons.skel_patch_NewAddPublicKeysPatch ∧
    Generated.skel_patch_NewRemovePublicKeysPatch = some ExpectedSkeletons.skel_patch_NewRemovePublicKeysPatch ∧
    Generated.skel_patch_NewAddServiceEndpointsPatch = some ExpectedSkeletons.skel_patch_NewAddServiceEndpointsPatch ∧
    Generated.skel_patch_NewRemoveServiceEndpointsPatch = some ExpectedSkeletons.skel_patch_NewRemoveServiceEndpointsPatch ∧
    Generated.skel_patch_NewAddAlsoKnownAs = some ExpectedSkeletons.skel_patch_NewAddAlsoKnownAs ∧
    Generated.skel_patch_NewRemoveAlsoKnownAs = some ExpectedSkeletons.skel_patch_NewRemoveAlsoKnownAs ∧
    Generated.skel_patch_GetValue = some ExpectedSkeletons.skel_patch_GetValue ∧
    Generated.skel_patch_GetAction = some ExpectedSkeletons.skel_patch_GetAction ∧
    Generated.skel_patch_Bytes = some ExpectedSkeletons.skel_patch_Bytes ∧
    Generated.skel_patch_JSONLdObject = some ExpectedSkeletons.skel_patch_JSONLdObject ∧
    Generated.skel_patch_FromBytes = some ExpectedSkeletons.skel_patch_FromBytes ∧
    Generated.skel_patch_stringEntry = some ExpectedSkeletons.skel_patch_stringEntry ∧
    Generated.skel_patch_validateReplaceDocument = some ExpectedSkeletons.skel_patch_validateReplaceDocument ∧
    Generated.skel_patch_contains = some ExpectedSkeletons.skel_patch_contains ∧
    Generated.skel_patch_validateDocument = some ExpectedSkeletons.skel_patch_validateDocument ∧
    Generated.skel_patch_getPublicKeys = some ExpectedSkeletons.skel_patch_getPublicKeys ∧
    Generated.skel_patch_getServices = some ExpectedSkeletons.skel_patch_getServices ∧
    Generated.skel_patch_getStringArray = some ExpectedSkeletons.skel_patch_getStringArray ∧
    Generated.skel_patch_getGenericArray = some ExpectedSkeletons.skel_patch_getGenericArray ∧
    Generated.skel_patch_sortedKeys = some ExpectedSkeletons.skel_patch_sortedKeys :=
  ⟨rfl, rfl, rfl, rfl, rfl, rfl, rfl, rfl, rfl, rfl, rfl, rfl, rfl, rfl, rfl, rfl, rfl, rfl, rfl, rfl, rfl, rfl, rfl⟩
end Sidetree.Obligations
