import Sidetree.ExpectedSkeletons
import Sidetree.Generated.Transformer
namespace Sidetree.Obligations
/-- the Go functions mirrored by the Transformer model have the reviewed control structure and literals -/
theorem Shape_Transformer :
    Generated.skel_TransformDocument = some ExpectedSkeletons.skel_TransformDocument ∧
    Generated.skel_processKeys = some ExpectedSkeletons.skel_processKeys ∧
    Generated.skel_processServices = some ExpectedSkeletons.skel_processServices ∧
    Generated.skel_getObjectID = some ExpectedSkeletons.skel_getObjectID ∧
    Generated.skel_getBase = some ExpectedSkeletons.skel_getBase ∧
    Generated.skel_getED2519PublicKey = some ExpectedSkeletons.skel_getED2519PublicKey ∧
    Generated.skel_New = some ExpectedSkeletons.skel_New ∧
    Generated.skel_CreateDocumentMetadata = some ExpectedSkeletons.skel_CreateDocumentMetadata ∧
    Generated.skel_getPublishedOperations = some ExpectedSkeletons.skel_getPublishedOperations ∧
    Generated.skel_getUnpublishedOperations = some ExpectedSkeletons.skel_getUnpublishedOperations ∧
    Generated.skel_sortOperations = some ExpectedSkeletons.skel_sortOperations ∧
    Generated.skel_generic_TransformDocument = some ExpectedSkeletons.skel_generic_TransformDocument ∧
    Generated.lit_tags_ResolutionResult = some ExpectedSkeletons.lit_tags_ResolutionResult :=
  ⟨rfl, rfl, rfl, rfl, rfl, rfl, rfl, rfl, rfl, rfl, rfl, rfl, rfl⟩
end Sidetree.Obligations
