/-
  pkg/versions/1_0/operationparser/*.go and pkg/versions/1_0/model/*.go.

  Requests are decoded from `Json` the way `encoding/json` decodes them into the request structs
  (unknown members dropped, `null` leaves the zero value, a value of the wrong JSON type is a
  decode error). Everything outside the decoded fields is forgotten, which matters: hashes are
  computed over the *re-marshalled* struct.

  Member names: `encoding/json` matches a member to a struct field by exact name or, failing that,
  by the name's case fold. The decoders below look members up by exact name; the folding is the
  separate function `GoJson.view`, which spells every member that folds to a field of the struct at
  that position the way the field is spelled. Request values enter the model through it (`requestShape`
  at the top — applied where the bytes are read — and `signedShape` inside `payloadJson`). Two
  members of one object that fold to the same field are outside the model (Go merges them field by
  field).
-/
import Sidetree.Hashing
import Sidetree.Jwk
import Sidetree.Validator
import Sidetree.Protocol

namespace Sidetree

/-! ### Go struct decoding -/

namespace GoJson

/-- string field: absent / null → "", string → itself, anything else → decode error -/
def str (j : Json) (k : String) : Option String :=
  match j.get? k with
  | none => some ""
  | some .null => some ""
  | some (.str s) => some s
  | some _ => none

/-- int64 field: integer syntax and range -/
def int64 (j : Json) (k : String) : Option Int :=
  match j.get? k with
  | none => some 0
  | some .null => some 0
  | some (.num n) =>
    match n.toInt? with
    | some i => if -9223372036854775808 ≤ i ∧ i ≤ 9223372036854775807 then some i else none
    | none => none
  | some _ => none

/-- pointer-to-struct field: `none` = decode error, `some none` = nil pointer -/
def ptr (j : Json) (k : String) (dec : Json → Option α) : Option (Option α) :=
  match j.get? k with
  | none => some none
  | some .null => some none
  | some (.obj kvs) => (dec (.obj kvs)).map some
  | some _ => none

/-- `interface{}` field: nil for absent / null -/
def iface (j : Json) (k : String) : Option Json :=
  match j.get? k with
  | some .null => none
  | r => r

/-- top level: a struct target accepts an object (or `null`, which leaves it untouched) -/
def topObject (j : Json) : Option Json :=
  match j with
  | .obj _ => some j
  | .null => some (.obj [])
  | _ => none

/-! #### member names up to case (`encoding/json`'s `foldName`) -/

/-- `foldRune`: the smallest rune of the simple-fold orbit. For the orbits that contain an ASCII
    letter that is the upper-case letter (`ſ` U+017F folds with `S`, the Kelvin sign U+212A with
    `K`); a rune outside those orbits never folds to ASCII, and all field names are ASCII, so it
    can stay as it is. -/
def foldChar (c : Char) : Char :=
  if 97 ≤ c.toNat ∧ c.toNat ≤ 122 then Char.ofNat (c.toNat - 32)
  else if c.toNat = 0x17F then 'S'
  else if c.toNat = 0x212A then 'K'
  else c

def foldName (s : String) : List Char := s.toList.map foldChar

def sameFold (a b : String) : Bool := foldName a == foldName b

/-- which members of a value are struct fields, and what their values are decoded into -/
inductive Shape where
  | leaf
  | struct (fields : List (String × Shape))

/-- the field a member named `k` is decoded into -/
def fieldFor (fs : List (String × Shape)) (k : String) : Option (String × Shape) :=
  fs.find? fun f => sameFold k f.1

mutual
/-- every member that folds to a field of the struct at its position, spelled as the field -/
def view : Shape → Json → Json
  | .struct fs, .obj kvs => .obj (viewMembers fs kvs)
  | _, j => j
def viewMembers (fs : List (String × Shape)) : List (String × Json) → List (String × Json)
  | [] => []
  | (k, v) :: rest =>
    (match fieldFor fs k with
     | some (f, sh) => (f, view sh v)
     | none => (k, v)) :: viewMembers fs rest
end

mutual
/-- no object at a struct position has two members decoded into the same field -/
def dupFree : Shape → Json → Bool
  | .struct fs, .obj kvs => dupFreeMembers fs kvs && fieldsOnce fs kvs
  | _, _ => true
def dupFreeMembers (fs : List (String × Shape)) : List (String × Json) → Bool
  | [] => true
  | (k, v) :: rest =>
    (match fieldFor fs k with
     | some (_, sh) => dupFree sh v
     | none => true) && dupFreeMembers fs rest
def fieldsOnce (fs : List (String × Shape)) : List (String × Json) → Bool
  | [] => true
  | (k, _) :: rest =>
    (match fieldFor fs k with
     | some (f, _) => !(rest.any fun p => (fieldFor fs p.1).map (·.1) == some f)
     | none => true) && fieldsOnce fs rest
end

end GoJson

/-! ### request models (pkg/versions/1_0/model/request.go) -/

structure Delta where
  updateCommitment : String
  /-- `nil` slice vs decoded list (elements are patch objects; `null` elements are nil maps) -/
  patches : Option (List Json)
deriving Inhabited

structure SuffixData where
  deltaHash : String
  recoveryCommitment : String
  anchorOrigin : Option Json
  type : String
deriving Inhabited

namespace Delta
def ofJson? (j : Json) : Option Delta := do
  let uc ← GoJson.str j "updateCommitment"
  let patches ← match j.get? "patches" with
    | none => some none
    | some .null => some none
    | some (.arr xs) => if xs.all Patch.isObjOrNullB then some (some xs) else none
    | some _ => none
  pure { updateCommitment := uc, patches := patches }

/-- `json.Marshal(delta)` as a value (`omitempty` on both members) -/
def toJson (d : Delta) : Json :=
  .obj ((if d.updateCommitment = "" then [] else [("updateCommitment", .str d.updateCommitment)]) ++
    (match d.patches with
     | some (p :: ps) => [("patches", .arr (p :: ps))]
     | _ => []))
end Delta

/-- `json.Marshal(ptr)` of a possibly nil pointer -/
def deltaJson : Option Delta → Json
  | some d => d.toJson
  | none => .null

namespace SuffixData
def ofJson? (j : Json) : Option SuffixData := do
  let dh ← GoJson.str j "deltaHash"
  let rc ← GoJson.str j "recoveryCommitment"
  let ty ← GoJson.str j "type"
  pure { deltaHash := dh, recoveryCommitment := rc, anchorOrigin := GoJson.iface j "anchorOrigin", type := ty }

def toJson (s : SuffixData) : Json :=
  .obj ((if s.deltaHash = "" then [] else [("deltaHash", .str s.deltaHash)]) ++
    (if s.recoveryCommitment = "" then [] else [("recoveryCommitment", .str s.recoveryCommitment)]) ++
    (match s.anchorOrigin with | some a => [("anchorOrigin", a)] | none => []) ++
    (if s.type = "" then [] else [("type", .str s.type)]))
end SuffixData

inductive OpType | create | update | recover | deactivate
deriving DecidableEq, Repr, Inhabited

def OpType.toString : OpType → String
  | .create => "create" | .update => "update" | .recover => "recover" | .deactivate => "deactivate"

def OpType.ofString? : String → Option OpType
  | "create" => some .create | "update" => some .update | "recover" => some .recover
  | "deactivate" => some .deactivate | _ => none

/-- `model.Operation` (the parser's internal result) -/
structure ParsedOp where
  type : OpType
  uniqueSuffix : String
  delta : Option Delta := none
  suffixData : Option SuffixData := none
  signedData : String := ""
  revealValue : String := ""
  anchorOrigin : Option Json := none
deriving Inhabited

/-- signed data models -/
structure SignedData where
  key : Option Jwk            -- updateKey / recoveryKey
  deltaHash : String := ""
  recoveryCommitment : String := ""
  anchorOrigin : Option Json := none
  didSuffix : String := ""
  anchorFrom : Int := 0
  anchorUntil : Int := 0
deriving Inhabited

/-! ### oracles -/

/-- everything the parser/applier take from outside the modelled code -/
structure Oracles where
  /-- `jwsutil.VerifySignature(jwk, signature, message) == nil`; `none` when the case supplies
      no verdict for this triple (the case is then outside the modelled domain) -/
  verify : Jwk → Bytes → Bytes → Option Bool
  /-- the pluggable anchor-origin validator accepts -/
  anchorOriginOK : Option Json → Bool
  /-- the pluggable anchor-time validator accepts -/
  anchorTimeOK : Int → Int → Bool
  uri : UriOracle

/-- what the pluggable validators were handed, in call order -/
structure Trace where
  origin : List Json := []
  time : List (Int × Int) := []

/-! ### JWS framing (pkg/jwsutil/jws.go) -/

namespace Jws

structure Parsed where
  headers : List (String × Json)
  payload : Bytes
  signature : Bytes

def splitDot (cs : List Char) : List (List Char) :=
  let rec go : List Char → List Char → List (List Char)
    | [], cur => [cur.reverse]
    | c :: rest, cur => if c = '.' then cur.reverse :: go rest [] else go rest (c :: cur)
  go cs []

/-- `ParseJWS` (compact serialization only) -/
def parse (s : String) : Option Parsed :=
  if "{".toList.isPrefixOf s.toList then none
  else match splitDot s.toList with
    | [h, p, sg] =>
      match b64Decode h with
      | none => none
      | some hb =>
        match (stringOfBytes? hb).bind (fun t => Parse.parse t.toList) with
        | some (.obj hdrs) =>
          if (Json.lookup "alg" hdrs).isNone then none
          else match b64Decode p, b64Decode sg with
            | some pb, some sb => if pb.isEmpty ∨ sb.isEmpty then none else some { headers := hdrs, payload := pb, signature := sb }
            | _, _ => none
        | _ => none
    | _ => none

/-- Go's `json.Marshal` of a string (go-jose's fork: HTML-safe, `\n \r \t` short, other
    controls as `\u00xx`) -/
def goQuote (s : String) : List Char :=
  '"' :: (s.toList.flatMap fun c =>
    if c = '"' then ['\\', '"'] else if c = '\\' then ['\\', '\\']
    else if c = '\n' then ['\\', 'n'] else if c = '\r' then ['\\', 'r'] else if c = '\t' then ['\\', 't']
    else if c.toNat < 0x20 ∨ c = '<' ∨ c = '>' ∨ c = '&' ∨ c.toNat = 0x2028 ∨ c.toNat = 0x2029 then
      '\\' :: 'u' :: hex4 c.toNat
    else [c]) ++ ['"']

/-- `json.Marshal(headers)` for header maps whose values are strings, booleans or null; `none`
    for other value types (outside the modelled domain) -/
def marshalHeaders (hdrs : List (String × Json)) : Option (List Char) :=
  let sorted := hdrs.mergeSort (fun a b => a.1 ≤ b.1)
  let items : Option (List (List Char)) := mapM? (fun (kv : String × Json) =>
    match kv.2 with
    | .str s => some (goQuote kv.1 ++ ':' :: goQuote s)
    | .bool true => some (goQuote kv.1 ++ ":true".toList)
    | .bool false => some (goQuote kv.1 ++ ":false".toList)
    | .null => some (goQuote kv.1 ++ ":null".toList)
    | _ => none) sorted
  items.map fun is => '{' :: (List.intercalate [','] is) ++ ['}']

/-- `signingInput` -/
def signingInput (p : Parsed) : Option Bytes :=
  match Json.lookup "b64" p.headers with
  | some (.bool false) => none      -- unencoded payload: not used by Sidetree, outside the model
  | some (.bool true) | none =>
    (marshalHeaders p.headers).map fun hb =>
      bytesOfString (String.ofList (b64Encode (bytesOfString (String.ofList hb)) ++ '.' :: b64Encode p.payload))
  | some _ => none

inductive VerifyResult | ok | bad | outOfDomain
deriving DecidableEq, Repr

/-- `VerifyJWS(jws, jwk)`: parse, rebuild the signing input, verify -/
def verify (orc : Oracles) (s : String) (k : Jwk) : VerifyResult :=
  match parse s with
  | none => .bad
  | some p =>
    match signingInput p with
    | none => .outOfDomain
    | some inp =>
      match orc.verify k p.signature inp with
      | some true => .ok
      | some false => .bad
      | none => .outOfDomain

end Jws

/-! ### the parser -/

namespace Parser

/-- `validateMultihash` -/
def multihashOK (cfg : Protocol) (mh : String) : Bool :=
  !(utf8Len mh > cfg.maxOperationHashLength) && Hashing.isComputedUsing mh cfg.multihashAlgorithms

/-- `validateDeltaSize` -/
def deltaSizeOK (cfg : Protocol) (d : Delta) : Bool :=
  match transformValue d.toJson with
  | some canon => !(utf8Len (String.ofList canon) > cfg.maxDeltaSize)
  | none => false

/-- `ValidateDelta` -/
def validateDelta (cfg : Protocol) (orc : Oracles) : Option Delta → Bool
  | none => false
  | some d =>
    match d.patches with
    | none => false
    | some [] => false
    | some ps =>
      ps.all (fun p =>
        match Patch.getAction p with
        | none => false
        | some a => cfg.patches.contains a && Validator.validate orc.uri p == .ok) &&
      multihashOK cfg d.updateCommitment && deltaSizeOK cfg d

instance : BEq Validator.Verdict := ⟨fun a b => decide (a = b)⟩

/-- `ValidateSuffixData` -/
def validateSuffixData (cfg : Protocol) : Option SuffixData → Bool
  | none => false
  | some sd => multihashOK cfg sd.recoveryCommitment && multihashOK cfg sd.deltaHash

/-- `validateNonce` -/
def nonceOK (cfg : Protocol) (nonce : String) : Bool :=
  nonce = "" || match b64DecodeStrictStr nonce with
    | some bs => bs.length == cfg.nonceSize
    | none => false

/-- `validateSigningKey` -/
def signingKeyOK (cfg : Protocol) : Option Jwk → Bool
  | none => false
  | some k => k.valid && cfg.keyAlgorithms.contains k.crv && nonceOK cfg k.nonce

/-- `validateCommitment`: the next commitment must not be the commitment of the current key -/
def commitmentFresh (H : HashFam) (k : Jwk) (next : String) : Bool :=
  match Hashing.getMultihashCode next with
  | none => false
  | some code =>
    match Hashing.commitment H k.toJson code with
    | none => false
    | some cur => cur != next

/-- `validateProtectedHeaders` -/
def headersOK (cfg : Protocol) (hdrs : List (String × Json)) : Bool :=
  match Json.lookup "alg" hdrs with
  | some (.str alg) =>
    alg ≠ "" && hdrs.all (fun kv => kv.1 = "alg" || kv.1 = "kid") && cfg.signatureAlgorithms.contains alg
  | _ => false

/-- `parseSignedData` -/
def parseSignedData (cfg : Protocol) (compact : String) : Option Jws.Parsed :=
  if compact = "" then none
  else match Jws.parse compact with
    | none => none
    | some p => if headersOK cfg p.headers then some p else none

/-- `jws.JWK` -/
def jwkFields : List (String × GoJson.Shape) :=
  [("kty", .leaf), ("crv", .leaf), ("x", .leaf), ("y", .leaf), ("n", .leaf), ("e", .leaf), ("nonce", .leaf)]

def jwkShape : GoJson.Shape := .struct jwkFields

/-- the three signed data models (update / recover / deactivate); a decoder reads only its own fields -/
def signedFields : List (String × GoJson.Shape) :=
  [("updateKey", jwkShape), ("recoveryKey", jwkShape), ("deltaHash", .leaf), ("recoveryCommitment", .leaf),
   ("anchorOrigin", .leaf), ("didSuffix", .leaf), ("revealValue", .leaf), ("anchorFrom", .leaf), ("anchorUntil", .leaf)]

def signedShape : GoJson.Shape := .struct signedFields

/-- the four request models, `DeltaModel` and `SuffixDataModel` -/
def requestShape : GoJson.Shape :=
  .struct [("type", .leaf), ("didSuffix", .leaf), ("revealValue", .leaf), ("signedData", .leaf),
           ("suffixData", .struct [("deltaHash", .leaf), ("recoveryCommitment", .leaf), ("anchorOrigin", .leaf), ("type", .leaf)]),
           ("delta", .struct [("updateCommitment", .leaf), ("patches", .leaf)])]

/-- the signed payload as the signed data models see it -/
def payloadJson (p : Jws.Parsed) : Option Json :=
  (((stringOfBytes? p.payload).bind fun t => Parse.parse t.toList).bind GoJson.topObject).map (GoJson.view signedShape)

def decodeKey (j : Json) (k : String) : Option (Option Jwk) := GoJson.ptr j k Jwk.ofJson?

/-- `ParseSignedDataForUpdate` -/
def parseSignedDataForUpdate (cfg : Protocol) (compact : String) : Option SignedData := do
  let p ← parseSignedData cfg compact
  let j ← payloadJson p
  let key ← decodeKey j "updateKey"
  let dh ← GoJson.str j "deltaHash"
  let af ← GoJson.int64 j "anchorFrom"
  let au ← GoJson.int64 j "anchorUntil"
  if signingKeyOK cfg key && multihashOK cfg dh then
    pure { key := key, deltaHash := dh, anchorFrom := af, anchorUntil := au }
  else none

/-- `ParseSignedDataForRecover` -/
def parseSignedDataForRecover (H : HashFam) (cfg : Protocol) (compact : String) : Option SignedData := do
  let p ← parseSignedData cfg compact
  let j ← payloadJson p
  let dh ← GoJson.str j "deltaHash"
  let key ← decodeKey j "recoveryKey"
  let rc ← GoJson.str j "recoveryCommitment"
  let af ← GoJson.int64 j "anchorFrom"
  let au ← GoJson.int64 j "anchorUntil"
  let ok := signingKeyOK cfg key && multihashOK cfg rc && multihashOK cfg dh &&
    (match key with | some k => commitmentFresh H k rc | none => false)
  if ok then
    pure { key := key, deltaHash := dh, recoveryCommitment := rc, anchorOrigin := GoJson.iface j "anchorOrigin",
           anchorFrom := af, anchorUntil := au }
  else none

/-- `ParseSignedDataForDeactivate` -/
def parseSignedDataForDeactivate (cfg : Protocol) (compact : String) : Option SignedData := do
  let p ← parseSignedData cfg compact
  let j ← payloadJson p
  let ds ← GoJson.str j "didSuffix"
  let _ ← GoJson.str j "revealValue"
  let key ← decodeKey j "recoveryKey"
  let af ← GoJson.int64 j "anchorFrom"
  let au ← GoJson.int64 j "anchorUntil"
  if signingKeyOK cfg key then pure { key := key, didSuffix := ds, anchorFrom := af, anchorUntil := au } else none

/-- `getAnchorUntil` (parser side) -/
def anchorUntil (cfg : Protocol) (frm untl : Int) : Int :=
  if frm ≠ 0 ∧ untl = 0 then
    let s := frm + (((cfg.numField Expected.anchorUntilParamParser).getD 0 : Nat) : Int)
    if s > 9223372036854775807 then 9223372036854775807 else s   -- int64: the greatest time there is
  else untl

def guard' (b : Bool) : Option Unit := if b then some () else none

/-- the key's reveal value check: `IsValidModelMultihash(key, revealValue)` -/
def revealMatches (H : HashFam) (key : Option Jwk) (reveal : String) : Bool :=
  match key with
  | some k => Hashing.isValidModelMultihash H k.toJson reveal
  | none => false     -- a nil key marshals to `null`, which cannot be canonicalized

/-- decoded create request -/
structure CreateReq where
  suffixData : Option SuffixData
  delta : Option Delta

def decodeCreate (req : Json) : Option CreateReq := do
  let j ← GoJson.topObject req
  let _ ← GoJson.str j "type"
  let sd ← GoJson.ptr j "suffixData" SuffixData.ofJson?
  let delta ← GoJson.ptr j "delta" Delta.ofJson?
  pure { suffixData := sd, delta := delta }

/-- the non-batch checks of `ParseCreateOperation`, in order -/
def createChecks (H : HashFam) (cfg : Protocol) (orc : Oracles) (sd : SuffixData) (delta : Option Delta) : Bool :=
  orc.anchorOriginOK sd.anchorOrigin && validateDelta cfg orc delta &&
  Hashing.isValidModelMultihash H (deltaJson delta) sd.deltaHash &&
  (delta.getD default).updateCommitment != sd.recoveryCommitment

/-- `ParseCreateOperation` -/
def parseCreate (H : HashFam) (cfg : Protocol) (orc : Oracles) (req : Json) (batch : Bool) : Option ParsedOp := do
  let c ← decodeCreate req
  guard' (validateSuffixData cfg c.suffixData)
  let sd := c.suffixData.getD default
  guard' (batch || createChecks H cfg orc sd c.delta)
  let alg ← cfg.multihashAlgorithms.head?
  let suffix ← Hashing.calculateModelMultihash H sd.toJson alg
  pure { type := .create, uniqueSuffix := suffix, delta := c.delta, suffixData := c.suffixData, anchorOrigin := sd.anchorOrigin }

def traceCreate (cfg : Protocol) (req : Json) (batch : Bool) : Trace :=
  match decodeCreate req with
  | some c =>
    if validateSuffixData cfg c.suffixData && !batch then { origin := [((c.suffixData.getD default).anchorOrigin).getD .null] } else {}
  | none => {}

/-- fields common to update / recover / deactivate requests -/
structure ReqCommon where
  didSuffix : String
  revealValue : String
  signedData : String
  delta : Option Delta

def decodeCommon (cfg : Protocol) (req : Json) (withDelta : Bool) : Option ReqCommon := do
  let j ← GoJson.topObject req
  let _ ← GoJson.str j "type"
  let ds ← GoJson.str j "didSuffix"
  let rv ← GoJson.str j "revealValue"
  let sd ← GoJson.str j "signedData"
  let delta ← if withDelta then GoJson.ptr j "delta" Delta.ofJson? else some none
  if ds = "" ∨ sd = "" then none
  else if !multihashOK cfg rv then none
  else pure { didSuffix := ds, revealValue := rv, signedData := sd, delta := delta }

def keyFresh (H : HashFam) (key : Option Jwk) (next : String) : Bool :=
  match key with
  | some k => commitmentFresh H k next
  | none => false

/-- `ParseUpdateOperation` -/
def parseUpdate (H : HashFam) (cfg : Protocol) (orc : Oracles) (req : Json) (batch : Bool) : Option ParsedOp := do
  let c ← decodeCommon cfg req true
  let sd ← parseSignedDataForUpdate cfg c.signedData
  guard' (batch ||
    (orc.anchorTimeOK sd.anchorFrom (anchorUntil cfg sd.anchorFrom sd.anchorUntil) && validateDelta cfg orc c.delta &&
     keyFresh H sd.key (c.delta.getD default).updateCommitment))
  guard' (revealMatches H sd.key c.revealValue)
  pure { type := .update, uniqueSuffix := c.didSuffix, delta := c.delta, signedData := c.signedData,
         revealValue := c.revealValue }

def traceUpdate (cfg : Protocol) (req : Json) (batch : Bool) : Trace :=
  match (decodeCommon cfg req true).bind fun c => parseSignedDataForUpdate cfg c.signedData with
  | some sd => if batch then {} else { time := [(sd.anchorFrom, anchorUntil cfg sd.anchorFrom sd.anchorUntil)] }
  | none => {}

/-- `ParseRecoverOperation` -/
def parseRecover (H : HashFam) (cfg : Protocol) (orc : Oracles) (req : Json) (batch : Bool) : Option ParsedOp := do
  let c ← decodeCommon cfg req true
  let sd ← parseSignedDataForRecover H cfg c.signedData
  guard' (batch ||
    (orc.anchorOriginOK sd.anchorOrigin &&
     orc.anchorTimeOK sd.anchorFrom (anchorUntil cfg sd.anchorFrom sd.anchorUntil) && validateDelta cfg orc c.delta &&
     (c.delta.getD default).updateCommitment != sd.recoveryCommitment &&
     -- the signing key must not come back as the next update key either (D33)
     keyFresh H sd.key (c.delta.getD default).updateCommitment))
  guard' (revealMatches H sd.key c.revealValue)
  pure { type := .recover, uniqueSuffix := c.didSuffix, delta := c.delta, signedData := c.signedData,
         revealValue := c.revealValue, anchorOrigin := sd.anchorOrigin }

def traceRecover (H : HashFam) (cfg : Protocol) (orc : Oracles) (req : Json) (batch : Bool) : Trace :=
  match (decodeCommon cfg req true).bind fun c => parseSignedDataForRecover H cfg c.signedData with
  | some sd =>
    if batch then {}
    else if orc.anchorOriginOK sd.anchorOrigin then
      { origin := [sd.anchorOrigin.getD .null], time := [(sd.anchorFrom, anchorUntil cfg sd.anchorFrom sd.anchorUntil)] }
    else { origin := [sd.anchorOrigin.getD .null] }
  | none => {}

/-- `ParseDeactivateOperation` -/
def parseDeactivate (H : HashFam) (cfg : Protocol) (orc : Oracles) (req : Json) (batch : Bool) : Option ParsedOp := do
  let c ← decodeCommon cfg req false
  let sd ← parseSignedDataForDeactivate cfg c.signedData
  guard' (sd.didSuffix == c.didSuffix)
  guard' (revealMatches H sd.key c.revealValue)
  guard' (batch || orc.anchorTimeOK sd.anchorFrom (anchorUntil cfg sd.anchorFrom sd.anchorUntil))
  pure { type := .deactivate, uniqueSuffix := c.didSuffix, signedData := c.signedData, revealValue := c.revealValue }

def traceDeactivate (H : HashFam) (cfg : Protocol) (req : Json) (batch : Bool) : Trace :=
  match (decodeCommon cfg req false).bind fun c =>
      (parseSignedDataForDeactivate cfg c.signedData).bind fun sd =>
        if sd.didSuffix == c.didSuffix && revealMatches H sd.key c.revealValue then some sd else none with
  | some sd => if batch then {} else { time := [(sd.anchorFrom, anchorUntil cfg sd.anchorFrom sd.anchorUntil)] }
  | none => {}

/-- the request's `type` member as the type dispatch reads it -/
def requestType (req : Option Json) : Option OpType :=
  ((req.bind GoJson.topObject).bind fun top => GoJson.str top "type").bind OpType.ofString?

/-- `ParseOperation`: size gate, type dispatch -/
def parseOperation (H : HashFam) (cfg : Protocol) (orc : Oracles) (size : Nat) (req : Option Json) (batch : Bool) :
    Option ParsedOp := do
  guard' (!(size > cfg.maxOperationSize))
  let j ← req
  match ← requestType req with
  | .create => parseCreate H cfg orc j batch
  | .update => parseUpdate H cfg orc j batch
  | .deactivate => parseDeactivate H cfg orc j batch
  | .recover => parseRecover H cfg orc j batch

def traceOperation (H : HashFam) (cfg : Protocol) (orc : Oracles) (size : Nat) (req : Option Json) (batch : Bool) : Trace :=
  if size > cfg.maxOperationSize then {}
  else match req, requestType req with
    | some j, some .create => traceCreate cfg j batch
    | some j, some .update => traceUpdate cfg j batch
    | some j, some .deactivate => traceDeactivate H cfg j batch
    | some j, some .recover => traceRecover H cfg orc j batch
    | _, _ => {}

/-- the public result of `Parser.Parse(namespace, bytes)` -/
structure PublicOp where
  type : OpType
  uniqueSuffix : String
  id : String
  anchorOrigin : Option Json

def parse (H : HashFam) (cfg : Protocol) (orc : Oracles) (ns : String) (size : Nat) (req : Option Json) : Option PublicOp :=
  (parseOperation H cfg orc size req false).map fun op =>
    { type := op.type, uniqueSuffix := op.uniqueSuffix, id := ns ++ ":" ++ op.uniqueSuffix, anchorOrigin := op.anchorOrigin }

/-- batch-mode parse used by the applier and the commitment getters (no validator calls) -/
def parseBatch (H : HashFam) (cfg : Protocol) (orc : Oracles) (size : Nat) (req : Option Json) : Option ParsedOp :=
  parseOperation H cfg orc size req true

/-- `Parser.GetRevealValue` -/
def getRevealValue (H : HashFam) (cfg : Protocol) (orc : Oracles) (size : Nat) (req : Option Json) : Option String :=
  match parseBatch H cfg orc size req with
  | some op => if op.type = .create then none else some op.revealValue
  | none => none

/-- `Parser.GetCommitment` -/
def getCommitment (H : HashFam) (cfg : Protocol) (orc : Oracles) (size : Nat) (req : Option Json) : Option String :=
  match parseBatch H cfg orc size req with
  | some op =>
    (match op.type with
    | .update => op.delta.map (·.updateCommitment)
    | .deactivate => some ""
    | .recover => (parseSignedDataForRecover H cfg op.signedData).map (·.recoveryCommitment)
    | .create => none)
  | none => none

end Parser
end Sidetree
