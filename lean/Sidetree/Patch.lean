/-
  pkg/patch/patch.go: a patch is a JSON object with an `action` and that action's value member.
-/
import Sidetree.Json
import Sidetree.Expected

namespace Sidetree.Patch
open Sidetree

/-- `actionConfig[action]` -/
def valueKey? (action : String) : Option String := Expected.actionConfig.lookup action

/-- `Patch.GetAction` -/
def getAction (p : Json) : Option String :=
  match p.get? "action" with
  | some (.str a) => if (valueKey? a).isSome then some a else none
  | _ => none

/-- `Patch.GetValue` (the member must exist; `null` is a value) -/
def getValue (p : Json) : Option Json :=
  match getAction p with
  | none => none
  | some a =>
    match valueKey? a with
    | none => none
    | some k => p.get? k

/-- `patch.FromBytes` accepts a decoded object iff it has a supported action and its value member -/
def acceptable (p : Json) : Bool :=
  match p with
  | .obj _ => (getAction p).isSome && (getValue p).isSome
  | _ => false

/-! ### Go's type-lenient accessors (pkg/document) -/

/-- `stringEntry` -/
def stringEntry : Option Json → String
  | some (.str s) => s
  | _ => ""

/-- `document.StringArray`: the string entries of an array, anything else dropped -/
def stringArray : Option Json → List String
  | some (.arr xs) => xs.filterMap Json.str?
  | _ => []

def isObjB : Json → Bool
  | .obj _ => true
  | _ => false

def isObjOrNullB : Json → Bool
  | .obj _ => true
  | .null => true
  | _ => false

/-- `ParsePublicKeys` / `ParseServices`: the object entries of an array -/
def objectEntries : Option Json → List Json
  | some (.arr xs) => xs.filter isObjB
  | _ => []

/-- a Go `[]interface{}` that is nil when empty marshals as `null` -/
def listOrNull (xs : List Json) : Json := if xs.isEmpty then .null else .arr xs

end Sidetree.Patch
