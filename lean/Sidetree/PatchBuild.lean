/-
  pkg/patch/patch.go: `PatchesFromDocument` and the constructors it uses.
-/
import Sidetree.Composer
import Sidetree.Bytes

namespace Sidetree.PatchBuild
open Sidetree Sidetree.Patch

/-- insertion sort of members by name in byte (= code point) order, as `sort.Strings` does -/
def insertMember (m : String × Json) : List (String × Json) → List (String × Json)
  | [] => [m]
  | x :: xs => if m.1 < x.1 then m :: x :: xs else x :: insertMember m xs

def sortByName (kvs : List (String × Json)) : List (String × Json) := kvs.foldr insertMember []

/-- a member name that denotes itself as a one-token JSON pointer (nothing to escape) and needs
    no escaping in a JSON string either: the names the C14 round-trip theorem is stated for -/
def ordinaryName (k : String) : Bool :=
  k.toList.all fun c => c ≠ '"' ∧ c ≠ '\\' ∧ c ≠ '/' ∧ c ≠ '~' ∧ c.toNat ≥ 0x20

/-- `getStringArray`: a JSON array of strings (`null` entries read as empty strings), or `null` -/
def strOrEmpty? : Json → Option String
  | .str s => some s
  | .null => some ""
  | _ => none

def goStringArray : Json → Option (List String)
  | .null => some []
  | .arr xs => mapM? strOrEmpty? xs
  | _ => none

/-- a member name as one JSON-pointer reference token (RFC 6901 §3: `~` → `~0`, `/` → `~1`) -/
def escapeToken (k : String) : String :=
  String.ofList (k.toList.flatMap fun c => if c = '~' then ['~', '0'] else if c = '/' then ['~', '1'] else [c])

def mkPatch (action valueKey : String) (v : Json) : Json := .obj [("action", .str action), (valueKey, v)]

/-- an empty list: as `publicKey` / `service` it asks for nothing and is left out (D40) -/
def isEmptyList : Json → Bool
  | .arr [] => true
  | _ => false

/-- a non-empty list of strings as the value of `action` (`getStringArray`, then "missing …" for
    an empty one; `null` entries have become empty strings) -/
def stringListPatch (action valueKey : String) (arg : Json) : Option Json :=
  match goStringArray arg with
  | some xs => if xs.isEmpty then none else some (mkPatch action valueKey (.arr (xs.map .str)))
  | none => none

/-- the eight constructors of `pkg/patch/patch.go` on their decoded argument (the argument text is
    JSON; duplicate member names are outside the model). `none` = error.
    * `NewReplacePatch`: an object with no other members than `publicKeys` and `services` (`null`
      decodes to a nil map and is written back as `null`);
    * `NewJSONPatch`: a list, or `null`;
    * `NewAddPublicKeysPatch`, `NewAddServiceEndpointsPatch`: whatever value stands in the document
      `{"publicKey": …}` / `{"service": …}` the argument is spliced into;
    * the four id / URI constructors: a non-empty list of strings. -/
def newPatch (ctor : String) (arg : Json) : Option Json :=
  if ctor = "replace" then
    match arg with
    | .obj kvs => if kvs.all (fun kv => kv.1 = "services" || kv.1 = "publicKeys") then some (mkPatch "replace" "document" (.obj kvs)) else none
    | .null => some (mkPatch "replace" "document" .null)
    | _ => none
  else if ctor = "ietf-json-patch" then
    match arg with
    | .arr xs => some (mkPatch "ietf-json-patch" "patches" (.arr xs))
    | .null => some (mkPatch "ietf-json-patch" "patches" .null)
    | _ => none
  else if ctor = "add-public-keys" then some (mkPatch "add-public-keys" "publicKeys" arg)
  else if ctor = "add-services" then some (mkPatch "add-services" "services" arg)
  else if ctor = "remove-public-keys" then stringListPatch "remove-public-keys" "ids" arg
  else if ctor = "remove-services" then stringListPatch "remove-services" "ids" arg
  else if ctor = "add-also-known-as" then stringListPatch "add-also-known-as" "uris" arg
  else if ctor = "remove-also-known-as" then stringListPatch "remove-also-known-as" "uris" arg
  else none

/-- `PatchesFromDocument` on the decoded document. `none` = error. -/
def fromDocument (doc : Json) : Option (List Json) :=
  let kvs := match doc with
    | .obj kvs => some kvs
    | .null => some []
    | _ => none
  match kvs with
  | none => none
  | some kvs =>
    if (Json.lookup "id" kvs).isSome then none
    else
      let sorted := sortByName kvs
      let special : Option (List Json) := sorted.foldlM (fun acc (k, v) =>
        if (k = "publicKey" ∨ k = "service") ∧ isEmptyList v then some acc
        else if k = "publicKey" then some (acc ++ [mkPatch "add-public-keys" "publicKeys" v])
        else if k = "service" then some (acc ++ [mkPatch "add-services" "services" v])
        else if k = "alsoKnownAs" then
          match goStringArray v with
          | some uris => if uris.isEmpty then none else some (acc ++ [mkPatch "add-also-known-as" "uris" (.arr (uris.map .str))])
          | none => none
        else some acc) []
      let others := sorted.filter fun (k, _) => k ≠ "publicKey" ∧ k ≠ "service" ∧ k ≠ "alsoKnownAs"
      match special with
      | none => none
      | some sp =>
        if others.isEmpty then some sp
        else some (sp ++ [mkPatch "ietf-json-patch" "patches"
          (.arr (others.map fun (k, v) => .obj [("op", .str "add"), ("path", .str ("/" ++ escapeToken k)), ("value", v)]))])

end Sidetree.PatchBuild
