/-
  C01 — the resolved state is the Sidetree state-machine fold of the operation history.

  `Spec.*` is the rule table of DESIGN.md Appendix A: per operation type a precondition and, per
  state field, a closed expression in (previous state, anchoring tuple, decoded request, stage
  predicates). `apply_eq_spec` proves the staged mirror of the Go code (`Applier.apply`, the
  function the driver runs against the implementation) equal to it for all inputs.
-/
import Sidetree.Applier

namespace Sidetree.Props.C01
open Sidetree Sidetree.Applier

variable (H : HashFam) (cfg : Protocol) (orc : Oracles)

/-! ### stage predicates -/

/-- the delta is bound by the given hash -/
def hashBound (p : ParsedOp) (h : String) : Bool := Hashing.isValidModelMultihash H (deltaJson p.delta) h
/-- the delta passes `ValidateDelta` -/
def deltaValid (p : ParsedOp) : Bool := Parser.validateDelta cfg orc p.delta
/-- the delta's next update commitment -/
def nextUC (p : ParsedOp) : String := (p.delta.getD default).updateCommitment

/-- bookkeeping common to every accepted operation: last-operation time / number / protocol
    version and version id follow the anchored operation, operation lists are carried over -/
def stamped (op : AnchoredOp) (rm : RM) (base : RM) : RM :=
  { base with
    lastOperationTransactionTime := op.transactionTime
    lastOperationTransactionNumber := op.transactionNumber
    lastOperationProtocolVersion := op.protocolVersion
    versionID := op.canonicalReference
    publishedOperations := rm.publishedOperations
    unpublishedOperations := rm.unpublishedOperations }

namespace Spec

/-- create: installs recovery commitment and anchor origin always; update commitment iff the
    delta is hash-bound and valid; the patched document iff additionally applicable -/
def create (op : AnchoredOp) (rm : RM) (p : ParsedOp) : Outcome :=
  let sd := p.suffixData.getD default
  let committed := hashBound H p sd.deltaHash && deltaValid cfg orc p
  let docR : Option Json ⊕ Unit := if committed then patched emptyDoc p.delta else .inl none
  match docR with
  | .inr _ => .blowup
  | .inl d =>
    .ok (stamped op rm
      { doc := some (d.getD emptyDoc), createdTime := op.transactionTime, updatedTime := 0,
        canonicalReference := op.canonicalReference, equivalentReferences := op.equivalentReferences,
        recoveryCommitment := sd.recoveryCommitment, anchorOrigin := sd.anchorOrigin,
        updateCommitment := if committed then nextUC p else "", deactivated := false })

/-- recover: as create with the signed recovery commitment / anchor origin, the window as an
    additional stage before the document, created time kept -/
def recover (op : AnchoredOp) (rm : RM) (p : ParsedOp) (sd : SignedData) : Outcome :=
  let committed := hashBound H p sd.deltaHash && deltaValid cfg orc p
  let docR : Option Json ⊕ Unit :=
    if committed && inWindow cfg sd op.transactionTime then patched emptyDoc p.delta else .inl none
  match docR with
  | .inr _ => .blowup
  | .inl d =>
    .ok (stamped op rm
      { doc := some (d.getD emptyDoc), createdTime := rm.createdTime, updatedTime := op.transactionTime,
        canonicalReference := op.canonicalReference, equivalentReferences := op.equivalentReferences,
        recoveryCommitment := sd.recoveryCommitment, anchorOrigin := sd.anchorOrigin,
        updateCommitment := if committed then nextUC p else "", deactivated := false })

/-- update: advances only the update commitment; the document changes iff in-window and applicable -/
def update (op : AnchoredOp) (rm : RM) (doc : Json) (p : ParsedOp) (sd : SignedData) : Outcome :=
  let docR : Option Json ⊕ Unit := if inWindow cfg sd op.transactionTime then patched doc p.delta else .inl none
  match docR with
  | .inr _ => .blowup
  | .inl d =>
    .ok (stamped op rm
      { doc := some (d.getD doc), createdTime := rm.createdTime, updatedTime := op.transactionTime,
        canonicalReference := rm.canonicalReference, equivalentReferences := rm.equivalentReferences,
        recoveryCommitment := rm.recoveryCommitment, anchorOrigin := rm.anchorOrigin,
        updateCommitment := nextUC p, deactivated := false })

/-- deactivate: empties the document, clears both commitments, sets the flag -/
def deactivate (op : AnchoredOp) (rm : RM) : Outcome :=
  .ok (stamped op rm
    { doc := some emptyDoc, createdTime := rm.createdTime, updatedTime := op.transactionTime,
      canonicalReference := rm.canonicalReference, equivalentReferences := rm.equivalentReferences,
      recoveryCommitment := "", anchorOrigin := rm.anchorOrigin, updateCommitment := "", deactivated := true })

/-- signature check as a three-way verdict lifted into outcomes -/
def withSignature (compact : String) (key : Option Jwk) (k : Outcome) : Outcome :=
  match verifyJws orc compact key with
  | .ok => k
  | .bad => .refused
  | .outOfDomain => .outOfDomain

/-- the rule table -/
def step (op : AnchoredOp) (rm : RM) : Outcome :=
  match OpType.ofString? op.type with
  | none => .refused
  | some .create =>
    if rm.doc.isSome then .refused
    else match parseAs H cfg orc .create op with
      | none => .refused
      | some p => create H cfg orc op rm p
  | some .update =>
    match rm.doc with
    | none => .refused
    | some doc =>
      match parseAs H cfg orc .update op with
      | none => .refused
      | some p =>
        match Parser.parseSignedDataForUpdate cfg p.signedData with
        | none => .refused
        | some sd =>
          if !hashBound H p sd.deltaHash then .refused
          else withSignature orc p.signedData sd.key
            (if !deltaValid cfg orc p then .refused else update cfg op rm doc p sd)
  | some .recover =>
    match rm.doc with
    | none => .refused
    | some _ =>
      match parseAs H cfg orc .recover op with
      | none => .refused
      | some p =>
        match Parser.parseSignedDataForRecover H cfg p.signedData with
        | none => .refused
        | some sd => withSignature orc p.signedData sd.key (recover H cfg orc op rm p sd)
  | some .deactivate =>
    match rm.doc with
    | none => .refused
    | some _ =>
      match parseAs H cfg orc .deactivate op with
      | none => .refused
      | some p =>
        match Parser.parseSignedDataForDeactivate cfg p.signedData with
        | none => .refused
        | some sd =>
          if p.uniqueSuffix ≠ sd.didSuffix then .refused
          else withSignature orc p.signedData sd.key
            (if !inWindow cfg sd op.transactionTime then .refused else deactivate op rm)

end Spec

/-! ### the staged code equals the rule table -/

theorem applyCreate_eq (op : AnchoredOp) (rm : RM) (p : ParsedOp) :
    applyCreate H cfg orc op rm p = Spec.create H cfg orc op rm p := by
  unfold applyCreate Spec.create hashBound deltaValid nextUC stamped
  cases h1 : Hashing.isValidModelMultihash H (deltaJson p.delta) (p.suffixData.getD default).deltaHash <;>
    cases h2 : Parser.validateDelta cfg orc p.delta <;> simp [h1, h2]
  cases h3 : patched emptyDoc p.delta with
  | inl d => cases d <;> simp [h3]
  | inr u => simp [h3]

theorem applyRecover_eq (op : AnchoredOp) (rm : RM) (p : ParsedOp) (d0 : Json) (hd : rm.doc = some d0) :
    applyRecover H cfg orc op rm p =
      match Parser.parseSignedDataForRecover H cfg p.signedData with
      | none => .refused
      | some sd => Spec.withSignature orc p.signedData sd.key (Spec.recover H cfg orc op rm p sd) := by
  unfold applyRecover Spec.withSignature
  simp only [hd]
  cases hs : Parser.parseSignedDataForRecover H cfg p.signedData with
  | none => rfl
  | some sd =>
    simp only
    cases hv : verifyJws orc p.signedData sd.key with
    | bad => rfl
    | outOfDomain => rfl
    | ok =>
      simp only
      unfold Spec.recover hashBound deltaValid nextUC stamped
      cases h1 : Hashing.isValidModelMultihash H (deltaJson p.delta) sd.deltaHash <;>
        cases h2 : Parser.validateDelta cfg orc p.delta <;> simp [h1, h2]
      cases h4 : inWindow cfg sd op.transactionTime <;> simp [h4]
      cases h3 : patched emptyDoc p.delta with
      | inl d => cases d <;> simp [h3]
      | inr u => simp [h3]

theorem applyUpdate_eq (op : AnchoredOp) (rm : RM) (p : ParsedOp) (doc : Json) (hd : rm.doc = some doc) :
    applyUpdate H cfg orc op rm p =
      match Parser.parseSignedDataForUpdate cfg p.signedData with
      | none => .refused
      | some sd =>
        if !hashBound H p sd.deltaHash then .refused
        else Spec.withSignature orc p.signedData sd.key
          (if !deltaValid cfg orc p then .refused else Spec.update cfg op rm doc p sd) := by
  unfold applyUpdate Spec.withSignature hashBound deltaValid
  simp only [hd]
  cases hs : Parser.parseSignedDataForUpdate cfg p.signedData with
  | none => rfl
  | some sd =>
    simp only
    cases h1 : Hashing.isValidModelMultihash H (deltaJson p.delta) sd.deltaHash <;> simp [h1]
    cases hv : verifyJws orc p.signedData sd.key with
    | bad => rfl
    | outOfDomain => rfl
    | ok =>
      simp only
      cases h2 : Parser.validateDelta cfg orc p.delta <;> simp [h2]
      unfold Spec.update nextUC stamped
      cases h4 : inWindow cfg sd op.transactionTime <;> simp [h4]
      cases h3 : patched doc p.delta with
      | inl d => cases d <;> simp [h3]
      | inr u => simp [h3]

theorem applyDeactivate_eq (op : AnchoredOp) (rm : RM) (p : ParsedOp) (doc : Json) (hd : rm.doc = some doc) :
    applyDeactivate cfg orc op rm p =
      match Parser.parseSignedDataForDeactivate cfg p.signedData with
      | none => .refused
      | some sd =>
        if p.uniqueSuffix ≠ sd.didSuffix then .refused
        else Spec.withSignature orc p.signedData sd.key
          (if !inWindow cfg sd op.transactionTime then .refused else Spec.deactivate op rm) := by
  unfold applyDeactivate Spec.withSignature
  simp only [hd]
  cases hs : Parser.parseSignedDataForDeactivate cfg p.signedData with
  | none => rfl
  | some sd =>
    simp only
    by_cases hsfx : p.uniqueSuffix = sd.didSuffix
    · simp only [hsfx, ne_eq, not_true_eq_false, if_false]
      cases hv : verifyJws orc p.signedData sd.key with
      | bad => rfl
      | outOfDomain => rfl
      | ok =>
        simp only
        cases h4 : inWindow cfg sd op.transactionTime <;> simp [h4, Spec.deactivate, stamped]
    · simp [hsfx]

/-- **`apply` is the rule table**, for every configuration, oracle, operation and state -/
theorem apply_eq_spec (op : AnchoredOp) (rm : RM) :
    apply H cfg orc op rm = Spec.step H cfg orc op rm := by
  unfold apply Spec.step
  cases ht : OpType.ofString? op.type with
  | none => rfl
  | some ty =>
    cases ty with
    | create =>
      simp only
      cases hd : rm.doc with
      | some d => simp
      | none =>
        simp only [Option.isSome_none, Bool.false_eq_true, if_false]
        cases hp : parseAs H cfg orc .create op with
        | none => rfl
        | some p => simp only; exact applyCreate_eq H cfg orc op rm p
    | update =>
      simp only
      cases hd : rm.doc with
      | none => simp
      | some d =>
        simp only [Option.isNone_some, Bool.false_eq_true, if_false]
        cases hp : parseAs H cfg orc .update op with
        | none => rfl
        | some p => simp only; exact applyUpdate_eq H cfg orc op rm p d hd
    | recover =>
      simp only
      cases hd : rm.doc with
      | none => simp
      | some d =>
        simp only [Option.isNone_some, Bool.false_eq_true, if_false]
        cases hp : parseAs H cfg orc .recover op with
        | none => rfl
        | some p => simp only; exact applyRecover_eq H cfg orc op rm p d hd
    | deactivate =>
      simp only
      cases hd : rm.doc with
      | none => simp
      | some d =>
        simp only [Option.isNone_some, Bool.false_eq_true, if_false]
        cases hp : parseAs H cfg orc .deactivate op with
        | none => rfl
        | some p => simp only; exact applyDeactivate_eq cfg orc op rm p d hd


/-! ### the sentences of the property, as corollaries -/

/-- create applies only to an empty state -/
theorem create_needs_empty (op : AnchoredOp) (rm : RM) (ht : OpType.ofString? op.type = some .create)
    (hd : rm.doc.isSome = true) : apply H cfg orc op rm = .refused := by
  rw [apply_eq_spec]; simp [Spec.step, ht, hd]

/-- update / recover / deactivate apply only to an existing state -/
theorem others_need_existing (op : AnchoredOp) (rm : RM) (ty : OpType)
    (ht : OpType.ofString? op.type = some ty) (hty : ty ≠ .create) (hd : rm.doc = none) :
    apply H cfg orc op rm = .refused := by
  rw [apply_eq_spec]
  cases ty <;> simp_all [Spec.step]

/-- an operation of an unknown type is refused -/
theorem unknown_type_refused (op : AnchoredOp) (rm : RM) (ht : OpType.ofString? op.type = none) :
    apply H cfg orc op rm = .refused := by
  simp [apply, ht]

/-- a refused operation leaves the previous state in force -/
theorem refused_keeps (op : AnchoredOp) (rm : RM) (h : apply H cfg orc op rm = .refused) :
    stepOrKeep H cfg orc rm op = rm := by
  simp [stepOrKeep, h]

/-- an accepted operation replaces the state -/
theorem accepted_replaces (op : AnchoredOp) (rm rm' : RM) (h : apply H cfg orc op rm = .ok rm') :
    stepOrKeep H cfg orc rm op = rm' := by
  simp [stepOrKeep, h]

/-- resolution is a left fold: histories extend one operation at a time, of any length -/
theorem resolve_append (ops : List AnchoredOp) (op : AnchoredOp) :
    resolve H cfg orc (ops ++ [op]) = stepOrKeep H cfg orc (resolve H cfg orc ops) op := by
  simp [resolve, List.foldl_append]

theorem resolve_nil : resolve H cfg orc [] = {} := rfl

/-- every accepted create (any delta): recovery commitment and anchor origin of the suffix data,
    created time = anchoring time, no updated time, canonical / equivalent references and
    bookkeeping of the anchored operation, operation lists carried over, not deactivated -/
theorem create_bookkeeping (op : AnchoredOp) (rm rm' : RM) (p : ParsedOp)
    (h : Spec.create H cfg orc op rm p = .ok rm') :
    rm'.recoveryCommitment = (p.suffixData.getD default).recoveryCommitment ∧
    rm'.anchorOrigin = (p.suffixData.getD default).anchorOrigin ∧
    rm'.createdTime = op.transactionTime ∧ rm'.updatedTime = 0 ∧
    rm'.lastOperationTransactionTime = op.transactionTime ∧
    rm'.lastOperationTransactionNumber = op.transactionNumber ∧
    rm'.lastOperationProtocolVersion = op.protocolVersion ∧
    rm'.versionID = op.canonicalReference ∧ rm'.canonicalReference = op.canonicalReference ∧
    rm'.equivalentReferences = op.equivalentReferences ∧
    rm'.publishedOperations = rm.publishedOperations ∧ rm'.unpublishedOperations = rm.unpublishedOperations ∧
    rm'.deactivated = false ∧ rm'.doc.isSome = true := by
  unfold Spec.create at h
  simp only at h
  split at h
  · cases h
  · cases h; simp [stamped]

/-- the update commitment of a create is installed exactly when the delta is hash-bound and
    valid, and a document other than the empty one only when it is also applicable -/
theorem create_commitment_and_document (op : AnchoredOp) (rm rm' : RM) (p : ParsedOp)
    (h : Spec.create H cfg orc op rm p = .ok rm') :
    rm'.updateCommitment =
      (if hashBound H p (p.suffixData.getD default).deltaHash && deltaValid cfg orc p then nextUC p else "") ∧
    (rm'.doc ≠ some emptyDoc →
      hashBound H p (p.suffixData.getD default).deltaHash = true ∧ deltaValid cfg orc p = true ∧
      patched emptyDoc p.delta = .inl rm'.doc) := by
  unfold Spec.create at h
  simp only at h
  cases hc : (hashBound H p (p.suffixData.getD default).deltaHash && deltaValid cfg orc p) with
  | false =>
    simp only [hc, Bool.false_eq_true, if_false] at h
    cases h
    simp [stamped]
  | true =>
    simp only [hc, if_true] at h
    have hc' := hc
    simp only [Bool.and_eq_true] at hc'
    cases hp : patched emptyDoc p.delta with
    | inr u => simp [hp] at h
    | inl d =>
      simp only [hp] at h
      cases h
      refine ⟨by simp [stamped], ?_⟩
      intro hne
      refine ⟨hc'.1, hc'.2, ?_⟩
      cases d with
      | none => simp [stamped] at hne
      | some d' => simp [stamped]

/-- an accepted update changes nothing but the update commitment, the times, the version id and
    (possibly) the document -/
theorem update_changes_only (op : AnchoredOp) (rm rm' : RM) (doc : Json) (p : ParsedOp) (sd : SignedData)
    (h : Spec.update cfg op rm doc p sd = .ok rm') :
    rm'.updateCommitment = nextUC p ∧
    rm'.recoveryCommitment = rm.recoveryCommitment ∧ rm'.anchorOrigin = rm.anchorOrigin ∧
    rm'.createdTime = rm.createdTime ∧ rm'.updatedTime = op.transactionTime ∧
    rm'.canonicalReference = rm.canonicalReference ∧ rm'.equivalentReferences = rm.equivalentReferences ∧
    rm'.versionID = op.canonicalReference ∧
    rm'.lastOperationTransactionTime = op.transactionTime ∧
    rm'.lastOperationTransactionNumber = op.transactionNumber ∧
    rm'.lastOperationProtocolVersion = op.protocolVersion ∧
    rm'.publishedOperations = rm.publishedOperations ∧ rm'.unpublishedOperations = rm.unpublishedOperations ∧
    rm'.deactivated = false ∧
    (rm'.doc ≠ some doc → inWindow cfg sd op.transactionTime = true ∧ patched doc p.delta = .inl rm'.doc) := by
  unfold Spec.update at h
  simp only at h
  cases hw : inWindow cfg sd op.transactionTime with
  | false =>
    simp only [hw, Bool.false_eq_true, if_false] at h
    cases h
    simp [stamped]
  | true =>
    simp only [hw, if_true] at h
    cases hp : patched doc p.delta with
    | inr u => simp [hp] at h
    | inl d =>
      simp only [hp] at h
      cases h
      cases d with
      | none => simp [stamped]
      | some d' => simp [stamped]

/-- a deactivate empties the document, clears both commitments and sets the flag -/
theorem deactivate_result (op : AnchoredOp) (rm rm' : RM) (h : Spec.deactivate op rm = .ok rm') :
    rm'.doc = some emptyDoc ∧ rm'.updateCommitment = "" ∧ rm'.recoveryCommitment = "" ∧ rm'.deactivated = true ∧
    rm'.createdTime = rm.createdTime ∧ rm'.updatedTime = op.transactionTime ∧
    rm'.anchorOrigin = rm.anchorOrigin ∧ rm'.canonicalReference = rm.canonicalReference ∧
    rm'.equivalentReferences = rm.equivalentReferences ∧ rm'.versionID = op.canonicalReference ∧
    rm'.lastOperationTransactionTime = op.transactionTime ∧
    rm'.publishedOperations = rm.publishedOperations ∧ rm'.unpublishedOperations = rm.unpublishedOperations := by
  unfold Spec.deactivate at h
  cases h
  simp [stamped]

/-- a recover always installs its signed recovery commitment and anchor origin; the update
    commitment iff hash-bound and valid; a non-empty document only when also in-window and applicable -/
theorem recover_result (op : AnchoredOp) (rm rm' : RM) (p : ParsedOp) (sd : SignedData)
    (h : Spec.recover H cfg orc op rm p sd = .ok rm') :
    rm'.recoveryCommitment = sd.recoveryCommitment ∧ rm'.anchorOrigin = sd.anchorOrigin ∧
    rm'.createdTime = rm.createdTime ∧ rm'.updatedTime = op.transactionTime ∧
    rm'.canonicalReference = op.canonicalReference ∧ rm'.equivalentReferences = op.equivalentReferences ∧
    rm'.deactivated = false ∧
    rm'.updateCommitment = (if hashBound H p sd.deltaHash && deltaValid cfg orc p then nextUC p else "") ∧
    (rm'.doc ≠ some emptyDoc →
      hashBound H p sd.deltaHash = true ∧ deltaValid cfg orc p = true ∧ inWindow cfg sd op.transactionTime = true ∧
      patched emptyDoc p.delta = .inl rm'.doc) := by
  unfold Spec.recover at h
  simp only at h
  cases hc : (hashBound H p sd.deltaHash && deltaValid cfg orc p) with
  | false =>
    simp only [hc, Bool.false_and, Bool.false_eq_true, if_false] at h
    cases h
    simp [stamped]
  | true =>
    have hc' := hc
    simp only [Bool.and_eq_true] at hc'
    cases hw : inWindow cfg sd op.transactionTime with
    | false =>
      simp only [hc, hw, Bool.and_false, Bool.false_eq_true, if_false] at h
      cases h
      simp [stamped]
    | true =>
      simp only [hc, hw, Bool.and_true, if_true] at h
      cases hp : patched emptyDoc p.delta with
      | inr u => simp [hp] at h
      | inl d =>
        simp only [hp] at h
        cases h
        cases d with
        | none => simp [stamped]
        | some d' => simp [stamped, hc'.1, hc'.2]

/-! non-vacuity: a concrete state on which each branch is reachable is exercised by the
    correspondence stream (histories of real signed operations); the spec's own branches: -/
example (op : AnchoredOp) (rm : RM) : ∃ rm', Spec.deactivate op rm = .ok rm' := ⟨_, rfl⟩

end Sidetree.Props.C01
