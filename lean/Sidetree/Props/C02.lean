/-
  C02 — no state change without a valid signature by the revealed key.
  Everything is about `Applier.apply`; the cryptographic verdict is the oracle `orc.verify`
  (Go's standard library on the harness side), never an assumption about it.
-/
import Sidetree.Props.C01
import Sidetree.Lemmas.Parser

namespace Sidetree.Props.C02
open Sidetree Sidetree.Applier Sidetree.Parser

variable (H : HashFam) (cfg : Protocol) (orc : Oracles)

/-- what "signed by the revealed key" means for signed data `compact`, the key `key` carried
    inside it and the operation's reveal value -/
structure Authorised (compact : String) (key : Option Jwk) (reveal : String) : Prop where
  /-- the signed data is a compact JWS (three segments that decode, a JSON-object header with `alg`,
      non-empty payload and signature) -/
  compact_jws : ∃ parsed, Jws.parse compact = some parsed ∧
    /- protected header: `alg` a non-empty allowed algorithm, nothing but `alg` / `kid` -/
    ∃ alg, Json.lookup "alg" parsed.headers = some (.str alg) ∧ alg ≠ "" ∧ alg ∈ cfg.signatureAlgorithms ∧
      ∀ kv ∈ parsed.headers, kv.1 = "alg" ∨ kv.1 = "kid"
  /-- it verifies under the key carried inside the signed data -/
  verifies : ∃ k, key = some k ∧ Jws.verify orc compact k = .ok
  /-- that key hashes to the operation's reveal value -/
  key_revealed : revealMatches H key reveal = true

theorem verifyJws_ok (compact : String) (key : Option Jwk) (h : verifyJws orc compact key = .ok) :
    ∃ k, key = some k ∧ Jws.verify orc compact k = .ok := by
  cases key with
  | none => simp [verifyJws] at h
  | some k => exact ⟨k, rfl, h⟩

theorem withSignature_ok (compact : String) (key : Option Jwk) (k : Outcome) (rm' : RM)
    (h : C01.Spec.withSignature orc compact key k = .ok rm') :
    verifyJws orc compact key = .ok ∧ k = .ok rm' := by
  unfold C01.Spec.withSignature at h
  cases hv : verifyJws orc compact key <;> simp [hv] at h
  exact ⟨rfl, h⟩

theorem parseAs_update (op : AnchoredOp) (p : ParsedOp) (h : parseAs H cfg orc .update op = some p) :
    ∃ j, op.request = some j ∧ parseUpdate H cfg orc j true = some p := by
  unfold parseAs at h
  cases hr : op.request with
  | none => simp [hr] at h
  | some j => exact ⟨j, rfl, by simpa [hr] using h⟩

theorem parseAs_recover (op : AnchoredOp) (p : ParsedOp) (h : parseAs H cfg orc .recover op = some p) :
    ∃ j, op.request = some j ∧ parseRecover H cfg orc j true = some p := by
  unfold parseAs at h
  cases hr : op.request with
  | none => simp [hr] at h
  | some j => exact ⟨j, rfl, by simpa [hr] using h⟩

theorem parseAs_deactivate (op : AnchoredOp) (p : ParsedOp) (h : parseAs H cfg orc .deactivate op = some p) :
    ∃ j, op.request = some j ∧ parseDeactivate H cfg orc j true = some p := by
  unfold parseAs at h
  cases hr : op.request with
  | none => simp [hr] at h
  | some j => exact ⟨j, rfl, by simpa [hr] using h⟩

/-- **an accepted update was signed by the revealed key over this payload, and its delta is the
    signed one** -/
theorem update_authorised (op : AnchoredOp) (rm rm' : RM)
    (ht : OpType.ofString? op.type = some .update) (h : apply H cfg orc op rm = .ok rm') :
    ∃ p sd, parseAs H cfg orc .update op = some p ∧ parseSignedDataForUpdate cfg p.signedData = some sd ∧
      Authorised H cfg orc p.signedData sd.key p.revealValue ∧
      Hashing.isValidModelMultihash H (deltaJson p.delta) sd.deltaHash = true := by
  rw [C01.apply_eq_spec] at h
  simp only [C01.Spec.step, ht] at h
  cases hd : rm.doc with
  | none => simp [hd] at h
  | some doc =>
    simp only [hd] at h
    cases hp : parseAs H cfg orc .update op with
    | none => simp [hp] at h
    | some p =>
      simp only [hp] at h
      cases hs : parseSignedDataForUpdate cfg p.signedData with
      | none => simp [hs] at h
      | some sd =>
        simp only [hs] at h
        cases hb : C01.hashBound H p sd.deltaHash with
        | false => simp [hb] at h
        | true =>
          simp only [hb, Bool.not_true, Bool.false_eq_true, if_false] at h
          obtain ⟨hv, _⟩ := withSignature_ok orc _ _ _ _ h
          obtain ⟨j, _, hpu⟩ := parseAs_update H cfg orc op p hp
          obtain ⟨c, sd', _, hs', _, hrev, hpe⟩ := parseUpdate_inv H cfg orc j true p hpu
          have e1 : p.signedData = c.signedData := by rw [hpe]
          have e2 : p.revealValue = c.revealValue := by rw [hpe]
          rw [← e1] at hs'
          rw [hs] at hs'
          cases hs'
          obtain ⟨parsed, hps, _, _⟩ := parseSignedDataForUpdate_inv cfg p.signedData sd hs
          obtain ⟨_, hparse, hhdr⟩ := parseSignedData_inv cfg p.signedData parsed hps
          refine ⟨p, sd, rfl, hs, ⟨⟨parsed, hparse, headersOK_inv cfg parsed.headers hhdr⟩,
            verifyJws_ok orc _ _ hv, by rw [e2]; exact hrev⟩, hb⟩

/-- an accepted recover was signed by the revealed recovery key; its new recovery commitment and
    anchor origin are the signed ones -/
theorem recover_authorised (op : AnchoredOp) (rm rm' : RM)
    (ht : OpType.ofString? op.type = some .recover) (h : apply H cfg orc op rm = .ok rm') :
    ∃ p sd, parseAs H cfg orc .recover op = some p ∧ parseSignedDataForRecover H cfg p.signedData = some sd ∧
      Authorised H cfg orc p.signedData sd.key p.revealValue ∧
      rm'.recoveryCommitment = sd.recoveryCommitment ∧ rm'.anchorOrigin = sd.anchorOrigin ∧
      /- content from the delta is installed only if the delta hashes to the signed delta hash -/
      ((rm'.updateCommitment ≠ "" ∨ rm'.doc ≠ some emptyDoc) →
        Hashing.isValidModelMultihash H (deltaJson p.delta) sd.deltaHash = true) := by
  rw [C01.apply_eq_spec] at h
  simp only [C01.Spec.step, ht] at h
  cases hd : rm.doc with
  | none => simp [hd] at h
  | some doc =>
    simp only [hd] at h
    cases hp : parseAs H cfg orc .recover op with
    | none => simp [hp] at h
    | some p =>
      simp only [hp] at h
      cases hs : parseSignedDataForRecover H cfg p.signedData with
      | none => simp [hs] at h
      | some sd =>
        simp only [hs] at h
        obtain ⟨hv, hk⟩ := withSignature_ok orc _ _ _ _ h
        obtain ⟨j, _, hpu⟩ := parseAs_recover H cfg orc op p hp
        obtain ⟨c, sd', _, hs', _, hrev, hpe⟩ := parseRecover_inv H cfg orc j true p hpu
        have e1 : p.signedData = c.signedData := by rw [hpe]
        have e2 : p.revealValue = c.revealValue := by rw [hpe]
        rw [← e1] at hs'
        rw [hs] at hs'
        cases hs'
        obtain ⟨parsed, hps, _⟩ := parseSignedDataForRecover_inv H cfg p.signedData sd hs
        obtain ⟨_, hparse, hhdr⟩ := parseSignedData_inv cfg p.signedData parsed hps
        have hr := C01.recover_result H cfg orc op rm rm' p sd hk
        refine ⟨p, sd, rfl, hs, ⟨⟨parsed, hparse, headersOK_inv cfg parsed.headers hhdr⟩,
          verifyJws_ok orc _ _ hv, by rw [e2]; exact hrev⟩, hr.1, hr.2.1, ?_⟩
        intro hcontent
        have huc := hr.2.2.2.2.2.2.2.1
        have hdoc := hr.2.2.2.2.2.2.2.2
        cases hb : C01.hashBound H p sd.deltaHash with
        | true => exact hb
        | false =>
          exfalso
          rcases hcontent with hne | hne
          · rw [huc, hb] at hne
            simp at hne
          · have := (hdoc hne).1
            rw [hb] at this; cases this

/-- an accepted deactivate was signed by the revealed recovery key over this DID's suffix -/
theorem deactivate_authorised (op : AnchoredOp) (rm rm' : RM)
    (ht : OpType.ofString? op.type = some .deactivate) (h : apply H cfg orc op rm = .ok rm') :
    ∃ p sd, parseAs H cfg orc .deactivate op = some p ∧ parseSignedDataForDeactivate cfg p.signedData = some sd ∧
      Authorised H cfg orc p.signedData sd.key p.revealValue ∧ sd.didSuffix = p.uniqueSuffix := by
  rw [C01.apply_eq_spec] at h
  simp only [C01.Spec.step, ht] at h
  cases hd : rm.doc with
  | none => simp [hd] at h
  | some doc =>
    simp only [hd] at h
    cases hp : parseAs H cfg orc .deactivate op with
    | none => simp [hp] at h
    | some p =>
      simp only [hp] at h
      cases hs : parseSignedDataForDeactivate cfg p.signedData with
      | none => simp [hs] at h
      | some sd =>
        simp only [hs] at h
        by_cases hsfx : p.uniqueSuffix = sd.didSuffix
        · simp only [hsfx, ne_eq, not_true_eq_false, if_false] at h
          obtain ⟨hv, _⟩ := withSignature_ok orc _ _ _ _ h
          obtain ⟨j, _, hpu⟩ := parseAs_deactivate H cfg orc op p hp
          obtain ⟨c, sd', _, hs', _, hrev, _, hpe⟩ := parseDeactivate_inv H cfg orc j true p hpu
          have e1 : p.signedData = c.signedData := by rw [hpe]
          have e2 : p.revealValue = c.revealValue := by rw [hpe]
          rw [← e1] at hs'
          rw [hs] at hs'
          cases hs'
          obtain ⟨parsed, hps, _⟩ := parseSignedDataForDeactivate_inv cfg p.signedData sd hs
          obtain ⟨_, hparse, hhdr⟩ := parseSignedData_inv cfg p.signedData parsed hps
          exact ⟨p, sd, rfl, hs, ⟨⟨parsed, hparse, headersOK_inv cfg parsed.headers hhdr⟩,
            verifyJws_ok orc _ _ hv, by rw [e2]; exact hrev⟩, hsfx.symm⟩
        · simp [hsfx] at h

/-- contrapositive: whenever the oracle rejects the signature, the operation is refused -/
theorem bad_signature_refused (compact : String) (key : Option Jwk) (k : Outcome)
    (h : verifyJws orc compact key = .bad) : C01.Spec.withSignature orc compact key k = .refused := by
  simp [C01.Spec.withSignature, h]

/-- verification is decided by the oracle on exactly (key, signature bytes, signing input) -/
theorem verify_reduces (compact : String) (k : Jwk) (h : Jws.verify orc compact k = .ok) :
    ∃ p inp, Jws.parse compact = some p ∧ Jws.signingInput p = some inp ∧ orc.verify k p.signature inp = some true := by
  unfold Jws.verify at h
  cases hp : Jws.parse compact with
  | none => simp [hp] at h
  | some p =>
    simp only [hp] at h
    cases hi : Jws.signingInput p with
    | none => simp [hi] at h
    | some inp =>
      simp only [hi] at h
      cases ho : orc.verify k p.signature inp with
      | none => simp [ho] at h
      | some b => cases b <;> simp [ho] at h
                  exact ⟨p, inp, rfl, hi, ho⟩

end Sidetree.Props.C02
