/-
  C03 — DIDs are self-certifying.
-/
import Sidetree.Props.C07
import Sidetree.Props.C06
import Sidetree.Props.C04

namespace Sidetree.Props.C03
open Sidetree Sidetree.Parser Sidetree.Hashing

variable (H : HashFam) (cfg : Protocol) (orc : Oracles)

/-- for every accepted create request: suffix = multihash of the canonicalized suffix data under
    the first configured algorithm; id = namespace ":" suffix; outside batch mode the delta hashes
    to the delta hash recorded in the suffix data -/
theorem create_self_certifying (ns : String) (size : Nat) (j : Json) (op : PublicOp)
    (hty : requestType (some j) = some .create) (h : parse H cfg orc ns size (some j) = some op) :
    ∃ c alg, decodeCreate j = some c ∧ cfg.multihashAlgorithms.head? = some alg ∧
      calculateModelMultihash H (c.suffixData.getD default).toJson alg = some op.uniqueSuffix ∧
      op.id = ns ++ ":" ++ op.uniqueSuffix ∧
      isValidModelMultihash H (deltaJson c.delta) (c.suffixData.getD default).deltaHash = true := by
  unfold parse at h
  cases hp : parseOperation H cfg orc size (some j) false with
  | none => simp [hp] at h
  | some p =>
    simp only [hp, Option.map_some, Option.some.injEq] at h
    subst h
    unfold parseOperation at hp
    by_cases hsz : size > cfg.maxOperationSize
    · simp [hsz, guard'] at hp
    · simp only [hsz, decide_false, Bool.not_false, guard', if_true, Option.bind_eq_bind, Option.bind_some, hty] at hp
      obtain ⟨c, alg, suffix, h1, _, h3, h4, h5, e⟩ := parseCreate_inv H cfg orc j false p hp
      rcases h3 with h3 | h3
      · cases h3
      · refine ⟨c, alg, h1, h4, ?_, rfl, ?_⟩
        · rw [e]; exact h5
        · simp only [createChecks, Bool.and_eq_true] at h3
          exact h3.1.2

/-- batch mode skips the delta checks but not the suffix computation -/
theorem create_suffix_batch (j : Json) (p : ParsedOp) (h : parseCreate H cfg orc j true = some p) :
    ∃ c alg, decodeCreate j = some c ∧ cfg.multihashAlgorithms.head? = some alg ∧
      calculateModelMultihash H (c.suffixData.getD default).toJson alg = some p.uniqueSuffix := by
  obtain ⟨c, alg, suffix, h1, _, _, h4, h5, e⟩ := parseCreate_inv H cfg orc j true p h
  exact ⟨c, alg, h1, h4, by rw [e]; exact h5⟩

/-- changing any part of the suffix data changes the DID (or exhibits a collision): two suffix
    data with the same suffix have the same canonical form -/
theorem suffix_binds (ok : HashOK H) (sd1 sd2 : SuffixData) (alg : Nat) (s : String)
    (h1 : calculateModelMultihash H sd1.toJson alg = some s)
    (h2 : calculateModelMultihash H sd2.toJson alg = some s) :
    transformValue sd1.toJson = transformValue sd2.toJson ∨ Collision H :=
  C04.reveal_separates H ok sd1.toJson sd2.toJson alg s h1 h2

/-- changing the delta either changes the delta hash in the suffix data (hence the DID) or is
    rejected: two deltas that validate against the same hash have the same canonical form -/
theorem delta_binds (ok : HashOK H) (d1 d2 : Option Delta) (h : String)
    (h1 : isValidModelMultihash H (deltaJson d1) h = true)
    (h2 : isValidModelMultihash H (deltaJson d2) h = true) :
    transformValue (deltaJson d1) = transformValue (deltaJson d2) ∨ Collision H := by
  obtain ⟨c, hc⟩ := (C06.valid_iff H ok (deltaJson d2) h).mp h2
  exact C06.valid_same_value H ok (deltaJson d1) (deltaJson d2) c h hc h1

/-! ### member order of the request does not matter -/

theorem lookup_perm (k : String) : ∀ {a b : List (String × Json)}, a.Perm b → (a.map (·.1)).Nodup →
    Json.lookup k a = Json.lookup k b := by
  intro a b hp
  induction hp with
  | nil => intro _; rfl
  | cons x _ ih =>
    intro hnd
    obtain ⟨k', v⟩ := x
    simp only [List.map_cons, List.nodup_cons] at hnd
    simp only [Json.lookup]
    split
    · rfl
    · exact ih hnd.2
  | swap x y l =>
    intro hnd
    obtain ⟨kx, vx⟩ := x
    obtain ⟨ky, vy⟩ := y
    simp only [List.map_cons, List.nodup_cons, List.mem_cons, not_or] at hnd
    simp only [Json.lookup]
    by_cases h1 : ky = k <;> by_cases h2 : kx = k <;> simp [h1, h2]
    exact absurd (h1.trans h2.symm) hnd.1.1
  | trans p1 _ ih1 ih2 =>
    intro hnd
    rw [ih1 hnd, ih2 ((p1.map _).nodup_iff.mp hnd)]

/-- the top-level member order of a create request is irrelevant to its decoding, hence to the
    DID it denotes (whitespace and escapes never reach the decoder: it reads the parsed value) -/
theorem create_member_order_irrelevant (a b : List (String × Json)) (hp : a.Perm b) (hnd : (a.map (·.1)).Nodup) :
    decodeCreate (.obj a) = decodeCreate (.obj b) ∧
    ∀ batch, parseCreate H cfg orc (.obj a) batch = parseCreate H cfg orc (.obj b) batch := by
  have hget : ∀ k, (Json.obj a).get? k = (Json.obj b).get? k := fun k => lookup_perm k hp hnd
  have hd : decodeCreate (.obj a) = decodeCreate (.obj b) := by
    simp [decodeCreate, GoJson.topObject, GoJson.str, GoJson.ptr, hget]
  exact ⟨hd, fun batch => by simp [parseCreate, hd]⟩

end Sidetree.Props.C03
