/-
  C03, from bytes to values: `suffix_binds` / `delta_binds` say that two suffix data with the same
  suffix (two deltas validating against the same hash) have the same canonical *bytes*, or the
  hash family has a collision. Here the bytes are taken back to the *fields*: the canonical text
  determines the normal form (`C06.canonical_bytes_determine_value`), and the normal form of a
  marshalled suffix data / delta determines its fields (strings exactly, JSON-valued parts up to
  their normal form, i.e. up to member order).
-/
import Sidetree.Props.C03
import Sidetree.Props.C06Num
import Sidetree.Lemmas.RemarshalNum

namespace Sidetree.Props.C03
open Sidetree Sidetree.Json Sidetree.Parser Sidetree.Hashing Sidetree.Framing

/-! ### what the normal form of a marshalled struct remembers -/

/-- an `omitempty` string member, as it is found in the marshalled object -/
def omitStr (s : String) : Option Json := if s = "" then none else some (.str s)

theorem omitStr_inj (a b : String) (h : omitStr a = omitStr b) : a = b := by
  unfold omitStr at h
  by_cases ha : a = "" <;> by_cases hb : b = "" <;> simp [ha, hb] at h
  · rw [ha, hb]
  · exact h

/-- the members of the normal form of marshalled suffix data -/
theorem suffix_normal_get (sd : SuffixData) (n : Json) (h : normalize sd.toJson = some n) :
    n.get? "deltaHash" = omitStr sd.deltaHash ∧ n.get? "recoveryCommitment" = omitStr sd.recoveryCommitment ∧
    n.get? "type" = omitStr sd.type ∧ n.get? "anchorOrigin" = sd.anchorOrigin.bind normalize := by
  obtain ⟨dh, rc, ao, ty⟩ := sd
  have hobj : ∃ kvs, (SuffixData.toJson ⟨dh, rc, ao, ty⟩) = .obj kvs := ⟨_, rfl⟩
  obtain ⟨kvs, hk⟩ := hobj
  have g1 := normalize_obj_get kvs n (hk ▸ h) "deltaHash"
  have g2 := normalize_obj_get kvs n (hk ▸ h) "recoveryCommitment"
  have g3 := normalize_obj_get kvs n (hk ▸ h) "anchorOrigin"
  have g4 := normalize_obj_get kvs n (hk ▸ h) "type"
  simp only [SuffixData.toJson, Json.obj.injEq] at hk
  subst hk
  cases ao <;> by_cases h1 : dh = "" <;> by_cases h2 : rc = "" <;> by_cases h4 : ty = "" <;>
    simp [h1, h2, h4, Json.lookup, normalize] at g1 g2 g3 g4 <;>
    simp [omitStr, g1, g2, g3, g4, h1, h2, h4]

/-- the anchor origin, as far as the normal form tells: present or not, and its normal form -/
def originNormal (sd : SuffixData) : Option Json := sd.anchorOrigin.bind normalize

/-- **marshalling suffix data forgets nothing but the member order inside the anchor origin**:
    equal normal forms of the marshalled structs ⇒ equal strings, and anchor origins that are both
    absent or both present with equal normal forms. (No side condition needed: the junk state
    `some .null`, which neither Go nor `SuffixData.ofJson?` can produce, is kept apart from `none`
    by the model's `toJson`.) -/
theorem suffix_data_injective (sd1 sd2 : SuffixData) (n : Json)
    (h1 : normalize sd1.toJson = some n) (h2 : normalize sd2.toJson = some n) :
    sd1.deltaHash = sd2.deltaHash ∧ sd1.recoveryCommitment = sd2.recoveryCommitment ∧ sd1.type = sd2.type ∧
      originNormal sd1 = originNormal sd2 := by
  obtain ⟨a1, a2, a3, a4⟩ := suffix_normal_get sd1 n h1
  obtain ⟨b1, b2, b3, b4⟩ := suffix_normal_get sd2 n h2
  exact ⟨omitStr_inj _ _ (a1.symm.trans b1), omitStr_inj _ _ (a2.symm.trans b2), omitStr_inj _ _ (a3.symm.trans b3),
    a4.symm.trans b4⟩

/-- a present anchor origin has a normal form whenever the marshalled struct has one -/
theorem origin_normalizes (sd : SuffixData) (n : Json) (h : normalize sd.toJson = some n) (a : Json)
    (ha : sd.anchorOrigin = some a) : ∃ a', normalize a = some a' := by
  obtain ⟨dh, rc, ao, ty⟩ := sd
  simp only at ha
  subst ha
  cases hna : normalize a with
  | some a' => exact ⟨a', rfl⟩
  | none =>
    exfalso
    by_cases h1 : dh = "" <;> by_cases h2 : rc = "" <;> by_cases h4 : ty = "" <;>
      simp [SuffixData.toJson, h1, h2, h4, normalize, normalizeMembers, hna] at h

/-- presence of the anchor origin is remembered -/
theorem origin_presence (sd1 sd2 : SuffixData) (n : Json)
    (h1 : normalize sd1.toJson = some n) (h2 : normalize sd2.toJson = some n) :
    sd1.anchorOrigin.isSome = sd2.anchorOrigin.isSome := by
  have h := (suffix_data_injective sd1 sd2 n h1 h2).2.2.2
  unfold originNormal at h
  cases e1 : sd1.anchorOrigin with
  | none =>
    cases e2 : sd2.anchorOrigin with
    | none => rfl
    | some a2 =>
      obtain ⟨a', ha'⟩ := origin_normalizes sd2 n h2 a2 e2
      simp [e1, e2, ha'] at h
  | some a1 =>
    cases e2 : sd2.anchorOrigin with
    | none =>
      obtain ⟨a', ha'⟩ := origin_normalizes sd1 n h1 a1 e1
      simp [e1, e2, ha'] at h
    | some a2 => rfl

/-- when the anchor origins are their own normal forms (absent, strings, numbers-free scalars,
    objects already in canonical member order …) the structs are equal -/
theorem suffix_data_injective_normal (sd1 sd2 : SuffixData) (n : Json)
    (h1 : normalize sd1.toJson = some n) (h2 : normalize sd2.toJson = some n)
    (f1 : ∀ a, sd1.anchorOrigin = some a → normalize a = some a)
    (f2 : ∀ a, sd2.anchorOrigin = some a → normalize a = some a) : sd1 = sd2 := by
  obtain ⟨e1, e2, e3, e4⟩ := suffix_data_injective sd1 sd2 n h1 h2
  obtain ⟨dh1, rc1, ao1, ty1⟩ := sd1
  obtain ⟨dh2, rc2, ao2, ty2⟩ := sd2
  simp only at e1 e2 e3 f1 f2
  subst e1 e2 e3
  have : ao1 = ao2 := by
    unfold originNormal at e4
    simp only at e4
    cases ao1 with
    | none =>
      cases ao2 with
      | none => rfl
      | some a2 => simp [f2 a2 rfl] at e4
    | some a1 =>
      cases ao2 with
      | none => simp [f1 a1 rfl] at e4
      | some a2 =>
        simp only [Option.bind_some, f1 a1 rfl, f2 a2 rfl, Option.some.injEq] at e4
        rw [e4]
  rw [this]

/-- anchor origin absent or a string (what the Sidetree client passes) -/
def plainOrigin (sd : SuffixData) : Prop := sd.anchorOrigin = none ∨ ∃ s, sd.anchorOrigin = some (.str s)

theorem plainOrigin_fixed (sd : SuffixData) (h : plainOrigin sd) : ∀ a, sd.anchorOrigin = some a → normalize a = some a := by
  intro a ha
  rcases h with h | ⟨s, h⟩
  · rw [h] at ha; cases ha
  · rw [h] at ha; cases ha; simp [normalize]

/-! ### numbers -/

/-- every number inside the anchor origin is stable -/
def originStable (sd : SuffixData) : Prop := ∀ a, sd.anchorOrigin = some a → a.numsStable

theorem suffix_numsStable (sd : SuffixData) (h : originStable sd) : sd.toJson.numsStable := by
  obtain ⟨dh, rc, ao, ty⟩ := sd
  cases ao with
  | none =>
    by_cases h1 : dh = "" <;> by_cases h2 : rc = "" <;> by_cases h4 : ty = "" <;>
      simp [SuffixData.toJson, h1, h2, h4, Json.numsStable, Json.numsStableMembers]
  | some a =>
    have ha : a.numsStable := h a rfl
    by_cases h1 : dh = "" <;> by_cases h2 : rc = "" <;> by_cases h4 : ty = "" <;>
      simp [SuffixData.toJson, h1, h2, h4, Json.numsStable, Json.numsStableMembers, ha]

theorem plainOrigin_stable (sd : SuffixData) (h : plainOrigin sd) : originStable sd := by
  intro a ha
  rcases h with h | ⟨s, h⟩
  · rw [h] at ha; cases ha
  · rw [h] at ha; cases ha; simp only [Json.numsStable]

/-! ### the binding theorems on values -/

theorem jcs_of_transform_obj (kvs : List (String × Json)) (canon : List Char)
    (h : transformValue (.obj kvs) = some canon) : (Json.obj kvs).jcs = some canon := by
  simpa [transformValue, Json.isContainer] using h

theorem normalize_of_jcs (v : Json) (t : List Char) (h : v.jcs = some t) : ∃ n, normalize v = some n := by
  unfold Json.jcs at h
  cases hn : normalize v with
  | none => simp [hn] at h
  | some n => exact ⟨n, rfl⟩

variable (H : HashFam)

/-- **changing any part of the suffix data changes the DID, or exhibits a collision**: two suffix
    data (numbers inside the anchor origins stable) with the same suffix agree in the delta hash,
    the recovery commitment, the type, the presence of the anchor origin and its normal form -/
theorem suffix_binds_value (ok : HashOK H) (sd1 sd2 : SuffixData) (alg : Nat) (s : String)
    (hs1 : originStable sd1) (hs2 : originStable sd2)
    (h1 : calculateModelMultihash H sd1.toJson alg = some s)
    (h2 : calculateModelMultihash H sd2.toJson alg = some s) :
    (sd1.deltaHash = sd2.deltaHash ∧ sd1.recoveryCommitment = sd2.recoveryCommitment ∧ sd1.type = sd2.type ∧
      sd1.anchorOrigin.isSome = sd2.anchorOrigin.isSome ∧ originNormal sd1 = originNormal sd2) ∨ Collision H := by
  rcases suffix_binds H ok sd1 sd2 alg s h1 h2 with he | hc
  · left
    obtain ⟨_, canon, _, ht1, _⟩ := calculate_eq h1
    have ht2 : transformValue sd2.toJson = some canon := by rw [← he, ht1]
    have j1 : sd1.toJson.jcs = some canon := jcs_of_transform_obj _ canon ht1
    have j2 : sd2.toJson.jcs = some canon := jcs_of_transform_obj _ canon ht2
    have hn := C06.canonical_bytes_determine_value _ _ canon (suffix_numsStable sd1 hs1) (suffix_numsStable sd2 hs2) j1 j2
    obtain ⟨n, hn1⟩ := normalize_of_jcs _ _ j1
    have hn2 : normalize sd2.toJson = some n := by rw [← hn, hn1]
    obtain ⟨e1, e2, e3, e4⟩ := suffix_data_injective sd1 sd2 n hn1 hn2
    exact ⟨e1, e2, e3, origin_presence sd1 sd2 n hn1 hn2, e4⟩
  · exact .inr hc

/-- … and with anchor origins absent or strings: the same suffix data, or a collision -/
theorem suffix_binds_equal (ok : HashOK H) (sd1 sd2 : SuffixData) (alg : Nat) (s : String)
    (hp1 : plainOrigin sd1) (hp2 : plainOrigin sd2)
    (h1 : calculateModelMultihash H sd1.toJson alg = some s)
    (h2 : calculateModelMultihash H sd2.toJson alg = some s) :
    sd1 = sd2 ∨ Collision H := by
  rcases suffix_binds H ok sd1 sd2 alg s h1 h2 with he | hc
  · left
    obtain ⟨_, canon, _, ht1, _⟩ := calculate_eq h1
    have ht2 : transformValue sd2.toJson = some canon := by rw [← he, ht1]
    have j1 : sd1.toJson.jcs = some canon := jcs_of_transform_obj _ canon ht1
    have j2 : sd2.toJson.jcs = some canon := jcs_of_transform_obj _ canon ht2
    have hn := C06.canonical_bytes_determine_value _ _ canon (suffix_numsStable sd1 (plainOrigin_stable sd1 hp1))
      (suffix_numsStable sd2 (plainOrigin_stable sd2 hp2)) j1 j2
    obtain ⟨n, hn1⟩ := normalize_of_jcs _ _ j1
    have hn2 : normalize sd2.toJson = some n := by rw [← hn, hn1]
    exact suffix_data_injective_normal sd1 sd2 n hn1 hn2 (plainOrigin_fixed sd1 hp1) (plainOrigin_fixed sd2 hp2)
  · exact .inr hc

/-! ### deltas -/

/-- the patches as they are marshalled: an absent and an empty list are both left out (`omitempty`) -/
def effPatches (d : Delta) : Option Json :=
  match d.patches with
  | some (p :: ps) => some (.arr (p :: ps))
  | _ => none

theorem delta_toJson_eq (d : Delta) : d.toJson =
    .obj ((if d.updateCommitment = "" then [] else [("updateCommitment", .str d.updateCommitment)]) ++
      (match effPatches d with | some a => [("patches", a)] | none => [])) := by
  obtain ⟨uc, ps⟩ := d
  cases ps with
  | none => rfl
  | some l => cases l <;> rfl

/-- the members of the normal form of a marshalled delta -/
theorem delta_normal_get (d : Delta) (n : Json) (h : normalize d.toJson = some n) :
    n.get? "updateCommitment" = omitStr d.updateCommitment ∧ n.get? "patches" = (effPatches d).bind normalize := by
  rw [delta_toJson_eq] at h
  have g1 := normalize_obj_get _ n h "updateCommitment"
  have g2 := normalize_obj_get _ n h "patches"
  cases he : effPatches d <;> by_cases h1 : d.updateCommitment = "" <;>
    simp [he, h1, Json.lookup, normalize] at g1 g2 <;> simp [omitStr, g1, g2, h1]

theorem patches_normalize (d : Delta) (n : Json) (h : normalize d.toJson = some n) (a : Json) (ha : effPatches d = some a) :
    ∃ a', normalize a = some a' := by
  rw [delta_toJson_eq] at h
  cases hna : normalize a with
  | some a' => exact ⟨a', rfl⟩
  | none =>
    exfalso
    by_cases h1 : d.updateCommitment = "" <;>
      simp [ha, h1, normalize, normalizeMembers, hna] at h

/-- **marshalling a delta forgets nothing but member order inside the patches** (and the difference
    between no patches and an empty list) -/
theorem delta_injective (d1 d2 : Delta) (n : Json)
    (h1 : normalize d1.toJson = some n) (h2 : normalize d2.toJson = some n) :
    d1.updateCommitment = d2.updateCommitment ∧ (effPatches d1).isSome = (effPatches d2).isSome ∧
      (effPatches d1).bind normalize = (effPatches d2).bind normalize := by
  obtain ⟨a1, a2⟩ := delta_normal_get d1 n h1
  obtain ⟨b1, b2⟩ := delta_normal_get d2 n h2
  have h := a2.symm.trans b2
  refine ⟨omitStr_inj _ _ (a1.symm.trans b1), ?_, h⟩
  cases e1 : effPatches d1 with
  | none =>
    cases e2 : effPatches d2 with
    | none => rfl
    | some p2 =>
      obtain ⟨a', ha'⟩ := patches_normalize d2 n h2 p2 e2
      simp [e1, e2, ha'] at h
  | some p1 =>
    cases e2 : effPatches d2 with
    | none =>
      obtain ⟨a', ha'⟩ := patches_normalize d1 n h1 p1 e1
      simp [e1, e2, ha'] at h
    | some p2 => rfl

/-- **changing the delta changes the delta hash (hence the DID) or is rejected, or exhibits a
    collision** — on values: two deltas (numbers stable) validating against the same hash have the
    same update commitment and patch lists with the same normal form (both left out, or both present) -/
theorem delta_binds_value (ok : HashOK H) (d1 d2 : Delta) (h : String)
    (hs1 : d1.toJson.numsStable) (hs2 : d2.toJson.numsStable)
    (h1 : isValidModelMultihash H (deltaJson (some d1)) h = true)
    (h2 : isValidModelMultihash H (deltaJson (some d2)) h = true) :
    (d1.updateCommitment = d2.updateCommitment ∧ (effPatches d1).isSome = (effPatches d2).isSome ∧
      (effPatches d1).bind normalize = (effPatches d2).bind normalize) ∨ Collision H := by
  rcases delta_binds H ok (some d1) (some d2) h h1 h2 with he | hc
  · left
    simp only [deltaJson] at he h1
    obtain ⟨c, hc1⟩ := (C06.valid_iff H ok d1.toJson h).mp h1
    obtain ⟨_, canon, _, ht1, _⟩ := calculate_eq hc1
    have ht2 : transformValue d2.toJson = some canon := by rw [← he, ht1]
    have j1 : d1.toJson.jcs = some canon := by
      have := ht1; rw [delta_toJson_eq] at this ⊢; exact jcs_of_transform_obj _ canon this
    have j2 : d2.toJson.jcs = some canon := by
      have := ht2; rw [delta_toJson_eq] at this ⊢; exact jcs_of_transform_obj _ canon this
    have hn := C06.canonical_bytes_determine_value _ _ canon hs1 hs2 j1 j2
    obtain ⟨n, hn1⟩ := normalize_of_jcs _ _ j1
    have hn2 : normalize d2.toJson = some n := by rw [← hn, hn1]
    exact delta_injective d1 d2 n hn1 hn2
  · exact .inr hc

/-- the stability hypothesis in terms of the patches -/
theorem delta_numsStable (d : Delta) (h : ∀ a, effPatches d = some a → a.numsStable) : d.toJson.numsStable := by
  rw [delta_toJson_eq]
  cases he : effPatches d with
  | none => by_cases h1 : d.updateCommitment = "" <;> simp [h1, Json.numsStable, Json.numsStableMembers]
  | some a =>
    have ha := h a he
    by_cases h1 : d.updateCommitment = "" <;> simp [h1, Json.numsStable, Json.numsStableMembers, ha]

/-! ### the hypotheses are met by ordinary data; what is forgotten is really forgotten -/

/-- two suffix data differing in one field: both marshal to objects with stable numbers (here: the
    anchor origin carries an integer), so `suffix_binds_value` applies to them -/
example :
    let sd1 : SuffixData := { deltaHash := "EiA", recoveryCommitment := "EiB", anchorOrigin := some (.num (JNum.ofNat 7)), type := "" }
    let sd2 : SuffixData := { deltaHash := "EiA", recoveryCommitment := "EiC", anchorOrigin := some (.num (JNum.ofNat 7)), type := "" }
    originStable sd1 ∧ originStable sd2 ∧ sd1.toJson.numsStable ∧ sd1.recoveryCommitment ≠ sd2.recoveryCommitment := by
  intro sd1 sd2
  have st : ∀ a, some (Json.num (JNum.ofNat 7)) = some a → a.numsStable := by
    intro a ha; cases ha; exact Props.C05.intsOnly_numsStable _ (by decide)
  exact ⟨st, st, suffix_numsStable sd1 st, by decide⟩

/-- `none` and the junk state `some null` (not a state Go's `interface{}` with `omitempty` or the
    decoder can produce) are kept apart by the model's marshalled form, so `suffix_data_injective`
    needs no side condition: the second has a member, the first has none -/
example : (SuffixData.toJson ⟨"a", "b", none, ""⟩).get? "anchorOrigin" = none ∧
    (SuffixData.toJson ⟨"a", "b", some .null, ""⟩).get? "anchorOrigin" = some .null := by
  constructor <;> simp [SuffixData.toJson, Json.get?, Json.lookup]

/-- member order inside an anchor origin is forgotten: different structs, same normal form — hence
    the conclusion "up to the normal form of the anchor origin" cannot be improved -/
example :
    let o1 : Json := .obj [("x", .str "1"), ("y", .str "2")]
    let o2 : Json := .obj [("y", .str "2"), ("x", .str "1")]
    normalize o1 = normalize o2 := by
  intro o1 o2
  have hp : [("y", Json.str "2"), ("x", Json.str "1")].Perm [("x", Json.str "1"), ("y", Json.str "2")] := List.Perm.swap _ _ _
  have := sortMembers_eq_of_perm _ _ hp (by decide)
  simp [o1, o2, normalize, normalizeMembers, namesNodup, this]

end Sidetree.Props.C03
