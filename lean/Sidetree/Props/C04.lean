/-
  C04 — commitment / reveal-value algebra (first half: the three `commitment.*` functions).
  The chain statement about the parser-level getters is in `Props/C04Chain.lean`.
-/
import Sidetree.Lemmas.Hashing
import Sidetree.Jwk

namespace Sidetree.Props.C04
open Sidetree Sidetree.Hashing

/-- the reveal value is the multihash of the canonicalized JWK -/
theorem reveal_def (H : HashFam) (jwk : Json) (c : Nat) (h : Bytes → Bytes) (canon : List Char)
    (hc : H c = some h) (hj : transformValue jwk = some canon) :
    revealValue H jwk c = some (b64EncodeStr (mhEncode c (h (bytesOfString (String.ofList canon))))) := by
  simp [revealValue, calculateModelMultihash, multihashOfCanonical, computeMultihash, hj, hc]

/-- the commitment is the multihash of the hash of the canonicalized JWK -/
theorem commitment_def (H : HashFam) (jwk : Json) (c : Nat) (h : Bytes → Bytes) (canon : List Char)
    (hc : H c = some h) (hj : transformValue jwk = some canon) :
    commitment H jwk c =
      some (b64EncodeStr (mhEncode c (h (h (bytesOfString (String.ofList canon)))))) := by
  simp [commitment, computeMultihash, hj, hc]

/-- unsupported algorithm: both are errors -/
theorem unsupported (H : HashFam) (jwk : Json) (c : Nat) (hc : H c = none) :
    revealValue H jwk c = none ∧ commitment H jwk c = none := by
  constructor
  · unfold revealValue calculateModelMultihash multihashOfCanonical computeMultihash
    cases transformValue jwk <;> simp [hc]
  · unfold commitment
    cases transformValue jwk <;> simp [hc]

/-- **deriving a commitment from a reveal value gives exactly that key's commitment** -/
theorem commitment_of_reveal (H : HashFam) (ok : HashOK H) (jwk : Json) (c : Nat) (rv : String)
    (hr : revealValue H jwk c = some rv) :
    commitmentFromReveal H rv = commitment H jwk c ∧ (commitment H jwk c).isSome = true := by
  obtain ⟨h, canon, hc, hj, rfl⟩ := calculate_eq hr
  rw [commitment_def H jwk c h canon hc hj]
  unfold commitmentFromReveal
  rw [getMultihash_computed ok hc]
  simp [computeMultihash, hc]

/-- keys whose canonical JWK differs (any member, including only the nonce) have different
    commitments — or the family has an explicit collision -/
theorem commitment_separates (H : HashFam) (ok : HashOK H) (j1 j2 : Json) (c : Nat) (s : String)
    (h1 : commitment H j1 c = some s) (h2 : commitment H j2 c = some s) :
    transformValue j1 = transformValue j2 ∨ Collision H := by
  unfold commitment at h1 h2
  cases t1 : transformValue j1 with
  | none => simp [t1] at h1
  | some c1 =>
    cases t2 : transformValue j2 with
    | none => simp [t2] at h2
    | some c2 =>
      cases hh : H c with
      | none => simp [t1, hh] at h1
      | some h =>
        simp [t1, hh, computeMultihash] at h1
        simp [t2, hh, computeMultihash] at h2
        have hb := b64EncodeStr_injective _ _ (h1.trans h2.symm)
        have hd := mhEncode_injective c _ _ (ok.code_small _ _ hh) (ok.digest_small _ _ hh _)
          (ok.digest_small _ _ hh _) hb
        by_cases hcanon : c1 = c2
        · left; rw [hcanon]
        · right
          by_cases hinner : h (bytesOfString (String.ofList c1)) = h (bytesOfString (String.ofList c2))
          · exact ⟨c, h, _, _, hh, fun e => hcanon (ofList_injective _ _ (bytesOfString_injective _ _ e)), hinner⟩
          · exact ⟨c, h, _, _, hh, hinner, hd⟩

/-- the same for reveal values -/
theorem reveal_separates (H : HashFam) (ok : HashOK H) (j1 j2 : Json) (c : Nat) (s : String)
    (h1 : revealValue H j1 c = some s) (h2 : revealValue H j2 c = some s) :
    transformValue j1 = transformValue j2 ∨ Collision H := by
  obtain ⟨g1, c1, hg1, t1, e1⟩ := calculate_eq h1
  obtain ⟨g2, c2, hg2, t2, e2⟩ := calculate_eq h2
  have : g1 = g2 := by rw [hg1] at hg2; exact Option.some.inj hg2
  subst this
  have hb := b64EncodeStr_injective _ _ (e1.symm.trans e2)
  have hd := mhEncode_injective c _ _ (ok.code_small _ _ hg1) (ok.digest_small _ _ hg1 _)
    (ok.digest_small _ _ hg1 _) hb
  by_cases hcanon : c1 = c2
  · left; rw [t1, t2, hcanon]
  · right
    exact ⟨c, g1, _, _, hg1, fun e => hcanon (ofList_injective _ _ (bytesOfString_injective _ _ e)), hd⟩

/-- a nonce is part of the marshalled JWK, so it takes part in the commitment:
    the JSON the library hashes contains the nonce member exactly when it is non-empty -/
theorem nonce_is_hashed (k : Jwk) (n : String) (hn : n ≠ "") :
    ({ k with nonce := n }).toJson.get? "nonce" = some (.str n) := by
  simp [Jwk.toJson, Json.get?, Json.lookup, hn]
  split <;> split <;> simp [Json.lookup]

end Sidetree.Props.C04
