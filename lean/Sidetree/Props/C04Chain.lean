/-
  C04, second half — the parser-level getters link consecutive operations.
-/
import Sidetree.Props.C04
import Sidetree.Props.C06
import Sidetree.Lemmas.Parser

namespace Sidetree.Props.C04Chain
open Sidetree Sidetree.Parser Sidetree.Hashing

variable (H : HashFam) (cfg : Protocol) (orc : Oracles)

theorem revealMatches_is_reveal (ok : HashOK H) (key : Option Jwk) (rv : String)
    (h : revealMatches H key rv = true) : ∃ k c, key = some k ∧ revealValue H k.toJson c = some rv := by
  cases key with
  | none => simp [revealMatches] at h
  | some k =>
    obtain ⟨c, hc⟩ := (C06.valid_iff H ok k.toJson rv).mp h
    exact ⟨k, c, rfl, hc⟩

/-- the reveal value the parser reports for an update, recover or deactivate is the reveal
    value of the key that signed it, and maps to exactly that key's commitment -/
theorem reveal_maps_to_signing_key_commitment (ok : HashOK H) (size : Nat) (req : Option Json) (rv : String)
    (h : getRevealValue H cfg orc size req = some rv) :
    ∃ (k : Jwk) (c : Nat), revealValue H k.toJson c = some rv ∧ commitmentFromReveal H rv = commitment H k.toJson c ∧
      (commitment H k.toJson c).isSome = true := by
  unfold getRevealValue parseBatch at h
  cases hp : parseOperation H cfg orc size req true with
  | none => simp [hp] at h
  | some p =>
    simp only [hp] at h
    by_cases hc : p.type = .create
    · simp [hc] at h
    · simp only [hc, if_false, Option.some.injEq] at h
      subst h
      -- which parser produced p?
      unfold parseOperation at hp
      by_cases hsz : size > cfg.maxOperationSize
      · simp [hsz, guard'] at hp
      · simp only [hsz, decide_false, Bool.not_false, guard', if_true, Option.bind_eq_bind, Option.bind_some] at hp
        cases req with
        | none => simp at hp
        | some j =>
          simp only [Option.bind_some] at hp
          cases hty : requestType (some j) with
          | none => simp [hty] at hp
          | some ty =>
            simp only [hty, Option.bind_some] at hp
            have key_fact : ∃ key, revealMatches H key p.revealValue = true := by
              cases ty with
              | create =>
                obtain ⟨_, _, _, _, _, _, _, _, e⟩ := parseCreate_inv H cfg orc j true p hp
                rw [e] at hc; exact absurd rfl hc
              | update =>
                obtain ⟨c, sd, _, _, _, hr, e⟩ := parseUpdate_inv H cfg orc j true p hp
                exact ⟨sd.key, by rw [e]; exact hr⟩
              | recover =>
                obtain ⟨c, sd, _, _, _, hr, e⟩ := parseRecover_inv H cfg orc j true p hp
                exact ⟨sd.key, by rw [e]; exact hr⟩
              | deactivate =>
                obtain ⟨c, sd, _, _, _, hr, _, e⟩ := parseDeactivate_inv H cfg orc j true p hp
                exact ⟨sd.key, by rw [e]; exact hr⟩
            obtain ⟨key, hk⟩ := key_fact
            obtain ⟨k, c, _, hrv⟩ := revealMatches_is_reveal H ok key p.revealValue hk
            obtain ⟨h1, h2⟩ := C04.commitment_of_reveal H ok k.toJson c p.revealValue hrv
            exact ⟨k, c, hrv, h1, h2⟩

/-- **chain link**: if the preceding operation on the chain published the commitment of the key
    that signs this operation (that is what makes the chain well-formed), then the reveal value
    reported for this operation maps to the commitment reported for its predecessor -/
theorem chain_linked (ok : HashOK H) (size size' : Nat) (req prev : Option Json) (rv : String)
    (h : getRevealValue H cfg orc size req = some rv)
    (wf : ∀ (k : Jwk) (c : Nat), revealValue H k.toJson c = some rv →
      getCommitment H cfg orc size' prev = commitment H k.toJson c) :
    some (commitmentFromReveal H rv) = some (getCommitment H cfg orc size' prev) := by
  obtain ⟨k, c, hrv, hc, _⟩ := reveal_maps_to_signing_key_commitment H cfg orc ok size req rv h
  rw [hc, wf k c hrv]

/-- a deactivate reports no next commitment -/
theorem deactivate_no_commitment (size : Nat) (req : Option Json) (p : ParsedOp)
    (hp : parseBatch H cfg orc size req = some p) (ht : p.type = .deactivate) :
    getCommitment H cfg orc size req = some "" := by
  simp [getCommitment, hp, ht]

/-- an update reports its delta's update commitment, a recover its signed recovery commitment -/
theorem commitment_reported (size : Nat) (req : Option Json) (p : ParsedOp)
    (hp : parseBatch H cfg orc size req = some p) :
    (p.type = .update → getCommitment H cfg orc size req = p.delta.map (·.updateCommitment)) ∧
    (p.type = .recover → getCommitment H cfg orc size req =
      (parseSignedDataForRecover H cfg p.signedData).map (·.recoveryCommitment)) ∧
    (p.type = .create → getCommitment H cfg orc size req = none) := by
  refine ⟨?_, ?_, ?_⟩ <;> intro ht <;> simp [getCommitment, hp, ht]

end Sidetree.Props.C04Chain
