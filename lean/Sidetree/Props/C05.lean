/-
  C05 — canonicalization is RFC 8785. Property theorems (helper lemmas live in `Lemmas/`).

  Proved here, for all inputs: member order of the output (sorted by UTF-16 code units,
  strictly, and the order is a strict total order on names); independence of the *input* member
  order at any one object; minimal escaping; equal bytes for equivalent values; the ES6 notation
  table and the ±0 rule.
  the reader undoes the printer on every value without numbers (`canonical_text_reads_back_partial`).
  Not proved (covered by the correspondence stream's `again`/`value` fields on every case): the
  shortest-digits round trip `toF64 (es6 d) = d`, and with it the read-back of values containing
  numbers.
-/
import Sidetree.Lemmas.RoundTrip
import Sidetree.Lemmas.Normalize

namespace Sidetree.Props.C05
open Sidetree Sidetree.Json

/-! ### member order -/

/-- the order on names is a strict total order: irreflexive, transitive, and trichotomous
    *on names* (two names that are not ordered are the same string) -/
theorem utf16Lt_strict_total :
    (∀ a, utf16Lt a a = false) ∧
    (∀ a b c, utf16Lt a b = true → utf16Lt b c = true → utf16Lt a c = true) ∧
    (∀ a b, utf16Lt a b = false → utf16Lt b a = false → a = b) := by
  refine ⟨fun a => natListLt_irrefl _, fun a b c => natListLt_trans _ _ _, ?_⟩
  intro a b h1 h2
  exact utf16Le_antisymm a b (by simp [utf16Le, h2]) (by simp [utf16Le, h1])

/-- names whose UTF-16 order differs from code-point order are ordered by UTF-16:
    U+FB33 (a BMP character above the surrogates) sorts *after* U+1F600 -/
example : utf16Lt (String.ofList [Char.ofNat 0x1F600]) (String.ofList [Char.ofNat 0xFB33]) = true ∧
    (Char.ofNat 0xFB33 < Char.ofNat 0x1F600) := by decide

/-- every object in a normal form has its members sorted by UTF-16 code units, strictly -/
theorem normalize_obj_sorted (kvs kvs' : List (String × Json))
    (h : normalize (.obj kvs) = some (.obj kvs')) :
    kvs'.Pairwise (fun a b => utf16Lt a.1 b.1 = true) := by
  simp only [normalize] at h
  cases hm : normalizeMembers kvs with
  | none => simp [hm] at h
  | some r =>
    simp only [hm] at h
    by_cases hnd : namesNodup r = true
    · simp only [hnd, if_true, Option.some.injEq, Json.obj.injEq] at h
      subst h
      have hs := sortMembers_sorted r
      have hnd' : ((sortMembers r).map (·.1)).Nodup :=
        ((sortMembers_perm r).map _).nodup_iff.mpr ((namesNodup_iff r).mp hnd)
      -- sorted + no duplicate names ⇒ strictly sorted
      have hne : (sortMembers r).Pairwise (fun a b => a.1 ≠ b.1) := by
        have := List.pairwise_map.mp hnd'
        exact this
      refine (hs.and hne).imp ?_
      intro a b ⟨hle, hab⟩
      cases hlt : utf16Lt a.1 b.1
      · exfalso
        apply hab
        exact utf16Le_antisymm a.1 b.1 hle (by simp [utf16Le, hlt])
      · rfl
    · simp [hnd] at h

/-- **member order of the input is irrelevant** (at any object) -/
theorem member_order_irrelevant {k1 k2 : List (String × Json)} (hp : k1.Perm k2) :
    jcs (.obj k1) = jcs (.obj k2) := by
  simp [jcs, normalize_obj_perm hp]

/-- … also when the object sits inside an array or under a member of another object -/
theorem member_order_irrelevant_nested {k1 k2 : List (String × Json)} (hp : k1.Perm k2)
    (pre post : List Json) (name : String) (others : List (String × Json)) :
    jcs (.arr (pre ++ .obj k1 :: post)) = jcs (.arr (pre ++ .obj k2 :: post)) ∧
    jcs (.obj ((name, .obj k1) :: others)) = jcs (.obj ((name, .obj k2) :: others)) := by
  have e := normalize_obj_perm hp
  constructor
  · simp only [jcs, normalize]
    congr 1
    induction pre with
    | nil => simp [normalizeList, e]
    | cons p ps ih =>
      simp only [List.cons_append, normalizeList]
      have ih' : normalizeList (ps ++ obj k1 :: post) = normalizeList (ps ++ obj k2 :: post) := by
        cases h1 : normalizeList (ps ++ obj k1 :: post) <;> cases h2 : normalizeList (ps ++ obj k2 :: post) <;>
          simp_all
      rw [ih']
  · simp only [jcs]
    congr 1
    exact normalize_obj_cons_congr e name others

/-- equivalent values have byte-identical canonical forms -/
theorem jcs_respects_equiv (a b : Json) (h : Json.equiv a b) : jcs a = jcs b := by
  simp [jcs, h.1]

/-- duplicate member names are refused -/
theorem duplicate_names_refused (k : String) (v w : Json) (rest : List (String × Json)) :
    jcs (.obj ((k, v) :: (k, w) :: rest)) = none := by
  simp only [jcs, normalize, normalizeMembers]
  cases normalize v <;> cases normalize w <;> cases normalizeMembers rest <;> simp [namesNodup]

/-- the library's entry point accepts only objects and arrays -/
theorem transform_needs_container (j : Json) (h : j.isContainer = false) : transformValue j = none := by
  simp [transformValue, h]

/-! ### string escaping (RFC 8785 §3.2.2.2) -/

theorem escapeChar_len_ctrl (c : Char) (h : c.toNat < 0x20) : (escapeChar c).length ≥ 2 := by
  unfold escapeChar
  repeat' split
  all_goals simp [hex4]

/-- a character is written as itself iff it is not `"`, `\` or a C0 control -/
theorem escape_minimal (c : Char) :
    escapeChar c = [c] ↔ (c ≠ '"' ∧ c ≠ '\\' ∧ 0x20 ≤ c.toNat) := by
  constructor
  · intro h
    have hl : (escapeChar c).length = 1 := by rw [h]; rfl
    refine ⟨?_, ?_, ?_⟩
    · intro e; subst e; simp [escapeChar] at hl
    · intro e; subst e; simp [escapeChar] at hl
    · by_cases h3 : c.toNat < 0x20
      · have := escapeChar_len_ctrl c h3; omega
      · omega
  · rintro ⟨h1, h2, h3⟩
    have e8 : c.toNat ≠ 8 := by omega
    have e12 : c.toNat ≠ 12 := by omega
    have en : c ≠ '\n' := by intro h; subst h; simp at h3
    have er : c ≠ '\r' := by intro h; subst h; simp at h3
    have et : c ≠ '\t' := by intro h; subst h; simp at h3
    have : ¬ c.toNat < 0x20 := by omega
    simp [escapeChar, h1, h2, e8, e12, en, er, et, this]

/-- the two-character escapes and the lower-case `\u00xx` form for the other controls -/
theorem escape_forms :
    escapeChar '"' = ['\\', '"'] ∧ escapeChar '\\' = ['\\', '\\'] ∧
    escapeChar (Char.ofNat 8) = ['\\', 'b'] ∧ escapeChar (Char.ofNat 12) = ['\\', 'f'] ∧
    escapeChar '\n' = ['\\', 'n'] ∧ escapeChar '\r' = ['\\', 'r'] ∧ escapeChar '\t' = ['\\', 't'] ∧
    escapeChar (Char.ofNat 0) = "\\u0000".toList ∧ escapeChar (Char.ofNat 0x1f) = "\\u001f".toList ∧
    escapeChar (Char.ofNat 0x0b) = "\\u000b".toList ∧
    escapeChar (Char.ofNat 0x7f) = [Char.ofNat 0x7f] ∧ escapeChar (Char.ofNat 0x2028) = [Char.ofNat 0x2028] := by
  decide

/-- every control character other than the five with short forms becomes `\u00` + two
    lower-case hex digits -/
theorem escape_control (c : Char) (h : c.toNat < 0x20)
    (h8 : c.toNat ≠ 8) (h9 : c.toNat ≠ 9) (h10 : c.toNat ≠ 10) (h12 : c.toNat ≠ 12) (h13 : c.toNat ≠ 13) :
    escapeChar c = ['\\', 'u', '0', '0', hexDigit (c.toNat / 16), hexDigit (c.toNat % 16)] := by
  have hq : c ≠ '"' := by intro e; subst e; simp at h
  have hb : c ≠ '\\' := by intro e; subst e; simp at h
  have hn : c ≠ '\n' := by intro e; subst e; simp at h10
  have hr : c ≠ '\r' := by intro e; subst e; simp at h13
  have ht : c ≠ '\t' := by intro e; subst e; simp at h9
  have d1 : c.toNat / 4096 % 16 = 0 := by omega
  have d2 : c.toNat / 256 % 16 = 0 := by omega
  have d3 : c.toNat / 16 % 16 = c.toNat / 16 := by omega
  simp [escapeChar, hq, hb, hn, hr, ht, h8, h12, h, hex4, d1, d2, d3, hexDigit]

/-! ### numbers -/

/-- both zeros are written `0` -/
theorem es6_zero (neg : Bool) : es6 { neg := neg, m := 0, e := -1074 } = ['0'] := by
  simp [es6, F64.isZero]

/-- ECMA-262 Number::toString notation, the four cases, on concrete digit strings -/
example : es6Notation "123".toList 5 = "12300".toList ∧          -- k ≤ n ≤ 21: integer with zeros
          es6Notation "12345".toList 2 = "12.345".toList ∧        -- 0 < n ≤ 21: decimal point inside
          es6Notation "1".toList (-5) = "0.000001".toList ∧       -- −6 < n ≤ 0: leading zeros
          es6Notation "1".toList (-6) = "1e-7".toList ∧           -- below: exponent form
          es6Notation "1".toList 22 = "1e+21".toList ∧            -- n > 21: exponent form with '+'
          es6Notation "15".toList 22 = "1.5e+21".toList ∧
          es6Notation "1".toList 21 = "100000000000000000000".toList := by decide

/-! ### the canonical text is read back -/

/-- **`parse ∘ jcs = normalize` on values without numbers**: the RFC 8785 encoding of such a value
    is accepted by the strict reader and read back as the value's normal form — in particular
    canonicalization loses nothing but member order. (Partial: a value containing a number
    needs the shortest-digits round trip of IEEE-754 doubles, which is validated by the number
    stream and not proved.) -/
theorem canonical_text_reads_back_partial (v : Json) (text : List Char) (h : RT.numFree v = true)
    (hj : v.jcs = some text) : Parse.parse text = v.normalize := RT.parse_jcs v text h hj

/-- canonicalizing twice is canonicalizing once (same restriction) -/
theorem transform_idempotent_partial (v v' : Json) (text : List Char) (h : RT.numFree v = true)
    (hn : v.normalize = some v') (hj : v.jcs = some text) : Parse.parse text = some v' := by
  rw [canonical_text_reads_back_partial v text h hj, hn]

/-- **normalisation is idempotent** (same restriction): the normal form is its own normal form -/
theorem normalize_idempotent_partial (v v' : Json) (h : RT.numFree v = true) (hn : v.normalize = some v') :
    v'.normalize = some v' := RT.normalize_fixed v v' h hn

/-- **canonical text is a fixed point of the transformer**: `Transform(Transform(x)) = Transform(x)`
    for every number-free object or array -/
theorem transform_fixed_point_partial (v : Json) (text : List Char) (h : RT.numFree v = true)
    (hd : ∀ v', v.normalize = some v' → v'.depth ≤ maxNesting)
    (ht : transformValue v = some text) : transform text = some text := by
  unfold transformValue at ht
  split at ht
  · rename_i hc
    unfold transform
    cases hn : v.normalize with
    | none => simp [Json.jcs, hn] at ht
    | some v' =>
      rw [canonical_text_reads_back_partial v text h ht, hn]
      have hfix := RT.normalize_fixed v v' h hn
      have hc' : v'.isContainer = true := by
        cases v with
        | arr xs => simp only [Json.normalize, Option.map_eq_some_iff] at hn; obtain ⟨_, _, rfl⟩ := hn; rfl
        | obj kvs =>
          simp only [Json.normalize] at hn
          cases hm : Json.normalizeMembers kvs with
          | none => simp [hm] at hn
          | some kvs' =>
            simp only [hm] at hn
            split at hn
            · cases hn; rfl
            · cases hn
        | _ => simp [Json.isContainer] at hc
      simp only [Option.bind_some, hd v' hn, if_true, transformValue, hc', Json.jcs, hfix, Option.map_some]
      simpa [Json.jcs, hn] using ht
  · cases ht

/-- text nested deeper than the bound is refused, whatever it contains (C19: the recursion of
    the transformer is bounded) -/
theorem transform_refuses_deep (text : List Char) (j : Json) (hp : Parse.parse text = some j)
    (hd : j.depth > maxNesting) : transform text = none := by
  have : ¬ j.depth ≤ maxNesting := by omega
  simp [transform, hp, this]

/-- the hypothesis is met by ordinary values (escapes and nesting included) -/
example : RT.numFree (.obj [("b", .arr [.str "x\n\u0001\"", .null]), ("a", .bool true)]) = true := by decide

end Sidetree.Props.C05
