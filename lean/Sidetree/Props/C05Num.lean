/-
  C05, numbers: the canonical text of a value whose numbers are plain integers below 2^53 in
  magnitude is read back as the value's normal form, and canonicalization is idempotent on
  such values.  This discharges, for integers, what `canonical_text_reads_back_partial` left to
  the number stream: the IEEE-754 double of such an integer (`toF64`), its shortest digits
  (`shortest`), the ES6 notation and the reader are followed step by step in
  `Lemmas/NumIntA.lean`, `NumIntDigits.lean`, `NumIntParse.lean`, `NumInt.lean`; the reader /
  printer induction over values is `Lemmas/RoundTripNum.lean`.
  Still open (stream only): fractions, exponents, integers beyond 2^53 in magnitude (±2^53
  itself: `int_stable_le`).
-/
import Sidetree.Props.C05
import Sidetree.Lemmas.RoundTripNum

namespace Sidetree.Props.C05
open Sidetree Sidetree.Json

/-- the literal has integer syntax, no exponent, magnitude below 2^53 and is not `-0` -/
def plainInt (n : JNum) : Bool :=
  n.isInt && decide (n.exp10 = 0) && decide (n.mant < 2 ^ 53) && !(n.neg && decide (n.mant = 0))

mutual
/-- every number in the value is a plain integer below 2^53 in magnitude -/
def intsOnly : Json → Bool
  | .num n => plainInt n
  | .arr xs => intsOnlyList xs
  | .obj kvs => intsOnlyMembers kvs
  | _ => true
def intsOnlyList : List Json → Bool
  | [] => true
  | x :: xs => intsOnly x && intsOnlyList xs
def intsOnlyMembers : List (String × Json) → Bool
  | [] => true
  | (_, x) :: xs => intsOnly x && intsOnlyMembers xs
end

/-- **an integer below 2^53 in magnitude prints as its decimal digits** (sign, then digits, no
    exponent, no fraction): the number rule of RFC 8785 §3.2.2.3 on the integers every double
    represents exactly -/
theorem integer_prints_as_digits (i : Int) (h : i.natAbs < 2 ^ 53) :
    (JNum.ofInt i).canon = some ((if i < 0 then ['-'] else []) ++ natDigits i.natAbs) :=
  canon_ofInt i h

/-- such an integer is *stable*: its canonical text is read back as the very literal -/
theorem int_stable (i : Int) (h : i.natAbs < 2 ^ 53) : (JNum.ofInt i).Stable :=
  RT.stable_of_int i (canon_ofInt i h) (fun rest hr => parseNumber_intDigits i rest hr)

theorem plainInt_ofInt (n : JNum) (h : plainInt n = true) : ∃ i : Int, n = JNum.ofInt i ∧ i.natAbs < 2 ^ 53 := by
  obtain ⟨neg, mant, exp10, isInt⟩ := n
  simp only [plainInt, Bool.and_eq_true, decide_eq_true_eq, Bool.not_eq_true', Bool.and_eq_false_iff,
    decide_eq_false_iff_not] at h
  obtain ⟨⟨⟨h1, h2⟩, h3⟩, h4⟩ := h
  subst h1 h2
  cases neg with
  | false =>
    refine ⟨(mant : Int), ?_, by simpa using h3⟩
    simp [JNum.ofInt]
  | true =>
    have hm : mant ≠ 0 := by
      rcases h4 with h4 | h4
      · cases h4
      · exact h4
    refine ⟨-(mant : Int), ?_, by simpa using h3⟩
    simp [JNum.ofInt]
    omega

theorem plainInt_stable (n : JNum) (h : plainInt n = true) : n.Stable := by
  obtain ⟨i, rfl, hi⟩ := plainInt_ofInt n h
  exact int_stable i hi

mutual
theorem intsOnly_numsStable : ∀ (v : Json), intsOnly v = true → v.numsStable
  | .null, _ => by simp [Json.numsStable]
  | .bool _, _ => by simp [Json.numsStable]
  | .str _, _ => by simp [Json.numsStable]
  | .num n, h => by
    simp only [intsOnly] at h
    simpa [Json.numsStable] using plainInt_stable n h
  | .arr xs, h => by
    simp only [intsOnly] at h
    simpa [Json.numsStable] using intsOnlyList_numsStable xs h
  | .obj kvs, h => by
    simp only [intsOnly] at h
    simpa [Json.numsStable] using intsOnlyMembers_numsStable kvs h
theorem intsOnlyList_numsStable : ∀ (l : List Json), intsOnlyList l = true → Json.numsStableList l
  | [], _ => by simp [Json.numsStableList]
  | x :: xs, h => by
    simp only [intsOnlyList, Bool.and_eq_true] at h
    simp only [Json.numsStableList]
    exact ⟨intsOnly_numsStable x h.1, intsOnlyList_numsStable xs h.2⟩
theorem intsOnlyMembers_numsStable : ∀ (l : List (String × Json)), intsOnlyMembers l = true → Json.numsStableMembers l
  | [], _ => by simp [Json.numsStableMembers]
  | (k, x) :: xs, h => by
    simp only [intsOnlyMembers, Bool.and_eq_true] at h
    simp only [Json.numsStableMembers]
    exact ⟨intsOnly_numsStable x h.1, intsOnlyMembers_numsStable xs h.2⟩
end

/-! ### the two integers ±2^53

2^53 is still exactly a double (its neighbour 2^53 + 1 is the first integer that is not); the
builders of C08 accept it as an anchoring bound. It is outside `canon_ofNat` (whose proof uses
`n < 2^53` for the 53-bit mantissa), so the kernel evaluates the printer on it. -/

theorem canon_two_pow_53 : (JNum.ofNat 9007199254740992).canon = some (natDigits 9007199254740992) := by decide
theorem canon_neg_two_pow_53 :
    (JNum.ofInt (-9007199254740992)).canon = some ('-' :: natDigits 9007199254740992) := by decide

/-- every integer of magnitude up to and including 2^53 is stable -/
theorem int_stable_le (i : Int) (h : i.natAbs ≤ 2 ^ 53) : (JNum.ofInt i).Stable := by
  by_cases hlt : i.natAbs < 2 ^ 53
  · exact int_stable i hlt
  · have he : i.natAbs = 9007199254740992 := by omega
    have hi : i = 9007199254740992 ∨ i = -9007199254740992 := by omega
    rcases hi with rfl | rfl
    · refine RT.stable_of_int _ ?_ (fun rest hr => parseNumber_intDigits _ rest hr)
      have : JNum.ofInt 9007199254740992 = JNum.ofNat 9007199254740992 := by decide
      rw [this, canon_two_pow_53]
      rfl
    · refine RT.stable_of_int _ ?_ (fun rest hr => parseNumber_intDigits _ rest hr)
      rw [canon_neg_two_pow_53]
      rfl

/-- **`parse ∘ jcs = normalize` on values whose numbers are integers below 2^53**: the RFC 8785
    encoding of such a value is accepted by the strict reader and read back as the value's normal
    form. (Extends `canonical_text_reads_back_partial`, which it contains: a value without numbers
    has only such numbers.) -/
theorem canonical_text_reads_back_ints (v : Json) (text : List Char) (h : intsOnly v = true)
    (hj : v.jcs = some text) : Parse.parse text = v.normalize :=
  RT.parse_jcs_num v text (intsOnly_numsStable v h) hj

/-- **normalisation is idempotent** on such values -/
theorem normalize_idempotent_ints (v v' : Json) (h : intsOnly v = true) (hn : v.normalize = some v') :
    v'.normalize = some v' := RT.normalize_fixed_num v v' (intsOnly_numsStable v h) hn

/-- the normal form of such a value has the very same numbers: a stable number is its own normal form -/
theorem normalize_keeps_ints (n : JNum) (h : plainInt n = true) : (Json.num n).normalize = some (.num n) :=
  RT.normalize_num_stable n (plainInt_stable n h)

/-- **canonicalizing the canonical text gives the canonical text** on such values:
    `jcs (parse (jcs v)) = jcs v` -/
theorem canonical_text_is_fixed_ints (v : Json) (text : List Char) (h : intsOnly v = true) (hj : v.jcs = some text) :
    (Parse.parse text).bind Json.jcs = some text :=
  RT.jcs_idem_num v text (intsOnly_numsStable v h) hj

/-- the hypothesis is met by ordinary values: numbers at every depth, negative, zero, the largest -/
example : intsOnly (.obj [("b", .arr [.num (JNum.ofInt (-12)), .null, .num (JNum.ofNat 9007199254740991)]),
    ("a", .num (JNum.ofNat 0)), ("anchorFrom", .num (JNum.ofNat 1700000000))]) = true := by decide

/-- … and not by the first integer a double cannot tell from its neighbour, nor by `-0` or `1e3` -/
example : plainInt (JNum.ofNat 9007199254740992) = false ∧
    plainInt { neg := true, mant := 0, exp10 := 0, isInt := true } = false ∧
    plainInt { neg := false, mant := 1, exp10 := 3, isInt := false } = false := by decide

end Sidetree.Props.C05
