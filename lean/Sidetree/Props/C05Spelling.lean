/-
  C05 / C03: insignificant whitespace. The same value written with any whitespace RFC 8259
  allows — before and after every value, after `[` `{` `,` `:`, before `]` `}` `,` `:`, around
  the whole text, a different amount at every place — is read as the same value
  (`Lemmas/Whitespace.lean`: the relation `WS.Spells v t`, "t spells v", and `parse_spelling`),
  hence canonicalized to identical bytes, hashed to the same model hash and, for a create
  request, given the same DID suffix. Strings and numbers are spelled as the canonical printer
  spells them: escape spellings and number spellings (`1E3`, `1.0`) stay with the stream.
-/
import Sidetree.Props.C05Num
import Sidetree.Props.C03
import Sidetree.Lemmas.Whitespace
import Sidetree.Lemmas.EscapeSpelling
import Sidetree.Lemmas.NumSpellingValue

namespace Sidetree.Props.C05
open Sidetree Sidetree.Json

/-- every whitespace spelling of a value whose numbers are plain integers below 2^53 is accepted
    by the strict reader and read as that value -/
theorem spelling_reads_as_value (v : Json) (t : List Char) (h : intsOnly v = true) (hs : WS.Spells v t) :
    Parse.parse t = some v := WS.parse_spelling v t (intsOnly_numsStable v h) hs

/-- **equivalent texts canonicalize to identical bytes**: two spellings of one value that differ
    in insignificant whitespace only give the same output of the transformer (the same refusal
    included) -/
theorem whitespace_irrelevant_ints (v : Json) (t1 t2 : List Char) (h : intsOnly v = true)
    (h1 : WS.Spells v t1) (h2 : WS.Spells v t2) : transform t1 = transform t2 := by
  unfold transform
  rw [WS.spellings_agree v t1 t2 (intsOnly_numsStable v h) h1 h2]

/-- … namely the canonical bytes of the value itself -/
theorem spelling_canonicalizes_as_value (v : Json) (t : List Char) (h : intsOnly v = true) (hs : WS.Spells v t) :
    transform t = if v.depth ≤ maxNesting then transformValue v else none := by
  unfold transform
  rw [spelling_reads_as_value v t h hs]
  rfl

/-- the compact canonical print is one of the spellings, so every spelling canonicalizes like it -/
theorem spelling_like_compact (v : Json) (t : List Char) (h : intsOnly v = true) (hs : WS.Spells v t) :
    transform t = transform (print v) :=
  whitespace_irrelevant_ints v t (print v) h hs (WS.spells_print v)

/-! ### … and the spelling of strings

`ES.SpellsE v t`: t spells v with any insignificant whitespace AND any escape spelling of every
string and member name the reader accepts — raw, the eight two-character escapes, `\uXXXX` in
either hex letter case, surrogate pairs for characters beyond U+FFFF (`Lemmas/EscapeSpelling.lean`). -/

/-- every such spelling is read as the value -/
theorem spellingE_reads_as_value (v : Json) (t : List Char) (h : intsOnly v = true) (hs : ES.SpellsE v t) :
    Parse.parse t = some v := ES.parse_spellingE v t (intsOnly_numsStable v h) hs

/-- **texts that differ in whitespace and in the escape spelling of strings canonicalize to
    identical bytes** -/
theorem spelling_irrelevant_ints (v : Json) (t1 t2 : List Char) (h : intsOnly v = true)
    (h1 : ES.SpellsE v t1) (h2 : ES.SpellsE v t2) : transform t1 = transform t2 := by
  unfold transform
  rw [ES.spellingsE_agree v t1 t2 (intsOnly_numsStable v h) h1 h2]

/-- the whitespace-only statement is the special case -/
example (v : Json) (t1 t2 : List Char) (h : intsOnly v = true) (h1 : WS.Spells v t1) (h2 : WS.Spells v t2) :
    transform t1 = transform t2 :=
  spelling_irrelevant_ints v t1 t2 h (ES.spellsE_of_spells v t1 h1) (ES.spellsE_of_spells v t2 h2)

/-! ### … and the spelling of numbers

`NS.SpellsN v t`: as `ES.SpellsE`, and every number leaf may be written as any literal the reader
reads as that leaf (`NS.SpellsNum`); `NS.SameUpToNumSpelling a b`: the same value up to the spelling
of integer-valued numbers below 2^53 in magnitude (`1E3`, `1.0e3`, `10000e-1`, `1000`).
(`Lemmas/NumSpelling.lean`, `NumSpellingValue.lean`.) No hypothesis on the other numbers: they
must be the same literal on both sides. -/

/-- **equivalent texts give identical bytes**: two texts that spell the same value up to
    insignificant whitespace, the escape spelling of strings and member names, and the spelling of
    integer-valued numbers are canonicalized to identical bytes (or refused alike) -/
theorem equivalent_texts_identical_bytes (v1 v2 : Json) (t1 t2 : List Char) (h1 : NS.SpellsN v1 t1)
    (h2 : NS.SpellsN v2 t2) (hs : NS.SameUpToNumSpelling v1 v2) : transform t1 = transform t2 :=
  NS.transform_spelling_irrelevant v1 v2 t1 t2 h1 h2 hs

/-- the normal form of a value whose numbers are integer-valued (in whatever spelling) has plain
    integers only — so all the `…_ints` theorems apply to what canonicalization produced -/
theorem normal_form_has_plain_integers (a a' : Json) (h : NS.IntValued a) (hn : a.normalize = some a') :
    intsOnly a' = true := NS.normalizes_to_plain a a' h hn

/-- `[1E3,1.0e3]` and `[ 1000 , 10000e-1 ]` are such texts -/
example : NS.SameUpToNumSpelling (.arr [.num NS.lit1E3, .num NS.lit1p0e3])
    (.arr [.num (JNum.ofInt 1000), .num NS.lit10000em1]) := NS.sample_same

end Sidetree.Props.C05

namespace Sidetree.Props.C03
open Sidetree Sidetree.Parser

variable (H : HashFam) (cfg : Protocol) (orc : Oracles)

/-- **spelling invariance of parsing, whitespace part**: two request texts that spell the same
    JSON value with different insignificant whitespace are parsed to the same operation — same
    type, same unique suffix (hence the same DID), same delta, same signed data — whenever they
    are handed to the parser with the same size (the size limit is on the byte length, which the
    whitespace does change). -/
theorem request_whitespace_irrelevant (v : Json) (t1 t2 : List Char) (size : Nat) (batch : Bool)
    (h : Props.C05.intsOnly v = true) (h1 : WS.Spells v t1) (h2 : WS.Spells v t2) :
    parseOperation H cfg orc size (Parse.parse t1) batch = parseOperation H cfg orc size (Parse.parse t2) batch := by
  rw [WS.spellings_agree v t1 t2 (Props.C05.intsOnly_numsStable v h) h1 h2]

/-- … and to what the value itself is parsed to -/
theorem request_spelling_parsed_as_value (v : Json) (t : List Char) (size : Nat) (batch : Bool)
    (h : Props.C05.intsOnly v = true) (hs : WS.Spells v t) :
    parseOperation H cfg orc size (Parse.parse t) batch = parseOperation H cfg orc size (some v) batch := by
  rw [Props.C05.spelling_reads_as_value v t h hs]

/-- the same with the escape spelling of strings and member names varying too -/
theorem request_spelling_irrelevant (v : Json) (t1 t2 : List Char) (size : Nat) (batch : Bool)
    (h : Props.C05.intsOnly v = true) (h1 : ES.SpellsE v t1) (h2 : ES.SpellsE v t2) :
    parseOperation H cfg orc size (Parse.parse t1) batch = parseOperation H cfg orc size (Parse.parse t2) batch := by
  rw [ES.spellingsE_agree v t1 t2 (Props.C05.intsOnly_numsStable v h) h1 h2]

end Sidetree.Props.C03
