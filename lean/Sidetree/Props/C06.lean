/-
  C06 — model hashes are content addresses. Parametric in the hash family `H`
  (`HashOK H`: codes < 2^63, digests < 2^31 bytes). No injectivity of `H` is assumed: where
  the property needs it the conclusion offers an explicit `Collision H` instead.
-/
import Sidetree.Lemmas.Hashing
import Sidetree.Lemmas.MultihashInv

namespace Sidetree.Props.C06
open Sidetree Sidetree.Hashing

/-- the model multihash is base64url(multihash(code, H(JCS(value)))) for supported codes -/
theorem model_multihash_def (H : HashFam) (v : Json) (c : Nat) (h : Bytes → Bytes) (canon : List Char)
    (hc : H c = some h) (hv : transformValue v = some canon) :
    calculateModelMultihash H v c =
      some (b64EncodeStr (mhEncode c (h (bytesOfString (String.ofList canon))))) := by
  simp [calculateModelMultihash, multihashOfCanonical, computeMultihash, hv, hc]

/-- … and an error for every other code -/
theorem model_multihash_unsupported (H : HashFam) (v : Json) (c : Nat) (hc : H c = none) :
    calculateModelMultihash H v c = none := by
  unfold calculateModelMultihash multihashOfCanonical computeMultihash
  cases transformValue v <;> simp [hc]

/-- the real family supports exactly sha2-256 (18) and sha2-512 (19) -/
theorem sha2_supported (c : Nat) : (sha2 c).isSome = true ↔ c = 18 ∨ c = 19 := by
  unfold sha2
  split <;> simp_all

/-- the code reported for a computed hash is the code it was computed with -/
theorem code_of_hash (H : HashFam) (ok : HashOK H) (v : Json) (c : Nat) (s : String)
    (hs : calculateModelMultihash H v c = some s) : getMultihashCode s = some c := by
  obtain ⟨h, canon, hc, _, rfl⟩ := calculate_eq hs
  simp [getMultihashCode, getMultihash_computed ok hc]

/-- validation succeeds exactly when the hash was computed from this value with the algorithm
    named in the hash's own prefix -/
theorem valid_iff (H : HashFam) (ok : HashOK H) (v : Json) (enc : String) :
    isValidModelMultihash H v enc = true ↔ ∃ c, calculateModelMultihash H v c = some enc := by
  unfold isValidModelMultihash
  constructor
  · intro h
    cases hc : getMultihashCode enc with
    | none => simp [hc] at h
    | some c =>
      cases hm : calculateModelMultihash H v c with
      | none => simp [hc, hm] at h
      | some s =>
        simp [hc, hm] at h
        exact ⟨c, by rw [hm, h]⟩
  · rintro ⟨c, hm⟩
    have := code_of_hash H ok v c enc hm
    simp [this, hm]

/-- a hash validates against `v` only if it was computed from a value with the same canonical
    form — or the family has an explicit collision -/
theorem valid_same_value (H : HashFam) (ok : HashOK H) (v w : Json) (c : Nat) (enc : String)
    (hw : calculateModelMultihash H w c = some enc) (hv : isValidModelMultihash H v enc = true) :
    transformValue v = transformValue w ∨ Collision H := by
  obtain ⟨c', hv'⟩ := (valid_iff H ok v enc).mp hv
  have hc' := code_of_hash H ok v c' enc hv'
  have hc := code_of_hash H ok w c enc hw
  have : c' = c := by rw [hc'] at hc; exact Option.some.inj hc
  subst this
  obtain ⟨h1, cv, hh1, htv, e1⟩ := calculate_eq hv'
  obtain ⟨h2, cw, hh2, htw, e2⟩ := calculate_eq hw
  have hh : h1 = h2 := by rw [hh1] at hh2; exact Option.some.inj hh2
  subst hh
  have hb := b64EncodeStr_injective _ _ (e1.symm.trans e2)
  have hd := mhEncode_injective c' _ _ (ok.code_small _ _ hh1) (ok.digest_small _ _ hh1 _)
    (ok.digest_small _ _ hh1 _) hb
  by_cases hcanon : cv = cw
  · left; rw [htv, htw, hcanon]
  · right
    refine ⟨c', h1, _, _, hh1, ?_, hd⟩
    intro e
    exact hcanon (ofList_injective _ _ (bytesOfString_injective _ _ e))

/-- conversely a value with the same canonical form validates (re-serialization, member
    order, number spelling do not matter) -/
theorem same_value_valid (H : HashFam) (ok : HashOK H) (v w : Json) (c : Nat) (enc : String)
    (hw : calculateModelMultihash H w c = some enc) (hvw : transformValue v = transformValue w) :
    isValidModelMultihash H v enc = true := by
  rw [valid_iff H ok]
  exact ⟨c, by simpa [calculateModelMultihash, hvw] using hw⟩

/-- the 'computed with one of these algorithms' test agrees with the prefix -/
theorem computed_using_iff (enc : String) (codes : List Nat) :
    isComputedUsing enc codes = true ↔ ∃ c, getMultihashCode enc = some c ∧ c ∈ codes := by
  unfold isComputedUsing
  cases h : getMultihashCode enc <;> simp

/-- anything that validates is a well-formed encoded multihash: the exact base64url encoding
    of varint(code) ‖ varint(length) ‖ digest with the stated length -/
theorem malformed_rejected (H : HashFam) (ok : HashOK H) (v : Json) (enc : String)
    (hv : isValidModelMultihash H v enc = true) :
    ∃ c digest, enc = b64EncodeStr (mhEncode c digest) ∧ mhDecode (mhEncode c digest) = some (c, digest) := by
  obtain ⟨c, hm⟩ := (valid_iff H ok v enc).mp hv
  obtain ⟨h, canon, hc, _, rfl⟩ := calculate_eq hm
  exact ⟨c, _, rfl, mh_decode_encode _ _ (ok.code_small _ _ hc) (ok.digest_small _ _ hc _)⟩

/-- strings that do not decode are rejected by every entry point -/
theorem undecodable_rejected (H : HashFam) (v : Json) (enc : String) (codes : List Nat)
    (h : getMultihash enc = none) :
    isValidModelMultihash H v enc = false ∧ getMultihashCode enc = none ∧ isComputedUsing enc codes = false := by
  simp [isValidModelMultihash, getMultihashCode, isComputedUsing, h]

/-- round trips used above, restated as properties of the encoding itself -/
theorem encoding_roundtrips (bs : Bytes) (n : Nat) (hn : n < 2 ^ 63) (rest : Bytes) :
    b64DecodeStr (b64EncodeStr bs) = some bs ∧ varintDecode (varintEncode n ++ rest) = some (n, rest) :=
  ⟨b64_decode_encode_str bs, varint_decode_encode n hn rest⟩

/-- **one hash, one text** (D21): whatever `GetMultihash` — and with it every entry point that reads an
    encoded hash — accepts is the canonical text of its code and digest; two accepted texts of the
    same hash are the same string, so the parser's "commitments must differ" compares hashes -/
theorem accepted_hash_is_canonical (enc : String) (c : Nat) (d : Bytes) (h : getMultihash enc = some (c, d)) :
    enc = b64EncodeStr (mhEncode c d) := getMultihash_inv enc c d h

theorem same_hash_same_text (a b : String) (cd : Nat × Bytes) (ha : getMultihash a = some cd) (hb : getMultihash b = some cd) :
    a = b := one_hash_one_text a b cd ha hb

/-! non-vacuity: the hypotheses are met by a concrete (toy) family and value -/
def toyH : HashFam := fun c => if c = 18 then some (fun d => [d.length.toUInt8]) else none
example : HashOK toyH := by
  constructor
  · intro c h hc; unfold toyH at hc; split at hc <;> simp_all
  · intro c h hc d; unfold toyH at hc; split at hc
    · cases hc; simp
    · cases hc
example : (calculateModelMultihash toyH (.arr []) 18).isSome = true := by decide

end Sidetree.Props.C06
