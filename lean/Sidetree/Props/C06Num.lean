/-
  C06, the "iff" of the title: model hashes are equal iff the JSON values are equal.
  Props/C06.lean relates hashes to canonical *bytes* (`valid_same_value`, `same_value_valid`);
  here the bytes are related back to *values*: the canonical text determines the normal form
  (the strict reader reads it back — Lemmas/RoundTripNum.lean), so two values with the same
  model hash have the same normal form, or the hash family has an explicit collision.
  Hypothesis: numbers are plain integers below 2^53 in magnitude (or there are none).
-/
import Sidetree.Props.C06
import Sidetree.Props.C05Num

namespace Sidetree.Props.C06
open Sidetree Sidetree.Json Sidetree.Hashing

/-- **canonical bytes determine the value**: equal RFC 8785 texts come from equal normal forms -/
theorem canonical_bytes_determine_value (v w : Json) (t : List Char) (hv : v.numsStable) (hw : w.numsStable)
    (h1 : v.jcs = some t) (h2 : w.jcs = some t) : v.normalize = w.normalize := by
  rw [← RT.parse_jcs_num v t hv h1, RT.parse_jcs_num w t hw h2]

/-- … and equal normal forms give equal bytes (by definition of the encoding) -/
theorem same_value_same_bytes (v w : Json) (h : v.normalize = w.normalize) : v.jcs = w.jcs := by
  simp [Json.jcs, h]

/-- **equal model hashes ⇒ equal values** (as normal forms: member order and nothing else
    forgotten), or an explicit collision of the hash function -/
theorem same_hash_same_value (H : HashFam) (ok : HashOK H) (v w : Json) (c : Nat) (enc : String)
    (hiv : Props.C05.intsOnly v = true) (hiw : Props.C05.intsOnly w = true)
    (hv : calculateModelMultihash H v c = some enc) (hw : calculateModelMultihash H w c = some enc) :
    v.normalize = w.normalize ∨ Collision H := by
  have hval : isValidModelMultihash H v enc = true := same_value_valid H ok v v c enc hv rfl
  rcases valid_same_value H ok v w c enc hw hval with h | h
  · left
    obtain ⟨_, canon, _, htv, _⟩ := calculate_eq hv
    have htw : transformValue w = some canon := by rw [← h, htv]
    have jv : v.jcs = some canon := by
      unfold transformValue at htv
      split at htv
      · exact htv
      · cases htv
    have jw : w.jcs = some canon := by
      unfold transformValue at htw
      split at htw
      · exact htw
      · cases htw
    exact canonical_bytes_determine_value v w canon (Props.C05.intsOnly_numsStable v hiv)
      (Props.C05.intsOnly_numsStable w hiw) jv jw
  · exact .inr h

/-- **equal values ⇒ equal model hashes**: the hash is a function of the normal form (for top-level
    objects and arrays, the values that have a model hash — D35; `hc` is implied by `h` whenever
    the normal form exists and is kept only to make the statement total) -/
theorem same_value_same_hash (H : HashFam) (v w : Json) (c : Nat) (hc : v.isContainer = w.isContainer)
    (h : v.normalize = w.normalize) : calculateModelMultihash H v c = calculateModelMultihash H w c := by
  have : transformValue v = transformValue w := by
    simp [transformValue, hc, same_value_same_bytes v w h]
  simp [calculateModelMultihash, this]

end Sidetree.Props.C06
