/-
  C07 — the parser accepts exactly what the protocol allows and reports it faithfully.
  `Allowed*` are the acceptance predicates of DESIGN.md Appendix B (non-batch mode).
-/
import Sidetree.Lemmas.Parser

namespace Sidetree.Props.C07
open Sidetree Sidetree.Parser

variable (H : HashFam) (cfg : Protocol) (orc : Oracles)

/-! ### acceptance predicates -/

/-- signed data rules shared by the three signed operation types -/
structure SignedOK (compact : String) (key : Option Jwk) : Prop where
  jws : ∃ parsed, Jws.parse compact = some parsed ∧
    ∃ alg, Json.lookup "alg" parsed.headers = some (.str alg) ∧ alg ≠ "" ∧ alg ∈ cfg.signatureAlgorithms ∧
      ∀ kv ∈ parsed.headers, kv.1 = "alg" ∨ kv.1 = "kid"
  key : ∃ k, key = some k ∧ k.valid = true ∧ k.crv ∈ cfg.keyAlgorithms ∧
    (k.nonce = "" ∨ ∃ bs, b64DecodeStr k.nonce = some bs ∧ bs.length = cfg.nonceSize)

def AllowedUpdate (req : Json) : Prop :=
  ∃ c sd, decodeCommon cfg req true = some c ∧ parseSignedDataForUpdate cfg c.signedData = some sd ∧
    orc.anchorTimeOK sd.anchorFrom (anchorUntil cfg sd.anchorFrom sd.anchorUntil) = true ∧
    validateDelta cfg orc c.delta = true ∧ keyFresh H sd.key (c.delta.getD default).updateCommitment = true ∧
    revealMatches H sd.key c.revealValue = true

def AllowedRecover (req : Json) : Prop :=
  ∃ c sd, decodeCommon cfg req true = some c ∧ parseSignedDataForRecover H cfg c.signedData = some sd ∧
    orc.anchorOriginOK sd.anchorOrigin = true ∧
    orc.anchorTimeOK sd.anchorFrom (anchorUntil cfg sd.anchorFrom sd.anchorUntil) = true ∧
    validateDelta cfg orc c.delta = true ∧ (c.delta.getD default).updateCommitment ≠ sd.recoveryCommitment ∧
    -- both next commitments differ from the signing key's: the recovery one inside
    -- `parseSignedDataForRecover` (`commitmentFresh`), the update one here (D33)
    keyFresh H sd.key (c.delta.getD default).updateCommitment = true ∧
    revealMatches H sd.key c.revealValue = true

def AllowedDeactivate (req : Json) : Prop :=
  ∃ c sd, decodeCommon cfg req false = some c ∧ parseSignedDataForDeactivate cfg c.signedData = some sd ∧
    sd.didSuffix = c.didSuffix ∧ revealMatches H sd.key c.revealValue = true ∧
    orc.anchorTimeOK sd.anchorFrom (anchorUntil cfg sd.anchorFrom sd.anchorUntil) = true

def AllowedCreate (req : Json) : Prop :=
  ∃ c alg, decodeCreate req = some c ∧ validateSuffixData cfg c.suffixData = true ∧
    createChecks H cfg orc (c.suffixData.getD default) c.delta = true ∧
    cfg.multihashAlgorithms.head? = some alg ∧
    (Hashing.calculateModelMultihash H (c.suffixData.getD default).toJson alg).isSome = true

/-! ### accepted iff allowed, per type -/

theorem update_ok_iff (req : Json) :
    (∃ p, parseUpdate H cfg orc req false = some p) ↔ AllowedUpdate H cfg orc req := by
  constructor
  · rintro ⟨p, h⟩
    obtain ⟨c, sd, h1, h2, h3, h4, _⟩ := parseUpdate_inv H cfg orc req false p h
    rcases h3 with h3 | h3
    · cases h3
    · exact ⟨c, sd, h1, h2, h3.1, h3.2.1, h3.2.2, h4⟩
  · rintro ⟨c, sd, h1, h2, h3, h4, h5, h6⟩
    exact ⟨_, by simp [parseUpdate, h1, h2, h3, h4, h5, h6, guard']; rfl⟩

theorem recover_ok_iff (req : Json) :
    (∃ p, parseRecover H cfg orc req false = some p) ↔ AllowedRecover H cfg orc req := by
  constructor
  · rintro ⟨p, h⟩
    obtain ⟨c, sd, h1, h2, h3, h4, _⟩ := parseRecover_inv H cfg orc req false p h
    rcases h3 with h3 | h3
    · cases h3
    · exact ⟨c, sd, h1, h2, h3.1, h3.2.1, h3.2.2.1, h3.2.2.2.1, h3.2.2.2.2, h4⟩
  · rintro ⟨c, sd, h1, h2, h3, h4, h5, h6, h7, h8⟩
    exact ⟨_, by simp [parseRecover, h1, h2, h3, h4, h5, h6, h7, h8, guard']; rfl⟩

theorem deactivate_ok_iff (req : Json) :
    (∃ p, parseDeactivate H cfg orc req false = some p) ↔ AllowedDeactivate H cfg orc req := by
  constructor
  · rintro ⟨p, h⟩
    obtain ⟨c, sd, h1, h2, h3, h4, h5, _⟩ := parseDeactivate_inv H cfg orc req false p h
    rcases h5 with h5 | h5
    · cases h5
    · exact ⟨c, sd, h1, h2, h3, h4, h5⟩
  · rintro ⟨c, sd, h1, h2, h3, h4, h5⟩
    exact ⟨_, by simp [parseDeactivate, h1, h2, h3, h4, h5, guard']; rfl⟩

theorem create_ok_iff (req : Json) :
    (∃ p, parseCreate H cfg orc req false = some p) ↔ AllowedCreate H cfg orc req := by
  constructor
  · rintro ⟨p, h⟩
    obtain ⟨c, alg, suffix, h1, h2, h3, h4, h5, _⟩ := parseCreate_inv H cfg orc req false p h
    rcases h3 with h3 | h3
    · cases h3
    · exact ⟨c, alg, h1, h2, h3, h4, by simp [h5]⟩
  · rintro ⟨c, alg, h1, h2, h3, h4, h5⟩
    cases hm : Hashing.calculateModelMultihash H (c.suffixData.getD default).toJson alg with
    | none => simp [hm] at h5
    | some suffix => exact ⟨_, by simp [parseCreate, h1, h2, h3, h4, hm, guard']; rfl⟩

/-- size gate and type dispatch: a request is accepted iff it is within the maximum operation
    size, decodes, names one of the four types, and that type's rules hold -/
theorem parse_ok_iff (ns : String) (size : Nat) (req : Option Json) :
    (∃ op, parse H cfg orc ns size req = some op) ↔
      (size ≤ cfg.maxOperationSize ∧ ∃ j ty, req = some j ∧ requestType req = some ty ∧
        match ty with
        | .create => AllowedCreate H cfg orc j
        | .update => AllowedUpdate H cfg orc j
        | .recover => AllowedRecover H cfg orc j
        | .deactivate => AllowedDeactivate H cfg orc j) := by
  unfold parse parseOperation
  by_cases hsz : size > cfg.maxOperationSize
  · simp [hsz, guard']; omega
  · have hle : size ≤ cfg.maxOperationSize := by omega
    simp only [hsz, decide_false, Bool.not_false, guard', if_true, Option.bind_eq_bind, Option.bind_some,
      Option.map_eq_some_iff, hle, true_and]
    cases req with
    | none => simp
    | some j =>
      simp only [Option.bind_some, Option.some.injEq]
      cases hty : requestType (some j) with
      | none => simp
      | some ty =>
        simp only [Option.bind_some]
        cases ty with
        | create =>
          have := create_ok_iff H cfg orc j
          constructor
          · rintro ⟨op, p, hp, _⟩; exact ⟨j, .create, rfl, rfl, this.mp ⟨p, hp⟩⟩
          · rintro ⟨j', ty, e, ety, ha⟩
            cases e; cases ety
            obtain ⟨p, hp⟩ := this.mpr ha
            exact ⟨_, p, hp, rfl⟩
        | update =>
          have := update_ok_iff H cfg orc j
          constructor
          · rintro ⟨op, p, hp, _⟩; exact ⟨j, .update, rfl, rfl, this.mp ⟨p, hp⟩⟩
          · rintro ⟨j', ty, e, ety, ha⟩
            cases e; cases ety
            obtain ⟨p, hp⟩ := this.mpr ha
            exact ⟨_, p, hp, rfl⟩
        | recover =>
          have := recover_ok_iff H cfg orc j
          constructor
          · rintro ⟨op, p, hp, _⟩; exact ⟨j, .recover, rfl, rfl, this.mp ⟨p, hp⟩⟩
          · rintro ⟨j', ty, e, ety, ha⟩
            cases e; cases ety
            obtain ⟨p, hp⟩ := this.mpr ha
            exact ⟨_, p, hp, rfl⟩
        | deactivate =>
          have := deactivate_ok_iff H cfg orc j
          constructor
          · rintro ⟨op, p, hp, _⟩; exact ⟨j, .deactivate, rfl, rfl, this.mp ⟨p, hp⟩⟩
          · rintro ⟨j', ty, e, ety, ha⟩
            cases e; cases ety
            obtain ⟨p, hp⟩ := this.mpr ha
            exact ⟨_, p, hp, rfl⟩

/-! ### what the rules mean (the sentence of the property, rule by rule) -/

/-- signed data of an accepted update: allowed algorithm, only alg/kid headers, valid key on an
    allowed curve with a nonce of the configured size -/
theorem update_signed_ok (s : String) (sd : SignedData) (h : parseSignedDataForUpdate cfg s = some sd) :
    SignedOK cfg s sd.key := by
  obtain ⟨p, hp, hk, _⟩ := parseSignedDataForUpdate_inv cfg s sd h
  obtain ⟨_, hparse, hh⟩ := parseSignedData_inv cfg s p hp
  obtain ⟨k, e, v, c, n⟩ := signingKeyOK_inv cfg sd.key hk
  exact ⟨⟨p, hparse, headersOK_inv cfg p.headers hh⟩, ⟨k, e, v, c, nonceOK_inv cfg k.nonce n⟩⟩

theorem recover_signed_ok (s : String) (sd : SignedData) (h : parseSignedDataForRecover H cfg s = some sd) :
    SignedOK cfg s sd.key ∧ multihashOK cfg sd.recoveryCommitment = true ∧ multihashOK cfg sd.deltaHash = true ∧
    keyFresh H sd.key sd.recoveryCommitment = true := by
  obtain ⟨p, hp, hk, h1, h2, h3⟩ := parseSignedDataForRecover_inv H cfg s sd h
  obtain ⟨_, hparse, hh⟩ := parseSignedData_inv cfg s p hp
  obtain ⟨k, e, v, c, n⟩ := signingKeyOK_inv cfg sd.key hk
  exact ⟨⟨⟨p, hparse, headersOK_inv cfg p.headers hh⟩, ⟨k, e, v, c, nonceOK_inv cfg k.nonce n⟩⟩, h1, h2, h3⟩

theorem deactivate_signed_ok (s : String) (sd : SignedData) (h : parseSignedDataForDeactivate cfg s = some sd) :
    SignedOK cfg s sd.key := by
  obtain ⟨p, hp, hk⟩ := parseSignedDataForDeactivate_inv cfg s sd h
  obtain ⟨_, hparse, hh⟩ := parseSignedData_inv cfg s p hp
  obtain ⟨k, e, v, c, n⟩ := signingKeyOK_inv cfg sd.key hk
  exact ⟨⟨p, hparse, headersOK_inv cfg p.headers hh⟩, ⟨k, e, v, c, nonceOK_inv cfg k.nonce n⟩⟩

/-- a hash passes iff it is within the maximum hash length and computed with a configured algorithm -/
theorem multihashOK_iff (mh : String) :
    multihashOK cfg mh = true ↔
      (utf8Len mh ≤ cfg.maxOperationHashLength ∧ ∃ c, Hashing.getMultihashCode mh = some c ∧ c ∈ cfg.multihashAlgorithms) := by
  unfold multihashOK Hashing.isComputedUsing
  simp only [Bool.and_eq_true, Bool.not_eq_true', decide_eq_false_iff_not, Nat.not_lt]
  cases h : Hashing.getMultihashCode mh <;> simp

/-- boundaries of the three size limits: exactly the limit is accepted, one more is refused -/
theorem size_boundaries (ns : String) (req : Option Json) :
    (∀ op, parse H cfg orc ns (cfg.maxOperationSize + 1) req ≠ some op) ∧
    (∀ mh, utf8Len mh = cfg.maxOperationHashLength + 1 → multihashOK cfg mh = false) ∧
    (∀ d canon, transformValue d.toJson = some canon →
      (deltaSizeOK cfg d = true ↔ utf8Len (String.ofList canon) ≤ cfg.maxDeltaSize)) := by
  refine ⟨?_, ?_, ?_⟩
  · intro op h
    simp [parse, parseOperation, guard'] at h
  · intro mh h
    simp [multihashOK, h]
  · intro d canon h
    simp [deltaSizeOK, h]

/-- a delta is valid iff present, with at least one patch, every patch enabled and individually
    valid, a well-formed update commitment and a canonical size within the limit -/
theorem validateDelta_iff (d : Option Delta) :
    validateDelta cfg orc d = true ↔
      ∃ dv p ps, d = some dv ∧ dv.patches = some (p :: ps) ∧
        (∀ q ∈ p :: ps, ∃ a, Patch.getAction q = some a ∧ a ∈ cfg.patches ∧ Validator.validate orc.uri q = .ok) ∧
        multihashOK cfg dv.updateCommitment = true ∧ deltaSizeOK cfg dv = true := by
  cases d with
  | none => simp [validateDelta]
  | some dv =>
    unfold validateDelta
    cases hp : dv.patches with
    | none => simp [hp]
    | some ps =>
      cases ps with
      | nil => simp [hp]
      | cons p ps =>
        simp only [hp, Bool.and_eq_true, List.all_eq_true, Option.some.injEq, exists_and_left, exists_eq_left']
        constructor
        · rintro ⟨⟨h1, h2⟩, h3⟩
          refine ⟨p, ps, rfl, ?_, h2, h3⟩
          intro q hq
          have := h1 q hq
          cases ha : Patch.getAction q with
          | none => simp [ha] at this
          | some a =>
            simp only [ha, Bool.and_eq_true, List.contains_iff_mem] at this
            refine ⟨a, rfl, this.1, ?_⟩
            have h2' := this.2
            cases hv : Validator.validate orc.uri q <;> simp_all [BEq.beq]
        · rintro ⟨p', ps', e, h1, h2, h3⟩
          cases e
          refine ⟨⟨?_, h2⟩, h3⟩
          intro q hq
          obtain ⟨a, ha, hm, hv⟩ := h1 q hq
          simp [ha, hm, hv, BEq.beq]

/-! ### the returned operation -/

/-- the operation returned for an accepted request carries that request's type, suffix,
    namespaced id and anchor origin (the original bytes are the caller's own buffer) -/
theorem parse_result (ns : String) (size : Nat) (req : Option Json) (op : PublicOp)
    (h : parse H cfg orc ns size req = some op) :
    op.id = ns ++ ":" ++ op.uniqueSuffix ∧ requestType req = some op.type := by
  unfold parse at h
  cases hp : parseOperation H cfg orc size req false with
  | none => simp [hp] at h
  | some p =>
    simp only [hp, Option.map_some, Option.some.injEq] at h
    subst h
    refine ⟨rfl, ?_⟩
    unfold parseOperation at hp
    by_cases hsz : size > cfg.maxOperationSize
    · simp [hsz, guard'] at hp
    · simp only [hsz, decide_false, Bool.not_false, guard', if_true, Option.bind_eq_bind, Option.bind_some] at hp
      cases req with
      | none => simp at hp
      | some j =>
        simp only [Option.bind_some] at hp
        cases hty : requestType (some j) with
        | none => simp [hty] at hp
        | some ty =>
          simp only [hty, Option.bind_some] at hp
          cases ty with
          | create =>
            obtain ⟨_, _, _, _, _, _, _, _, e⟩ := parseCreate_inv H cfg orc j false p hp
            rw [e]
          | update =>
            obtain ⟨_, _, _, _, _, _, e⟩ := parseUpdate_inv H cfg orc j false p hp
            rw [e]
          | recover =>
            obtain ⟨_, _, _, _, _, _, e⟩ := parseRecover_inv H cfg orc j false p hp
            rw [e]
          | deactivate =>
            obtain ⟨_, _, _, _, _, _, _, e⟩ := parseDeactivate_inv H cfg orc j false p hp
            rw [e]

/-- the anchor origin reported is the create request's suffix-data origin / the recover
    request's signed origin -/
theorem anchor_origin_carried (req : Json) (p : ParsedOp) :
    (parseCreate H cfg orc req false = some p →
      ∃ c, decodeCreate req = some c ∧ p.anchorOrigin = (c.suffixData.getD default).anchorOrigin) ∧
    (parseRecover H cfg orc req false = some p →
      ∃ c sd, decodeCommon cfg req true = some c ∧ parseSignedDataForRecover H cfg c.signedData = some sd ∧
        p.anchorOrigin = sd.anchorOrigin) := by
  constructor
  · intro h
    obtain ⟨c, _, _, h1, _, _, _, _, e⟩ := parseCreate_inv H cfg orc req false p h
    exact ⟨c, h1, by rw [e]⟩
  · intro h
    obtain ⟨c, sd, h1, h2, _, _, e⟩ := parseRecover_inv H cfg orc req false p h
    exact ⟨c, sd, h1, h2, by rw [e]⟩

end Sidetree.Props.C07
