/-
  C08 — client-built requests are accepted and yield the requested document; builders refuse
  inputs that would make an unacceptable request; the anchored form preserves a request.

  Requests are JSON values here; the bytes handed to the caller are their canonical encoding and
  the parser reads them back with the JSON reader. That text round trip (C05) and the JWS framing
  (C15) are taken as the explicit hypotheses `h…read` where a theorem needs them; the
  correspondence stream compares the bytes themselves.
-/
import Sidetree.Client
import Sidetree.Applier
import Sidetree.Props.C07
import Sidetree.Lemmas.Hashing
import Sidetree.Lemmas.Framing

namespace Sidetree.Props.C08
open Sidetree Sidetree.Parser Sidetree.Client

variable (H : HashFam) (cfg : Protocol) (orc : Oracles)

/-! ### builders refuse what would make an unacceptable request -/

/-- create: equal update and recovery commitments are refused -/
theorem create_refuses_equal_commitments (i : CreateInfo) (h : i.recoveryCommitment = i.updateCommitment) :
    newCreateRequest H i = none := by
  simp [newCreateRequest, createInfoOK, h]

/-- create: a commitment not computed with the requested hash algorithm is refused -/
theorem create_refuses_wrong_algorithm (i : CreateInfo)
    (h : Hashing.isComputedUsing i.recoveryCommitment [i.code] = false ∨ Hashing.isComputedUsing i.updateCommitment [i.code] = false) :
    newCreateRequest H i = none := by
  rcases h with h | h <;> simp [newCreateRequest, createInfoOK, h]

/-- create: an unsupported hash algorithm is refused -/
theorem create_refuses_unknown_algorithm (i : CreateInfo) (h : H i.code = none) : newCreateRequest H i = none := by
  simp [newCreateRequest, createInfoOK, h]

/-- create: neither / both of opaque document and patches is refused -/
theorem create_refuses_no_or_double_content (i : CreateInfo)
    (h : (i.opaqueDoc = none ∧ i.patches = []) ∨ (i.opaqueDoc.isSome = true ∧ i.patches ≠ [])) :
    newCreateRequest H i = none := by
  rcases h with ⟨h1, h2⟩ | ⟨h1, h2⟩
  · simp [newCreateRequest, createInfoOK, h1, h2]
  · cases hp : i.patches with
    | nil => exact absurd hp h2
    | cons p ps => simp [newCreateRequest, createInfoOK, h1, hp]

/-- update: the next update commitment must not be the commitment of the key that signs this
    request (key reuse) -/
theorem update_refuses_reused_key (i : UpdateInfo) (k : Jwk) (hk : i.updateKey = some k)
    (h : Hashing.commitment H k.toJson i.code = some i.updateCommitment) : newUpdateRequestCore H i = none := by
  unfold newUpdateRequestCore
  split
  · rfl
  · cases hs : i.signer with
    | none => simp [hk]
    | some s =>
      simp only [hk]
      split
      · rfl
      · split
        · rfl
        · simp [commitmentDiffers, h]

/-- recover: the next recovery commitment must not be the commitment of the signing key -/
theorem recover_refuses_reused_key (i : RecoverInfo) (k : Jwk) (hk : i.recoveryKey = some k)
    (h : Hashing.commitment H k.toJson i.code = some i.recoveryCommitment) : newRecoverRequestCore H i = none := by
  unfold newRecoverRequestCore
  split
  · rfl
  · split
    · rfl
    · cases hs : i.signer with
      | none => simp
      | some s =>
        simp only [hk]
        split
        · rfl
        · split
          · rfl
          · split
            · rfl
            · simp [commitmentDiffers, h]

/-- every signed builder refuses a signer without usable protected headers -/
theorem signer_rules (s : Signer) (h : signerOK (some s) = true) :
    ∃ hdrs alg, s.headers = some hdrs ∧ Json.lookup "alg" hdrs = some (.str alg) ∧ alg ≠ "" ∧
      ∀ kv ∈ hdrs, kv.1 = "alg" ∨ kv.1 = "kid" := by
  unfold signerOK at h
  cases hh : s.headers with
  | none => simp [hh] at h
  | some hdrs =>
    simp only [hh] at h
    cases ha : Json.lookup "alg" hdrs with
    | none => simp [ha] at h
    | some v =>
      cases v with
      | str alg =>
        simp only [ha, Bool.and_eq_true, decide_eq_true_eq, List.all_eq_true, Bool.or_eq_true] at h
        exact ⟨hdrs, alg, rfl, ha, h.1, h.2⟩
      | _ => simp [ha] at h

theorem update_refuses_bad_signer (i : UpdateInfo) (h : signerOK i.signer = false) : newUpdateRequestCore H i = none := by
  unfold newUpdateRequestCore
  split
  · rfl
  · cases hs : i.signer with
    | none => cases i.updateKey <;> rfl
    | some s =>
      cases hk : i.updateKey with
      | none => rfl
      | some k => simp [hs] at h; simp [h]

theorem deactivate_refuses_bad_signer (i : DeactivateInfo) (h : signerOK i.signer = false) : newDeactivateRequestCore i = none := by
  unfold newDeactivateRequestCore
  split
  · rfl
  · cases hs : i.signer with
    | none => rfl
    | some s => simp [hs] at h; simp [h]

/-! ### the request structs read back what the builders wrote -/

/-- a delta as the builders make it: a non-empty commitment and a non-empty list of patch objects -/
structure DeltaWF (d : Delta) : Prop where
  uc : d.updateCommitment ≠ ""
  patches : ∃ p ps, d.patches = some (p :: ps) ∧ (p :: ps).all Patch.isObjOrNullB = true

theorem delta_roundtrip (d : Delta) (h : DeltaWF d) : Delta.ofJson? d.toJson = some d := by
  obtain ⟨p, ps, hp, hall⟩ := h.patches
  have huc := h.uc
  cases d with
  | mk uc patches =>
    simp only at hp huc
    subst hp
    simp [Delta.ofJson?, Delta.toJson, GoJson.str, Json.get?, Json.lookup, huc, hall]

theorem getAction_obj (p : Json) (a : String) (h : Patch.getAction p = some a) : Patch.isObjOrNullB p = true := by
  cases p with
  | obj kvs => rfl
  | _ => simp [Patch.getAction, Json.get?] at h

theorem multihashOK_ne_empty (mh : String) (h : multihashOK cfg mh = true) : mh ≠ "" := by
  intro e
  subst e
  have e : Hashing.getMultihashCode "" = none := by decide
  simp [multihashOK, Hashing.isComputedUsing, e] at h

/-- a delta the validator accepts has the builders' shape -/
theorem validateDelta_wf (d : Delta) (h : validateDelta cfg orc (some d) = true) : DeltaWF d := by
  unfold validateDelta at h
  cases hp : d.patches with
  | none => simp [hp] at h
  | some ps =>
    cases ps with
    | nil => simp [hp] at h
    | cons p ps =>
      simp only [hp, Bool.and_eq_true] at h
      refine ⟨multihashOK_ne_empty cfg _ h.1.2, p, ps, hp, ?_⟩
      rw [List.all_eq_true]
      intro x hx
      have := (List.all_eq_true.mp h.1.1) x hx
      cases ha : Patch.getAction x with
      | none => simp [ha] at this
      | some a => exact getAction_obj x a ha

/-- suffix data never carries a JSON `null` anchor origin (Go's nil interface is omitted) -/
theorem suffixData_roundtrip (sd : SuffixData) (h : sd.anchorOrigin ≠ some .null) :
    SuffixData.ofJson? sd.toJson = some sd := by
  cases sd with
  | mk dh rc ao ty =>
    simp only at h
    by_cases h1 : dh = "" <;> by_cases h2 : rc = "" <;> by_cases h3 : ty = "" <;> cases ao with
    | none => simp [SuffixData.ofJson?, SuffixData.toJson, GoJson.str, GoJson.iface, Json.get?, Json.lookup, h1, h2, h3]
    | some a =>
      cases a <;> simp_all [SuffixData.ofJson?, SuffixData.toJson, GoJson.str, GoJson.iface, Json.get?, Json.lookup]

/-! ### hashes the builders compute are the ones the parser checks -/

theorem code_of_calculated (ok : HashOK H) (v : Json) (c : Nat) (s : String)
    (h : Hashing.calculateModelMultihash H v c = some s) : Hashing.getMultihashCode s = some c := by
  obtain ⟨hf, canon, hH, _, rfl⟩ := calculate_eq h
  simp [Hashing.getMultihashCode, getMultihash_computed ok hH]

theorem calculated_is_valid (ok : HashOK H) (v : Json) (c : Nat) (s : String)
    (h : Hashing.calculateModelMultihash H v c = some s) : Hashing.isValidModelMultihash H v s = true := by
  simp [Hashing.isValidModelMultihash, code_of_calculated H ok v c s h, h]

theorem calculated_computed_using (ok : HashOK H) (v : Json) (c : Nat) (s : String)
    (h : Hashing.calculateModelMultihash H v c = some s) : Hashing.isComputedUsing s [c] = true := by
  simp [Hashing.isComputedUsing, code_of_calculated H ok v c s h]

/-! ### create: what the builder returns is what the parser accepts -/

/-- **a built create request is accepted** by a parser whose protocol names the builder's hash
    algorithm, allows and validates the patches and accepts the anchor origin; the parsed
    operation carries the requested delta, commitments and anchor origin. -/
theorem create_built_accepted (ok : HashOK H) (i : CreateInfo) (req : Json) (patches : List Json)
    (hb : newCreateRequest H i = some req)
    (hp : patchesOf i.opaqueDoc i.patches = some patches)
    (halg : cfg.multihashAlgorithms = [i.code])
    (hao : i.anchorOrigin ≠ some .null) (horigin : orc.anchorOriginOK i.anchorOrigin = true)
    (hdelta : validateDelta cfg orc (some (mkDelta i.updateCommitment patches)) = true)
    (hlen : ∀ s, utf8Len s ≤ cfg.maxOperationHashLength ∨ (s ≠ i.recoveryCommitment ∧
              Hashing.calculateModelMultihash H (mkDelta i.updateCommitment patches).toJson i.code ≠ some s))
    (hcanon : ∀ dh, (transformValue (SuffixData.toJson { deltaHash := dh, recoveryCommitment := i.recoveryCommitment, anchorOrigin := i.anchorOrigin, type := i.type })).isSome = true) :
    ∃ p, parseCreate H cfg orc req false = some p ∧ p.type = .create ∧
      p.delta = some (mkDelta i.updateCommitment patches) ∧
      (p.suffixData.map (·.recoveryCommitment)) = some i.recoveryCommitment ∧
      p.anchorOrigin = i.anchorOrigin ∧
      Hashing.calculateModelMultihash H ((p.suffixData.getD default).toJson) i.code = some p.uniqueSuffix := by
  unfold newCreateRequest at hb
  cases hok : createInfoOK H i with
  | false => simp [hok] at hb
  | true =>
    simp only [hok, Bool.not_true, Bool.false_eq_true, if_false, hp] at hb
    cases hdh : Hashing.calculateModelMultihash H (mkDelta i.updateCommitment patches).toJson i.code with
    | none => simp [hdh] at hb
    | some dh =>
      simp only [hdh, Option.some.injEq] at hb
      subst hb
      have hwf := validateDelta_wf cfg orc _ hdelta
      have hsdrt := suffixData_roundtrip
        { deltaHash := dh, recoveryCommitment := i.recoveryCommitment, anchorOrigin := i.anchorOrigin, type := i.type } hao
      have hdrt := delta_roundtrip _ hwf
      -- the info checks
      simp only [createInfoOK, Bool.and_eq_true, decide_eq_true_eq] at hok
      obtain ⟨⟨⟨⟨⟨_, _⟩, hHc⟩, hrc⟩, _⟩, hne⟩ := hok
      -- decoding
      have hdec : decodeCreate (createRequestJson
          { deltaHash := dh, recoveryCommitment := i.recoveryCommitment, anchorOrigin := i.anchorOrigin, type := i.type }
          (mkDelta i.updateCommitment patches)) =
          some { suffixData := some { deltaHash := dh, recoveryCommitment := i.recoveryCommitment, anchorOrigin := i.anchorOrigin, type := i.type },
                 delta := some (mkDelta i.updateCommitment patches) } := by
        have e1 : ∃ kvs, SuffixData.toJson { deltaHash := dh, recoveryCommitment := i.recoveryCommitment, anchorOrigin := i.anchorOrigin, type := i.type } = .obj kvs :=
          ⟨_, rfl⟩
        have e2 : ∃ kvs, (mkDelta i.updateCommitment patches).toJson = .obj kvs := ⟨_, rfl⟩
        obtain ⟨k1, e1⟩ := e1
        obtain ⟨k2, e2⟩ := e2
        rw [e1] at hsdrt
        rw [e2] at hdrt
        simp [decodeCreate, createRequestJson, GoJson.topObject, GoJson.str, GoJson.ptr, Json.get?, Json.lookup, e1, e2, hsdrt, hdrt]
      -- suffix data validation
      have hdhUsing := calculated_computed_using H ok _ _ _ hdh
      have hl1 : utf8Len i.recoveryCommitment ≤ cfg.maxOperationHashLength := by
        rcases hlen i.recoveryCommitment with h | h
        · exact h
        · exact absurd rfl h.1
      have hl2 : utf8Len dh ≤ cfg.maxOperationHashLength := by
        rcases hlen dh with h | h
        · exact h
        · exact absurd hdh h.2
      have hvs : validateSuffixData cfg (some { deltaHash := dh, recoveryCommitment := i.recoveryCommitment, anchorOrigin := i.anchorOrigin, type := i.type }) = true := by
        simp only [validateSuffixData, multihashOK, halg, Bool.and_eq_true, Bool.not_eq_true', decide_eq_false_iff_not, Nat.not_lt]
        exact ⟨⟨hl1, hrc⟩, hl2, hdhUsing⟩
      have hchecks : createChecks H cfg orc { deltaHash := dh, recoveryCommitment := i.recoveryCommitment, anchorOrigin := i.anchorOrigin, type := i.type }
          (some (mkDelta i.updateCommitment patches)) = true := by
        simp only [createChecks, horigin, hdelta, deltaJson, calculated_is_valid H ok _ _ _ hdh, Bool.and_true, Bool.true_and, bne_iff_ne, ne_eq]
        intro e
        exact hne e.symm
      -- the suffix
      have hHs : (H i.code).isSome = true := hHc
      cases hsfx : Hashing.calculateModelMultihash H
          (SuffixData.toJson { deltaHash := dh, recoveryCommitment := i.recoveryCommitment, anchorOrigin := i.anchorOrigin, type := i.type }) i.code with
      | none =>
        -- suffix data is an object of strings and the anchor origin; canonicalisable whenever the request itself was
        exfalso
        have hc := hcanon dh
        cases ht : transformValue (SuffixData.toJson { deltaHash := dh, recoveryCommitment := i.recoveryCommitment, anchorOrigin := i.anchorOrigin, type := i.type }) with
        | none => simp [ht] at hc
        | some canon =>
          cases hh : H i.code with
          | none => simp [hh] at hHs
          | some hf => simp [Hashing.calculateModelMultihash, Hashing.multihashOfCanonical, Hashing.computeMultihash, ht, hh] at hsfx
      | some suffix =>
        refine ⟨{ type := .create, uniqueSuffix := suffix, delta := some (mkDelta i.updateCommitment patches),
                  suffixData := some { deltaHash := dh, recoveryCommitment := i.recoveryCommitment, anchorOrigin := i.anchorOrigin, type := i.type },
                  anchorOrigin := i.anchorOrigin }, ?_, rfl, rfl, rfl, rfl, ?_⟩
        · simp [parseCreate, hdec, hvs, hchecks, halg, hsfx, guard']
        · simpa using hsfx

/-! ### the anchored form preserves an accepted request -/

theorem decodeCommon_inv (req : Json) (wd : Bool) (c : ReqCommon) (h : decodeCommon cfg req wd = some c) :
    c.didSuffix ≠ "" ∧ c.signedData ≠ "" ∧ multihashOK cfg c.revealValue = true ∧ (wd = false → c.delta = none) := by
  unfold decodeCommon at h
  cases h0 : GoJson.topObject req with
  | none => simp [h0] at h
  | some j =>
    simp only [h0, Option.bind_eq_bind, Option.bind_some] at h
    cases h1 : GoJson.str j "type" with
    | none => simp [h1] at h
    | some ty =>
      simp only [h1, Option.bind_some] at h
      cases h2 : GoJson.str j "didSuffix" with
      | none => simp [h2] at h
      | some ds =>
        simp only [h2, Option.bind_some] at h
        cases h3 : GoJson.str j "revealValue" with
        | none => simp [h3] at h
        | some rv =>
          simp only [h3, Option.bind_some] at h
          cases h4 : GoJson.str j "signedData" with
          | none => simp [h4] at h
          | some sd =>
            simp only [h4, Option.bind_some] at h
            have key : ∀ delta, (if ds = "" ∨ sd = "" then none
                else if (!multihashOK cfg rv) = true then none
                else (pure { didSuffix := ds, revealValue := rv, signedData := sd, delta := delta } : Option ReqCommon)) = some c →
                c.didSuffix ≠ "" ∧ c.signedData ≠ "" ∧ multihashOK cfg c.revealValue = true ∧ c.delta = delta := by
              intro delta hh
              by_cases hA : ds = "" ∨ sd = ""
              · simp [hA] at hh
              · simp only [hA, if_false] at hh
                cases hm : multihashOK cfg rv with
                | false => simp [hm] at hh
                | true =>
                  simp only [hm, Bool.not_true, Bool.false_eq_true, if_false, pure, Option.some.injEq] at hh
                  subst hh
                  exact ⟨fun e => hA (Or.inl e), fun e => hA (Or.inr e), hm, rfl⟩
            cases wd with
            | false =>
              simp only [Bool.false_eq_true, if_false, Option.bind_some] at h
              obtain ⟨a1, a2, a3, a4⟩ := key none h
              exact ⟨a1, a2, a3, fun _ => a4⟩
            | true =>
              simp only [if_true] at h
              cases h5 : GoJson.ptr j "delta" Delta.ofJson? with
              | none => simp [h5] at h
              | some delta =>
                simp only [h5, Option.bind_some] at h
                obtain ⟨a1, a2, a3, _⟩ := key delta h
                exact ⟨a1, a2, a3, fun e => by cases e⟩

/-- the common fields of an update / recover / deactivate request, re-assembled, decode to themselves -/
theorem decodeCommon_anchored (ty : String) (c : ReqCommon)
    (h1 : c.didSuffix ≠ "") (h2 : c.signedData ≠ "") (h3 : multihashOK cfg c.revealValue = true)
    (hd : ∀ d, c.delta = some d → DeltaWF d) :
    decodeCommon cfg (.obj [("type", .str ty), ("didSuffix", .str c.didSuffix), ("revealValue", .str c.revealValue),
      ("signedData", .str c.signedData), ("delta", deltaJson c.delta)]) true = some c := by
  cases c with
  | mk ds rv sd delta =>
    simp only at h1 h2 h3 hd
    cases delta with
    | none => simp [decodeCommon, GoJson.topObject, GoJson.str, GoJson.ptr, Json.get?, Json.lookup, deltaJson, h1, h2, h3]
    | some d =>
      have hrt := delta_roundtrip d (hd d rfl)
      have e : ∃ kvs, d.toJson = .obj kvs := ⟨_, rfl⟩
      obtain ⟨kvs, e⟩ := e
      rw [e] at hrt
      simp [decodeCommon, GoJson.topObject, GoJson.str, GoJson.ptr, Json.get?, Json.lookup, deltaJson, e, hrt, h1, h2, h3]

theorem decodeCommon_anchored_nodelta (c : ReqCommon)
    (h1 : c.didSuffix ≠ "") (h2 : c.signedData ≠ "") (h3 : multihashOK cfg c.revealValue = true) (hd : c.delta = none) :
    decodeCommon cfg (.obj [("type", .str "deactivate"), ("didSuffix", .str c.didSuffix), ("revealValue", .str c.revealValue),
      ("signedData", .str c.signedData)]) false = some c := by
  cases c with
  | mk ds rv sd delta =>
    simp only at h1 h2 h3 hd
    subst hd
    simp [decodeCommon, GoJson.topObject, GoJson.str, Json.get?, Json.lookup, h1, h2, h3]

/-- **update**: the request `GetAnchoredOperation` re-assembles from an accepted update is parsed
    — in the parser's mode and in the applier's — to the very same operation -/
theorem anchored_update (req : Json) (p : ParsedOp) (h : parseUpdate H cfg orc req false = some p) (b : Bool) :
    parseUpdate H cfg orc (anchoredJson p) b = some p := by
  obtain ⟨c, sd, hc, hs, hchk, hrev, rfl⟩ := parseUpdate_inv H cfg orc req false p h
  rcases hchk with hchk | ⟨ht, hv, hk⟩
  · cases hchk
  · obtain ⟨i1, i2, i3, _⟩ := decodeCommon_inv cfg req true c hc
    have hwf : ∀ d, c.delta = some d → DeltaWF d := fun d e => validateDelta_wf cfg orc d (e ▸ hv)
    have := decodeCommon_anchored cfg "update" c i1 i2 i3 hwf
    simp only [anchoredJson, OpType.toString]
    simp [parseUpdate, this, hs, ht, hv, hk, hrev, guard']

/-- **recover** -/
theorem anchored_recover (req : Json) (p : ParsedOp) (h : parseRecover H cfg orc req false = some p) (b : Bool) :
    parseRecover H cfg orc (anchoredJson p) b = some p := by
  obtain ⟨c, sd, hc, hs, hchk, hrev, rfl⟩ := parseRecover_inv H cfg orc req false p h
  rcases hchk with hchk | ⟨ho, ht, hv, hne⟩
  · cases hchk
  · obtain ⟨i1, i2, i3, _⟩ := decodeCommon_inv cfg req true c hc
    have hwf : ∀ d, c.delta = some d → DeltaWF d := fun d e => validateDelta_wf cfg orc d (e ▸ hv)
    have := decodeCommon_anchored cfg "recover" c i1 i2 i3 hwf
    simp only [anchoredJson, OpType.toString]
    simp [parseRecover, this, hs, ho, ht, hv, hne, hrev, guard']

/-- **deactivate** -/
theorem anchored_deactivate (req : Json) (p : ParsedOp) (h : parseDeactivate H cfg orc req false = some p) (b : Bool) :
    parseDeactivate H cfg orc (anchoredJson p) b = some p := by
  obtain ⟨c, sd, hc, hs, hsfx, hrev, ht, rfl⟩ := parseDeactivate_inv H cfg orc req false p h
  rcases ht with ht | ht
  · cases ht
  · obtain ⟨i1, i2, i3, i4⟩ := decodeCommon_inv cfg req false c hc
    have := decodeCommon_anchored_nodelta cfg c i1 i2 i3 (i4 rfl)
    simp only [anchoredJson]
    simp [parseDeactivate, this, hs, hsfx, hrev, ht, guard']

theorem iface_ne_null (j : Json) (k : String) : GoJson.iface j k ≠ some .null := by
  unfold GoJson.iface
  cases h : j.get? k with
  | none => simp
  | some v => cases v <;> simp

theorem suffixData_of_json_ao (j : Json) (sd : SuffixData) (h : SuffixData.ofJson? j = some sd) :
    sd.anchorOrigin ≠ some .null := by
  unfold SuffixData.ofJson? at h
  cases h1 : GoJson.str j "deltaHash" with
  | none => simp [h1] at h
  | some a =>
    cases h2 : GoJson.str j "recoveryCommitment" with
    | none => simp [h1, h2] at h
    | some b =>
      cases h3 : GoJson.str j "type" with
      | none => simp [h1, h2, h3] at h
      | some c =>
        simp [h1, h2, h3] at h
        subst h
        exact iface_ne_null j "anchorOrigin"

theorem ptr_some_some {α} (j : Json) (k : String) (dec : Json → Option α) (a : α)
    (h : GoJson.ptr j k dec = some (some a)) : ∃ v, dec v = some a := by
  unfold GoJson.ptr at h
  cases hg : j.get? k with
  | none => simp [hg] at h
  | some v =>
    cases v with
    | obj kvs =>
      simp only [hg, Option.map_eq_some_iff] at h
      obtain ⟨a', ha, e⟩ := h
      cases e
      exact ⟨_, ha⟩
    | _ => simp [hg] at h

/-- **create** -/
theorem anchored_create (req : Json) (p : ParsedOp) (h : parseCreate H cfg orc req false = some p) (b : Bool) :
    parseCreate H cfg orc (anchoredJson p) b = some p := by
  obtain ⟨c, alg, suffix, hc, hvs, hchk, halg, hsfx, rfl⟩ := parseCreate_inv H cfg orc req false p h
  rcases hchk with hchk | hchk
  · cases hchk
  · cases c with
    | mk osd odelta =>
      cases osd with
      | none => simp [validateSuffixData] at hvs
      | some sd =>
        simp only [Option.getD_some] at hchk hsfx
        have hv : validateDelta cfg orc odelta = true := by
          simp only [createChecks, Bool.and_eq_true] at hchk
          exact hchk.1.1.2
        cases odelta with
        | none => simp [validateDelta] at hv
        | some d =>
          -- where the suffix data came from: a decoded object
          have hao : sd.anchorOrigin ≠ some .null := by
            unfold decodeCreate at hc
            cases h0 : GoJson.topObject req with
            | none => simp [h0] at hc
            | some j =>
              simp only [h0, Option.bind_eq_bind, Option.bind_some] at hc
              cases h1 : GoJson.str j "type" with
              | none => simp [h1] at hc
              | some ty =>
                simp only [h1, Option.bind_some] at hc
                cases h2 : GoJson.ptr j "suffixData" SuffixData.ofJson? with
                | none => simp [h2] at hc
                | some osd' =>
                  simp only [h2, Option.bind_some] at hc
                  cases h3 : GoJson.ptr j "delta" Delta.ofJson? with
                  | none => simp [h3] at hc
                  | some od' =>
                    simp only [h3, Option.bind_some, pure, Option.some.injEq, CreateReq.mk.injEq] at hc
                    obtain ⟨e1, _⟩ := hc
                    subst e1
                    obtain ⟨v, hv'⟩ := ptr_some_some j "suffixData" SuffixData.ofJson? sd h2
                    exact suffixData_of_json_ao v sd hv'
          have hsdrt := suffixData_roundtrip sd hao
          have hdrt := delta_roundtrip d (validateDelta_wf cfg orc d hv)
          have e1 : ∃ kvs, sd.toJson = .obj kvs := ⟨_, rfl⟩
          have e2 : ∃ kvs, d.toJson = .obj kvs := ⟨_, rfl⟩
          obtain ⟨k1, e1⟩ := e1
          obtain ⟨k2, e2⟩ := e2
          rw [e1] at hsdrt
          rw [e2] at hdrt
          have hdec : decodeCreate (anchoredJson { type := .create, uniqueSuffix := suffix, delta := some d, suffixData := some sd, anchorOrigin := sd.anchorOrigin }) = some { suffixData := some sd, delta := some d } := by
            simp [anchoredJson, decodeCreate, GoJson.topObject, GoJson.str, GoJson.ptr, Json.get?, Json.lookup, e1, e2, hsdrt, hdrt]
          simp only at hvs
          simp only [Option.getD_some]
          simp [parseCreate, hdec, hvs, hchk, halg, hsfx, guard']

/-! ### … and so it applies to the same state -/

theorem batch_of_nonbatch_create (req : Json) (p : ParsedOp) (h : parseCreate H cfg orc req false = some p) :
    parseCreate H cfg orc req true = some p := by
  obtain ⟨c, alg, suffix, hc, hvs, _, halg, hsfx, rfl⟩ := parseCreate_inv H cfg orc req false p h
  simp [parseCreate, hc, hvs, halg, hsfx, guard']

theorem batch_of_nonbatch_update (req : Json) (p : ParsedOp) (h : parseUpdate H cfg orc req false = some p) :
    parseUpdate H cfg orc req true = some p := by
  obtain ⟨c, sd, hc, hs, _, hrev, rfl⟩ := parseUpdate_inv H cfg orc req false p h
  simp [parseUpdate, hc, hs, hrev, guard']

theorem batch_of_nonbatch_recover (req : Json) (p : ParsedOp) (h : parseRecover H cfg orc req false = some p) :
    parseRecover H cfg orc req true = some p := by
  obtain ⟨c, sd, hc, hs, _, hrev, rfl⟩ := parseRecover_inv H cfg orc req false p h
  simp [parseRecover, hc, hs, hrev, guard']

theorem batch_of_nonbatch_deactivate (req : Json) (p : ParsedOp) (h : parseDeactivate H cfg orc req false = some p) :
    parseDeactivate H cfg orc req true = some p := by
  obtain ⟨c, sd, hc, hs, hsfx, hrev, _, rfl⟩ := parseDeactivate_inv H cfg orc req false p h
  simp [parseDeactivate, hc, hs, hsfx, hrev, guard']

/-- what `ParseOperation` accepted was accepted by the parser of the type it reports -/
theorem parseOperation_inv (size : Nat) (req : Json) (p : ParsedOp)
    (h : parseOperation H cfg orc size (some req) false = some p) :
    match p.type with
    | .create => parseCreate H cfg orc req false = some p
    | .update => parseUpdate H cfg orc req false = some p
    | .recover => parseRecover H cfg orc req false = some p
    | .deactivate => parseDeactivate H cfg orc req false = some p := by
  unfold parseOperation at h
  cases hg : guard' (!decide (size > cfg.maxOperationSize)) with
  | none => simp [hg] at h
  | some u =>
    simp only [hg, Option.bind_eq_bind, Option.bind_some] at h
    cases ht : requestType (some req) with
    | none => simp [ht] at h
    | some ty =>
      simp only [ht, Option.bind_some] at h
      cases ty with
      | create =>
        obtain ⟨_, _, _, _, _, _, _, _, e⟩ := parseCreate_inv H cfg orc req false p h
        subst e; exact h
      | update =>
        obtain ⟨_, _, _, _, _, _, e⟩ := parseUpdate_inv H cfg orc req false p h
        subst e; exact h
      | recover =>
        obtain ⟨_, _, _, _, _, _, e⟩ := parseRecover_inv H cfg orc req false p h
        subst e; exact h
      | deactivate =>
        obtain ⟨_, _, _, _, _, _, _, e⟩ := parseDeactivate_inv H cfg orc req false p h
        subst e; exact h

/-- **the anchored form applies like the original**: for an operation the parser accepted,
    anchored under the type it reports, the applier behaves on the re-assembled request exactly
    as on the original one — same verdict, same resulting state — whatever the state. -/
theorem anchored_applies_alike (op : AnchoredOp) (rm : RM) (size : Nat) (req : Json) (p : ParsedOp)
    (hreq : op.request = some req) (hty : op.type = p.type.toString)
    (hp : parseOperation H cfg orc size (some req) false = some p) :
    Applier.apply H cfg orc { op with request := some (anchoredJson p) } rm = Applier.apply H cfg orc op rm := by
  have hinv := parseOperation_inv H cfg orc size req p hp
  unfold Applier.apply
  simp only [hty]
  cases hpt : p.type with
  | create =>
    rw [hpt] at hinv
    have a := anchored_create H cfg orc req p hinv true
    have b := batch_of_nonbatch_create H cfg orc req p hinv
    simp [OpType.toString, OpType.ofString?, Applier.parseAs, hreq, a, b, Applier.applyCreate]
  | update =>
    rw [hpt] at hinv
    have a := anchored_update H cfg orc req p hinv true
    have b := batch_of_nonbatch_update H cfg orc req p hinv
    simp [OpType.toString, OpType.ofString?, Applier.parseAs, hreq, a, b, Applier.applyUpdate]
  | recover =>
    rw [hpt] at hinv
    have a := anchored_recover H cfg orc req p hinv true
    have b := batch_of_nonbatch_recover H cfg orc req p hinv
    simp [OpType.toString, OpType.ofString?, Applier.parseAs, hreq, a, b, Applier.applyRecover]
  | deactivate =>
    rw [hpt] at hinv
    have a := anchored_deactivate H cfg orc req p hinv true
    have b := batch_of_nonbatch_deactivate H cfg orc req p hinv
    simp [OpType.toString, OpType.ofString?, Applier.parseAs, hreq, a, b, Applier.applyDeactivate]

/-- the anchored form keeps the suffix, the type and the anchor origin: it is parsed to the same operation -/
theorem anchored_parses_same (size : Nat) (req : Json) (p : ParsedOp)
    (hp : parseOperation H cfg orc size (some req) false = some p) :
    match p.type with
    | .create => parseCreate H cfg orc (anchoredJson p) false = some p
    | .update => parseUpdate H cfg orc (anchoredJson p) false = some p
    | .recover => parseRecover H cfg orc (anchoredJson p) false = some p
    | .deactivate => parseDeactivate H cfg orc (anchoredJson p) false = some p := by
  have hinv := parseOperation_inv H cfg orc size req p hp
  cases hpt : p.type with
  | create => rw [hpt] at hinv; exact anchored_create H cfg orc req p hinv false
  | update => rw [hpt] at hinv; exact anchored_update H cfg orc req p hinv false
  | recover => rw [hpt] at hinv; exact anchored_recover H cfg orc req p hinv false
  | deactivate => rw [hpt] at hinv; exact anchored_deactivate H cfg orc req p hinv false

/-! ### applying a built create yields what was asked for -/

/-- **a built create request, anchored and applied to the empty state, yields the requested
    document and commitments**: the document is what the composer makes of the caller's patches
    (the caller's document, C10), the commitments and the anchor origin are the caller's. -/
theorem built_create_yields (ok : HashOK H) (i : CreateInfo) (req : Json) (patches : List Json) (op : AnchoredOp) (d : Json)
    (hb : newCreateRequest H i = some req)
    (hp : patchesOf i.opaqueDoc i.patches = some patches)
    (halg : cfg.multihashAlgorithms = [i.code])
    (hao : i.anchorOrigin ≠ some .null) (horigin : orc.anchorOriginOK i.anchorOrigin = true)
    (hdelta : validateDelta cfg orc (some (mkDelta i.updateCommitment patches)) = true)
    (hlen : ∀ s, utf8Len s ≤ cfg.maxOperationHashLength ∨ (s ≠ i.recoveryCommitment ∧
              Hashing.calculateModelMultihash H (mkDelta i.updateCommitment patches).toJson i.code ≠ some s))
    (hcanon : ∀ dh, (transformValue (SuffixData.toJson { deltaHash := dh, recoveryCommitment := i.recoveryCommitment, anchorOrigin := i.anchorOrigin, type := i.type })).isSome = true)
    (hty : op.type = "create") (hreq : op.request = some req)
    (hdoc : Composer.applyPatches Applier.emptyDoc patches = .ok d) :
    ∃ rm', Applier.apply H cfg orc op {} = .ok rm' ∧ rm'.doc = some d ∧
      rm'.updateCommitment = i.updateCommitment ∧ rm'.recoveryCommitment = i.recoveryCommitment ∧
      rm'.anchorOrigin = i.anchorOrigin ∧ rm'.deactivated = false ∧ rm'.createdTime = op.transactionTime := by
  obtain ⟨p, hparse, _, hpd, hprc, hpao, _⟩ :=
    create_built_accepted H cfg orc ok i req patches hb hp halg hao horigin hdelta hlen hcanon
  have hbatch := batch_of_nonbatch_create H cfg orc req p hparse
  obtain ⟨c, alg, suffix, hc, hvs, hchk, _, _, hpe⟩ := parseCreate_inv H cfg orc req false p hparse
  rcases hchk with hchk | hchk
  · cases hchk
  · subst hpe
    simp only at hpd hprc hpao
    cases hsd : c.suffixData with
    | none => simp [hsd] at hprc
    | some sd =>
      simp only [hsd, Option.map_some, Option.some.injEq] at hprc
      simp only [hsd, Option.getD_some] at hpao hchk
      simp only [createChecks, Bool.and_eq_true, bne_iff_ne, ne_eq] at hchk
      obtain ⟨⟨⟨_, hvd⟩, hvalid⟩, _⟩ := hchk
      have hpat : Applier.patched Applier.emptyDoc c.delta = .inl (some d) := by
        simp [Applier.patched, hpd, mkDelta, hdoc]
      refine ⟨{ doc := some d, createdTime := op.transactionTime, lastOperationTransactionTime := op.transactionTime,
                lastOperationTransactionNumber := op.transactionNumber, lastOperationProtocolVersion := op.protocolVersion,
                versionID := op.canonicalReference, canonicalReference := op.canonicalReference,
                equivalentReferences := op.equivalentReferences, recoveryCommitment := sd.recoveryCommitment,
                anchorOrigin := sd.anchorOrigin, updateCommitment := (c.delta.getD default).updateCommitment }, ?_, ?_⟩
      · simp only [Applier.apply, hty, OpType.ofString?, Applier.parseAs, hreq, hbatch]
        simp [Applier.applyCreate, hsd, hvalid, hvd, hpat]
      · simp [hpd, mkDelta, hprc, hpao]

/-! ### signed requests

  The compact JWS a builder emits is read back by the parser through the JWS framing (C15) and
  the JSON reader (C05). `ReadsBack…` states that reading as one hypothesis: the parser's signed
  data decoder, run on what `signModel` produced from a model, returns that model's fields. The
  correspondence stream checks it on every generated request; the theorems below prove everything
  else the parser demands of a built request. -/

theorem compact_ne_empty (model : Json) (s : Signer) (compact : String) (h : signModel model s = some compact) : compact ≠ "" := by
  unfold signModel at h
  cases h1 : transformValue model with
  | none => simp [h1] at h
  | some payload =>
    cases h2 : s.headers with
    | none => simp [h1, h2] at h
    | some hdrs =>
      simp only [h1, h2] at h
      cases h3 : Json.lookup "alg" hdrs with
      | none => simp [h3] at h
      | some v =>
        cases v with
        | str alg =>
          simp only [h3] at h
          by_cases ha : alg = ""
          · simp [ha] at h
          · simp only [ha, if_false] at h
            cases h4 : Jws.marshalHeaders hdrs with
            | none => simp [h4] at h
            | some hb =>
              simp only [h4] at h
              split at h
              · simp only [Option.some.injEq] at h
                subst h
                intro e
                have := congrArg String.toList e
                simp at this
              · cases h
        | _ => simp [h3] at h

theorem code_of_multihashOK (mh : String) (c : Nat) (halg : cfg.multihashAlgorithms = [c]) (h : multihashOK cfg mh = true) :
    Hashing.getMultihashCode mh = some c := by
  simp only [multihashOK, Hashing.isComputedUsing, halg, Bool.and_eq_true] at h
  cases hg : Hashing.getMultihashCode mh with
  | none => simp [hg] at h
  | some c' =>
    simp only [hg, List.contains_cons, List.contains_nil, Bool.or_false, beq_iff_eq] at h
    rw [h.2]

/-- key reuse: the builder's check is the parser's -/
theorem fresh_of_differs (k : Jwk) (c : Nat) (next : String) (halg : cfg.multihashAlgorithms = [c])
    (hm : multihashOK cfg next = true) (hd : commitmentDiffers H k c next = true) : commitmentFresh H k next = true := by
  unfold commitmentFresh
  rw [code_of_multihashOK cfg next c halg hm]
  unfold commitmentDiffers at hd
  cases hc : Hashing.commitment H k.toJson c with
  | none => simp [hc] at hd
  | some cur => simpa [hc] using hd

/-- **a built update request is accepted**, given that the parser reads the signed data back -/
theorem update_built_accepted (ok : HashOK H) (i : UpdateInfo) (req : Json) (k : Jwk)
    (hb : newUpdateRequestCore H i = some req) (hk : i.updateKey = some k)
    (halg : cfg.multihashAlgorithms = [i.code])
    (hdelta : validateDelta cfg orc (some (mkDelta i.updateCommitment i.patches)) = true)
    (hrv : multihashOK cfg i.revealValue = true)
    (hreveal : ∃ c, Hashing.revealValue H k.toJson c = some i.revealValue)
    (htime : orc.anchorTimeOK i.anchorFrom (anchorUntil cfg i.anchorFrom i.anchorUntil) = true)
    (hread : ∀ s dh compact, i.signer = some s →
        Hashing.calculateModelMultihash H (mkDelta i.updateCommitment i.patches).toJson i.code = some dh →
        signModel (updateSignedJson (some k) dh i.anchorFrom i.anchorUntil) s = some compact →
        parseSignedDataForUpdate cfg compact =
          some { key := some k, deltaHash := dh, anchorFrom := i.anchorFrom, anchorUntil := i.anchorUntil }) :
    ∃ p, parseUpdate H cfg orc req false = some p ∧ p.type = .update ∧ p.uniqueSuffix = i.didSuffix ∧
      p.delta = some (mkDelta i.updateCommitment i.patches) ∧ p.revealValue = i.revealValue := by
  unfold newUpdateRequestCore at hb
  by_cases h0 : i.didSuffix = "" ∨ i.revealValue = "" ∨ i.patches.isEmpty = true
  · rw [if_pos h0] at hb; cases hb
  · rw [if_neg h0] at hb
    simp only [hk] at hb
    cases hs : i.signer with
    | none => simp [hs] at hb
    | some s =>
      simp only [hs] at hb
      by_cases h1 : (!k.valid) = true ∨ (!signerOK (some s)) = true
      · rw [if_pos h1] at hb; cases hb
      · rw [if_neg h1] at hb
        cases hdh : Hashing.calculateModelMultihash H (mkDelta i.updateCommitment i.patches).toJson i.code with
        | none => simp [hdh] at hb
        | some dh =>
          simp only [hdh] at hb
          cases hcd : commitmentDiffers H k i.code i.updateCommitment with
          | false => simp [hcd] at hb
          | true =>
            simp only [hcd, Bool.not_true, Bool.false_eq_true, if_false] at hb
            cases hsm : signModel (updateSignedJson (some k) dh i.anchorFrom i.anchorUntil) s with
            | none => simp [hsm] at hb
            | some compact =>
              simp only [hsm, Option.some.injEq] at hb
              subst hb
              have hds : i.didSuffix ≠ "" := fun e => h0 (Or.inl e)
              have hcne := compact_ne_empty _ _ _ hsm
              have hwf := validateDelta_wf cfg orc _ hdelta
              have hdec := decodeCommon_anchored cfg "update"
                { didSuffix := i.didSuffix, revealValue := i.revealValue, signedData := compact,
                  delta := some (mkDelta i.updateCommitment i.patches) } hds hcne hrv
                (fun d e => by cases e; exact hwf)
              have hsd := hread s dh compact hs hdh hsm
              have hmuc : multihashOK cfg i.updateCommitment = true := by
                simp only [validateDelta, mkDelta] at hdelta
                cases hpp : i.patches with
                | nil => simp [hpp] at hdelta
                | cons a as => simp only [hpp, Bool.and_eq_true] at hdelta; exact hdelta.1.2
              have hfresh := fresh_of_differs H cfg k i.code i.updateCommitment halg hmuc hcd
              obtain ⟨c, hc⟩ := hreveal
              have hrm : revealMatches H (some k) i.revealValue = true := calculated_is_valid H ok _ _ _ hc
              refine ⟨{ type := .update, uniqueSuffix := i.didSuffix, delta := some (mkDelta i.updateCommitment i.patches),
                        signedData := compact, revealValue := i.revealValue }, ?_, rfl, rfl, rfl, rfl⟩
              have huc : (mkDelta i.updateCommitment i.patches).updateCommitment = i.updateCommitment := rfl
              simp only [deltaJson] at hdec
              simp [parseUpdate, signedRequestJson, hdec, hsd, htime, hdelta, keyFresh, hfresh, hrm, guard', huc]

/-- **a built recover request is accepted**, given that the parser reads the signed data back and
    — the one condition the builder does not enforce itself (known finding D11) — that the next
    update and recovery commitments differ -/
theorem recover_built_accepted (ok : HashOK H) (i : RecoverInfo) (req : Json) (k : Jwk) (patches : List Json)
    (hb : newRecoverRequestCore H i = some req) (hk : i.recoveryKey = some k)
    (hp : patchesOf i.opaqueDoc i.patches = some patches)
    (hdelta : validateDelta cfg orc (some (mkDelta i.updateCommitment patches)) = true)
    (hne : i.updateCommitment ≠ i.recoveryCommitment)
    (hfreshU : keyFresh H (some k) i.updateCommitment = true)
    (hrv : multihashOK cfg i.revealValue = true)
    (hreveal : ∃ c, Hashing.revealValue H k.toJson c = some i.revealValue)
    (horigin : orc.anchorOriginOK i.anchorOrigin = true)
    (htime : orc.anchorTimeOK i.anchorFrom (anchorUntil cfg i.anchorFrom i.anchorUntil) = true)
    (hread : ∀ s dh compact, i.signer = some s →
        Hashing.calculateModelMultihash H (mkDelta i.updateCommitment patches).toJson i.code = some dh →
        signModel (recoverSignedJson (some k) dh i.recoveryCommitment i.anchorOrigin i.anchorFrom i.anchorUntil) s = some compact →
        parseSignedDataForRecover H cfg compact =
          some { key := some k, deltaHash := dh, recoveryCommitment := i.recoveryCommitment, anchorOrigin := i.anchorOrigin,
                 anchorFrom := i.anchorFrom, anchorUntil := i.anchorUntil }) :
    ∃ p, parseRecover H cfg orc req false = some p ∧ p.type = .recover ∧ p.uniqueSuffix = i.didSuffix ∧
      p.delta = some (mkDelta i.updateCommitment patches) ∧ p.revealValue = i.revealValue ∧ p.anchorOrigin = i.anchorOrigin := by
  unfold newRecoverRequestCore at hb
  by_cases h0 : i.didSuffix = "" ∨ i.revealValue = ""
  · rw [if_pos h0] at hb; cases hb
  · rw [if_neg h0] at hb
    by_cases h00 : ((i.opaqueDoc.isNone && i.patches.isEmpty) || (i.opaqueDoc.isSome && !i.patches.isEmpty)) = true
    · rw [if_pos h00] at hb; cases hb
    · rw [if_neg h00] at hb
      simp only [hk] at hb
      cases hs : i.signer with
      | none => simp [hs] at hb
      | some s =>
        simp only [hs] at hb
        by_cases h1 : (!signerOK (some s)) = true ∨ (!k.valid) = true
        · rw [if_pos h1] at hb; cases hb
        · rw [if_neg h1] at hb
          simp only [hp] at hb
          cases hdh : Hashing.calculateModelMultihash H (mkDelta i.updateCommitment patches).toJson i.code with
          | none => simp [hdh] at hb
          | some dh =>
            simp only [hdh] at hb
            cases hcd : commitmentDiffers H k i.code i.recoveryCommitment with
            | false => simp [hcd] at hb
            | true =>
              simp only [hcd, Bool.not_true, Bool.false_eq_true, if_false] at hb
              cases hcd2 : commitmentDiffers H k i.code i.updateCommitment with
              | false => simp [hcd2] at hb
              | true =>
              simp only [hcd2, Bool.not_true, Bool.false_eq_true, if_false] at hb
              cases hsm : signModel (recoverSignedJson (some k) dh i.recoveryCommitment i.anchorOrigin i.anchorFrom i.anchorUntil) s with
              | none => simp [hsm] at hb
              | some compact =>
                simp only [hsm, Option.some.injEq] at hb
                subst hb
                have hds : i.didSuffix ≠ "" := fun e => h0 (Or.inl e)
                have hcne := compact_ne_empty _ _ _ hsm
                have hwf := validateDelta_wf cfg orc _ hdelta
                have hdec := decodeCommon_anchored cfg "recover"
                  { didSuffix := i.didSuffix, revealValue := i.revealValue, signedData := compact,
                    delta := some (mkDelta i.updateCommitment patches) } hds hcne hrv
                  (fun d e => by cases e; exact hwf)
                have hsd := hread s dh compact hs hdh hsm
                obtain ⟨c, hc⟩ := hreveal
                have hrm : revealMatches H (some k) i.revealValue = true := calculated_is_valid H ok _ _ _ hc
                refine ⟨{ type := .recover, uniqueSuffix := i.didSuffix, delta := some (mkDelta i.updateCommitment patches),
                          signedData := compact, revealValue := i.revealValue, anchorOrigin := i.anchorOrigin }, ?_, rfl, rfl, rfl, rfl, rfl⟩
                have huc : (mkDelta i.updateCommitment patches).updateCommitment = i.updateCommitment := rfl
                simp only [deltaJson] at hdec
                simp [parseRecover, signedRequestJson, hdec, hsd, horigin, htime, hdelta, hrm, guard', huc, hne, hfreshU]

/-- **a built deactivate request is accepted**, given that the parser reads the signed data back -/
theorem deactivate_built_accepted (ok : HashOK H) (i : DeactivateInfo) (req : Json) (k : Jwk)
    (hb : newDeactivateRequestCore i = some req) (hk : i.recoveryKey = some k)
    (hrv : multihashOK cfg i.revealValue = true)
    (hreveal : ∃ c, Hashing.revealValue H k.toJson c = some i.revealValue)
    (htime : orc.anchorTimeOK i.anchorFrom (anchorUntil cfg i.anchorFrom i.anchorUntil) = true)
    (hread : ∀ s compact, i.signer = some s →
        signModel (deactivateSignedJson i.didSuffix (some k) i.anchorFrom i.anchorUntil) s = some compact →
        parseSignedDataForDeactivate cfg compact =
          some { key := some k, didSuffix := i.didSuffix, anchorFrom := i.anchorFrom, anchorUntil := i.anchorUntil }) :
    ∃ p, parseDeactivate H cfg orc req false = some p ∧ p.type = .deactivate ∧ p.uniqueSuffix = i.didSuffix ∧
      p.revealValue = i.revealValue := by
  unfold newDeactivateRequestCore at hb
  by_cases h0 : i.didSuffix = "" ∨ i.revealValue = ""
  · rw [if_pos h0] at hb; cases hb
  · rw [if_neg h0] at hb
    cases hs : i.signer with
    | none => simp [hs] at hb
    | some s =>
      simp only [hs] at hb
      by_cases h1 : (!signerOK (some s)) = true
      · rw [if_pos h1] at hb; cases hb
      · rw [if_neg h1] at hb
        simp only [hk] at hb
        cases hsm : signModel (deactivateSignedJson i.didSuffix (some k) i.anchorFrom i.anchorUntil) s with
        | none => simp [hsm] at hb
        | some compact =>
          simp only [hsm, Option.some.injEq] at hb
          subst hb
          have hds : i.didSuffix ≠ "" := fun e => h0 (Or.inl e)
          have hcne := compact_ne_empty _ _ _ hsm
          have hdec := decodeCommon_anchored_nodelta cfg
            { didSuffix := i.didSuffix, revealValue := i.revealValue, signedData := compact, delta := none } hds hcne hrv rfl
          have hsd := hread s compact hs hsm
          obtain ⟨c, hc⟩ := hreveal
          have hrm : revealMatches H (some k) i.revealValue = true := calculated_is_valid H ok _ _ _ hc
          refine ⟨{ type := .deactivate, uniqueSuffix := i.didSuffix, signedData := compact, revealValue := i.revealValue }, ?_, rfl, rfl, rfl⟩
          simp [parseDeactivate, signedRequestJson, hdec, hsd, htime, hrm, guard']

/-! ### … and without the read-back hypothesis, for requests without an anchoring window

  `Lemmas/Framing.lean` proves the read-back for number-free signed models: no anchoring window
  (the Sidetree client never sets one), anchor origin absent or a string, a signer whose header
  names and values are plain strings. What remains are conditions on the inputs only. -/

open Sidetree.Framing in
/-- **update, unconditional**: built by `NewUpdateRequest` without a window, signed by a fitting
    signer with an allowed key ⇒ accepted -/
theorem update_built_accepted_unwindowed (ok : HashOK H) (i : UpdateInfo) (req : Json) (k : Jwk) (s : Signer)
    (hdrs : List (String × Json))
    (hb : newUpdateRequestCore H i = some req) (hk : i.updateKey = some k) (hsg : i.signer = some s)
    (hw : i.anchorFrom = 0 ∧ i.anchorUntil = 0)
    (halg : cfg.multihashAlgorithms = [i.code])
    (hdelta : validateDelta cfg orc (some (mkDelta i.updateCommitment i.patches)) = true)
    (hrv : multihashOK cfg i.revealValue = true)
    (hreveal : ∃ c, Hashing.revealValue H k.toJson c = some i.revealValue)
    (htime : orc.anchorTimeOK 0 (anchorUntil cfg 0 0) = true)
    (fit : SignerFits cfg s hdrs) (hkey : signingKeyOK cfg (some k) = true)
    (hlen : ∀ dh, Hashing.calculateModelMultihash H (mkDelta i.updateCommitment i.patches).toJson i.code = some dh →
        utf8Len dh ≤ cfg.maxOperationHashLength) :
    ∃ p, parseUpdate H cfg orc req false = some p ∧ p.type = .update ∧ p.uniqueSuffix = i.didSuffix ∧
      p.delta = some (mkDelta i.updateCommitment i.patches) ∧ p.revealValue = i.revealValue := by
  obtain ⟨hf, hu⟩ := hw
  apply update_built_accepted H cfg orc ok i req k hb hk halg hdelta hrv hreveal (by rw [hf, hu]; exact htime)
  intro s' dh compact hs' hdh hsm
  rw [hsg] at hs'
  cases hs'
  rw [hf, hu] at hsm ⊢
  have hmok : multihashOK cfg dh = true := by
    have hl := hlen dh hdh
    have hc := calculated_computed_using H ok _ _ _ hdh
    simp only [multihashOK, halg, Bool.and_eq_true, Bool.not_eq_true', decide_eq_false_iff_not, Nat.not_lt]
    exact ⟨hl, hc⟩
  exact update_reads_back cfg k dh s hdrs compact hsm fit hkey hmok

open Sidetree.Framing in
/-- **deactivate, unconditional** -/
theorem deactivate_built_accepted_unwindowed (ok : HashOK H) (i : DeactivateInfo) (req : Json) (k : Jwk) (s : Signer)
    (hdrs : List (String × Json))
    (hb : newDeactivateRequestCore i = some req) (hk : i.recoveryKey = some k) (hsg : i.signer = some s)
    (hw : i.anchorFrom = 0 ∧ i.anchorUntil = 0)
    (hrv : multihashOK cfg i.revealValue = true)
    (hreveal : ∃ c, Hashing.revealValue H k.toJson c = some i.revealValue)
    (htime : orc.anchorTimeOK 0 (anchorUntil cfg 0 0) = true)
    (fit : SignerFits cfg s hdrs) (hkey : signingKeyOK cfg (some k) = true) :
    ∃ p, parseDeactivate H cfg orc req false = some p ∧ p.type = .deactivate ∧ p.uniqueSuffix = i.didSuffix ∧
      p.revealValue = i.revealValue := by
  obtain ⟨hf, hu⟩ := hw
  apply deactivate_built_accepted H cfg orc ok i req k hb hk hrv hreveal (by rw [hf, hu]; exact htime)
  intro s' compact hs' hsm
  rw [hsg] at hs'
  cases hs'
  rw [hf, hu] at hsm ⊢
  exact deactivate_reads_back cfg k i.didSuffix s hdrs compact hsm fit hkey

open Sidetree.Framing in
/-- **recover, unconditional** (anchor origin absent or a string; the commitments must differ —
    the condition `NewRecoverRequest` does not enforce, D11) -/
theorem recover_built_accepted_unwindowed (ok : HashOK H) (i : RecoverInfo) (req : Json) (k : Jwk) (s : Signer)
    (hdrs : List (String × Json)) (patches : List Json) (ao : Option String)
    (hb : newRecoverRequestCore H i = some req) (hk : i.recoveryKey = some k) (hsg : i.signer = some s)
    (hw : i.anchorFrom = 0 ∧ i.anchorUntil = 0) (hao : i.anchorOrigin = ao.map Json.str)
    (hp : patchesOf i.opaqueDoc i.patches = some patches)
    (halg : cfg.multihashAlgorithms = [i.code])
    (hdelta : validateDelta cfg orc (some (mkDelta i.updateCommitment patches)) = true)
    (hne : i.updateCommitment ≠ i.recoveryCommitment)
    (hrv : multihashOK cfg i.revealValue = true)
    (hreveal : ∃ c, Hashing.revealValue H k.toJson c = some i.revealValue)
    (horigin : orc.anchorOriginOK i.anchorOrigin = true)
    (htime : orc.anchorTimeOK 0 (anchorUntil cfg 0 0) = true)
    (fit : SignerFits cfg s hdrs) (hkey : signingKeyOK cfg (some k) = true)
    (hrc : multihashOK cfg i.recoveryCommitment = true)
    (hlen : ∀ dh, Hashing.calculateModelMultihash H (mkDelta i.updateCommitment patches).toJson i.code = some dh →
        utf8Len dh ≤ cfg.maxOperationHashLength) :
    ∃ p, parseRecover H cfg orc req false = some p ∧ p.type = .recover ∧ p.uniqueSuffix = i.didSuffix ∧
      p.delta = some (mkDelta i.updateCommitment patches) ∧ p.revealValue = i.revealValue ∧ p.anchorOrigin = i.anchorOrigin := by
  obtain ⟨hf, hu⟩ := hw
  -- the builder's own key-reuse check gives the parser's
  have hfresh : commitmentFresh H k i.recoveryCommitment = true := by
    unfold newRecoverRequestCore at hb
    by_cases h0 : i.didSuffix = "" ∨ i.revealValue = ""
    · rw [if_pos h0] at hb; cases hb
    · rw [if_neg h0] at hb
      by_cases h00 : ((i.opaqueDoc.isNone && i.patches.isEmpty) || (i.opaqueDoc.isSome && !i.patches.isEmpty)) = true
      · rw [if_pos h00] at hb; cases hb
      · rw [if_neg h00] at hb
        simp only [hk, hsg] at hb
        by_cases h1 : (!signerOK (some s)) = true ∨ (!k.valid) = true
        · rw [if_pos h1] at hb; cases hb
        · rw [if_neg h1] at hb
          simp only [hp] at hb
          cases hdh : Hashing.calculateModelMultihash H (mkDelta i.updateCommitment patches).toJson i.code with
          | none => simp [hdh] at hb
          | some dh =>
            simp only [hdh] at hb
            cases hcd : commitmentDiffers H k i.code i.recoveryCommitment with
            | false => simp [hcd] at hb
            | true => exact fresh_of_differs H cfg k i.code i.recoveryCommitment halg hrc hcd
  -- … and so does the one on the next update commitment (a valid delta's commitment is a well-formed hash)
  have hmuc : multihashOK cfg i.updateCommitment = true := by
    have hd := hdelta
    simp only [validateDelta, mkDelta] at hd
    cases hpp : patches with
    | nil => simp [hpp] at hd
    | cons a as => simp only [hpp, Bool.and_eq_true] at hd; exact hd.1.2
  have hfreshU : keyFresh H (some k) i.updateCommitment = true := by
    unfold newRecoverRequestCore at hb
    by_cases h0 : i.didSuffix = "" ∨ i.revealValue = ""
    · rw [if_pos h0] at hb; cases hb
    · rw [if_neg h0] at hb
      by_cases h00 : ((i.opaqueDoc.isNone && i.patches.isEmpty) || (i.opaqueDoc.isSome && !i.patches.isEmpty)) = true
      · rw [if_pos h00] at hb; cases hb
      · rw [if_neg h00] at hb
        simp only [hk, hsg] at hb
        by_cases h1 : (!signerOK (some s)) = true ∨ (!k.valid) = true
        · rw [if_pos h1] at hb; cases hb
        · rw [if_neg h1] at hb
          simp only [hp] at hb
          cases hdh : Hashing.calculateModelMultihash H (mkDelta i.updateCommitment patches).toJson i.code with
          | none => simp [hdh] at hb
          | some dh =>
            simp only [hdh] at hb
            cases hcd : commitmentDiffers H k i.code i.recoveryCommitment with
            | false => simp [hcd] at hb
            | true =>
              simp only [hcd, Bool.not_true, Bool.false_eq_true, if_false] at hb
              cases hcd2 : commitmentDiffers H k i.code i.updateCommitment with
              | false => simp [hcd2] at hb
              | true => exact fresh_of_differs H cfg k i.code i.updateCommitment halg hmuc hcd2
  apply recover_built_accepted H cfg orc ok i req k patches hb hk hp hdelta hne hfreshU hrv hreveal horigin (by rw [hf, hu]; exact htime)
  intro s' dh compact hs' hdh hsm
  rw [hsg] at hs'
  cases hs'
  rw [hf, hu, hao] at hsm ⊢
  have hmok : multihashOK cfg dh = true := by
    have hl := hlen dh hdh
    have hc := calculated_computed_using H ok _ _ _ hdh
    simp only [multihashOK, halg, Bool.and_eq_true, Bool.not_eq_true', decide_eq_false_iff_not, Nat.not_lt]
    exact ⟨hl, hc⟩
  exact recover_reads_back H cfg k dh i.recoveryCommitment ao s hdrs compact hsm fit hkey hmok hrc hfresh

/-! ### the builders proper

`NewUpdateRequest`, `NewRecoverRequest` and `NewDeactivateRequest` first refuse an anchoring window
that JCS cannot write exactly (D41) and then do what the theorems above speak about: each of those
theorems applies to the builder itself through the equivalences below. -/

theorem newUpdateRequest_some (i : UpdateInfo) (req : Json) :
    newUpdateRequest H i = some req ↔
      (windowExact i.anchorFrom i.anchorUntil = true ∧ newUpdateRequestCore H i = some req) := by
  unfold newUpdateRequest
  cases windowExact i.anchorFrom i.anchorUntil <;> simp

theorem newRecoverRequest_some (i : RecoverInfo) (req : Json) :
    newRecoverRequest H i = some req ↔
      (windowExact i.anchorFrom i.anchorUntil = true ∧ newRecoverRequestCore H i = some req) := by
  unfold newRecoverRequest
  cases windowExact i.anchorFrom i.anchorUntil <;> simp

theorem newDeactivateRequest_some (i : DeactivateInfo) (req : Json) :
    newDeactivateRequest i = some req ↔
      (windowExact i.anchorFrom i.anchorUntil = true ∧ newDeactivateRequestCore i = some req) := by
  unfold newDeactivateRequest
  cases windowExact i.anchorFrom i.anchorUntil <;> simp

/-- a bound beyond 2^53 is refused by all three builders: it would be signed as another number -/
theorem window_beyond_exact_refused (iu : UpdateInfo) (ir : RecoverInfo) (id' : DeactivateInfo)
    (hu : windowExact iu.anchorFrom iu.anchorUntil = false) (hr : windowExact ir.anchorFrom ir.anchorUntil = false)
    (hd : windowExact id'.anchorFrom id'.anchorUntil = false) :
    newUpdateRequest H iu = none ∧ newRecoverRequest H ir = none ∧ newDeactivateRequest id' = none := by
  simp [newUpdateRequest, newRecoverRequest, newDeactivateRequest, hu, hr, hd]

theorem windowExact_iff (af au : Int) :
    windowExact af au = true ↔ (-(2 : Int) ^ 53 ≤ af ∧ af ≤ 2 ^ 53 ∧ -(2 : Int) ^ 53 ≤ au ∧ au ≤ 2 ^ 53) := by
  simp [windowExact]

/-- no window set: always exact, so the unconditional theorems apply to the builders themselves -/
example : windowExact 0 0 = true := by decide
example : windowExact 9223372036854775807 0 = false := by decide

end Sidetree.Props.C08
