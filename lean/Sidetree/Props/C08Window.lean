/-
  C08 with an anchoring window: the acceptance theorems of Props/C08.lean without the read-back
  hypothesis, for every window the builders accept: bounds of magnitude up to 2^53 (they refuse
  anything beyond, D41), so the theorems apply to the builders themselves (`newUpdateRequest_accepted`).
  The integer members `anchorFrom` / `anchorUntil` are written by RFC 8785 as the digits of the
  integer (Lemmas/NumInt*.lean) and read back as the very literal (Lemmas/RoundTripNum.lean,
  Lemmas/FramingNum.lean).
-/
import Sidetree.Props.C08
import Sidetree.Props.C05Num
import Sidetree.Lemmas.FramingNum

namespace Sidetree.Props.C08
open Sidetree Sidetree.Parser Sidetree.Client

variable (H : HashFam) (cfg : Protocol) (orc : Oracles)

open Sidetree.Framing in
/-- **update, with an anchoring window** (both bounds of magnitude at most 2^53): built by
    `NewUpdateRequest`'s core, signed by a fitting signer with an allowed key ⇒ accepted -/
theorem update_built_accepted_windowed (ok : HashOK H) (i : UpdateInfo) (req : Json) (k : Jwk) (s : Signer)
    (hdrs : List (String × Json))
    (hb : newUpdateRequestCore H i = some req) (hk : i.updateKey = some k) (hsg : i.signer = some s)
    (hw : i.anchorFrom.natAbs ≤ 2 ^ 53 ∧ i.anchorUntil.natAbs ≤ 2 ^ 53)
    (halg : cfg.multihashAlgorithms = [i.code])
    (hdelta : validateDelta cfg orc (some (mkDelta i.updateCommitment i.patches)) = true)
    (hrv : multihashOK cfg i.revealValue = true)
    (hreveal : ∃ c, Hashing.revealValue H k.toJson c = some i.revealValue)
    (htime : orc.anchorTimeOK i.anchorFrom (anchorUntil cfg i.anchorFrom i.anchorUntil) = true)
    (fit : SignerFits cfg s hdrs) (hkey : signingKeyOK cfg (some k) = true)
    (hlen : ∀ dh, Hashing.calculateModelMultihash H (mkDelta i.updateCommitment i.patches).toJson i.code = some dh →
        utf8Len dh ≤ cfg.maxOperationHashLength) :
    ∃ p, parseUpdate H cfg orc req false = some p ∧ p.type = .update ∧ p.uniqueSuffix = i.didSuffix ∧
      p.delta = some (mkDelta i.updateCommitment i.patches) ∧ p.revealValue = i.revealValue := by
  obtain ⟨hf, hu⟩ := hw
  have sf : IntStable i.anchorFrom := Props.C05.int_stable_le _ hf
  have su : IntStable i.anchorUntil := Props.C05.int_stable_le _ hu
  have rf : Int64Range i.anchorFrom := by unfold Int64Range; omega
  have ru : Int64Range i.anchorUntil := by unfold Int64Range; omega
  apply update_built_accepted H cfg orc ok i req k hb hk halg hdelta hrv hreveal htime
  intro s' dh compact hs' hdh hsm
  rw [hsg] at hs'
  cases hs'
  have hmok : multihashOK cfg dh = true := by
    have hl := hlen dh hdh
    have hc := calculated_computed_using H ok _ _ _ hdh
    simp only [multihashOK, halg, Bool.and_eq_true, Bool.not_eq_true', decide_eq_false_iff_not, Nat.not_lt]
    exact ⟨hl, hc⟩
  exact update_reads_back_window cfg k dh s hdrs compact _ _ sf su rf ru hsm fit hkey hmok

open Sidetree.Framing in
/-- **deactivate, with an anchoring window** -/
theorem deactivate_built_accepted_windowed (ok : HashOK H) (i : DeactivateInfo) (req : Json) (k : Jwk) (s : Signer)
    (hdrs : List (String × Json))
    (hb : newDeactivateRequestCore i = some req) (hk : i.recoveryKey = some k) (hsg : i.signer = some s)
    (hw : i.anchorFrom.natAbs ≤ 2 ^ 53 ∧ i.anchorUntil.natAbs ≤ 2 ^ 53)
    (hrv : multihashOK cfg i.revealValue = true)
    (hreveal : ∃ c, Hashing.revealValue H k.toJson c = some i.revealValue)
    (htime : orc.anchorTimeOK i.anchorFrom (anchorUntil cfg i.anchorFrom i.anchorUntil) = true)
    (fit : SignerFits cfg s hdrs) (hkey : signingKeyOK cfg (some k) = true) :
    ∃ p, parseDeactivate H cfg orc req false = some p ∧ p.type = .deactivate ∧ p.uniqueSuffix = i.didSuffix ∧
      p.revealValue = i.revealValue := by
  obtain ⟨hf, hu⟩ := hw
  have sf : IntStable i.anchorFrom := Props.C05.int_stable_le _ hf
  have su : IntStable i.anchorUntil := Props.C05.int_stable_le _ hu
  have rf : Int64Range i.anchorFrom := by unfold Int64Range; omega
  have ru : Int64Range i.anchorUntil := by unfold Int64Range; omega
  apply deactivate_built_accepted H cfg orc ok i req k hb hk hrv hreveal htime
  intro s' compact hs' hsm
  rw [hsg] at hs'
  cases hs'
  exact deactivate_reads_back_window cfg k i.didSuffix s hdrs compact _ _ sf su rf ru hsm fit hkey

open Sidetree.Framing in
/-- **recover, with an anchoring window** (anchor origin absent or a string; the commitments must differ —
    the condition `NewRecoverRequest` does not enforce, D11) -/
theorem recover_built_accepted_windowed (ok : HashOK H) (i : RecoverInfo) (req : Json) (k : Jwk) (s : Signer)
    (hdrs : List (String × Json)) (patches : List Json) (ao : Option String)
    (hb : newRecoverRequestCore H i = some req) (hk : i.recoveryKey = some k) (hsg : i.signer = some s)
    (hw : i.anchorFrom.natAbs ≤ 2 ^ 53 ∧ i.anchorUntil.natAbs ≤ 2 ^ 53) (hao : i.anchorOrigin = ao.map Json.str)
    (hp : patchesOf i.opaqueDoc i.patches = some patches)
    (halg : cfg.multihashAlgorithms = [i.code])
    (hdelta : validateDelta cfg orc (some (mkDelta i.updateCommitment patches)) = true)
    (hne : i.updateCommitment ≠ i.recoveryCommitment)
    (hrv : multihashOK cfg i.revealValue = true)
    (hreveal : ∃ c, Hashing.revealValue H k.toJson c = some i.revealValue)
    (horigin : orc.anchorOriginOK i.anchorOrigin = true)
    (htime : orc.anchorTimeOK i.anchorFrom (anchorUntil cfg i.anchorFrom i.anchorUntil) = true)
    (fit : SignerFits cfg s hdrs) (hkey : signingKeyOK cfg (some k) = true)
    (hrc : multihashOK cfg i.recoveryCommitment = true)
    (hlen : ∀ dh, Hashing.calculateModelMultihash H (mkDelta i.updateCommitment patches).toJson i.code = some dh →
        utf8Len dh ≤ cfg.maxOperationHashLength) :
    ∃ p, parseRecover H cfg orc req false = some p ∧ p.type = .recover ∧ p.uniqueSuffix = i.didSuffix ∧
      p.delta = some (mkDelta i.updateCommitment patches) ∧ p.revealValue = i.revealValue ∧ p.anchorOrigin = i.anchorOrigin := by
  obtain ⟨hf, hu⟩ := hw
  have sf : IntStable i.anchorFrom := Props.C05.int_stable_le _ hf
  have su : IntStable i.anchorUntil := Props.C05.int_stable_le _ hu
  have rf : Int64Range i.anchorFrom := by unfold Int64Range; omega
  have ru : Int64Range i.anchorUntil := by unfold Int64Range; omega
  -- the builder's own key-reuse check gives the parser's
  have hfresh : commitmentFresh H k i.recoveryCommitment = true := by
    unfold newRecoverRequestCore at hb
    by_cases h0 : i.didSuffix = "" ∨ i.revealValue = ""
    · rw [if_pos h0] at hb; cases hb
    · rw [if_neg h0] at hb
      by_cases h00 : ((i.opaqueDoc.isNone && i.patches.isEmpty) || (i.opaqueDoc.isSome && !i.patches.isEmpty)) = true
      · rw [if_pos h00] at hb; cases hb
      · rw [if_neg h00] at hb
        simp only [hk, hsg] at hb
        by_cases h1 : (!signerOK (some s)) = true ∨ (!k.valid) = true
        · rw [if_pos h1] at hb; cases hb
        · rw [if_neg h1] at hb
          simp only [hp] at hb
          cases hdh : Hashing.calculateModelMultihash H (mkDelta i.updateCommitment patches).toJson i.code with
          | none => simp [hdh] at hb
          | some dh =>
            simp only [hdh] at hb
            cases hcd : commitmentDiffers H k i.code i.recoveryCommitment with
            | false => simp [hcd] at hb
            | true => exact fresh_of_differs H cfg k i.code i.recoveryCommitment halg hrc hcd
  -- … and so does the one on the next update commitment (a valid delta's commitment is a well-formed hash)
  have hmuc : multihashOK cfg i.updateCommitment = true := by
    have hd := hdelta
    simp only [validateDelta, mkDelta] at hd
    cases hpp : patches with
    | nil => simp [hpp] at hd
    | cons a as => simp only [hpp, Bool.and_eq_true] at hd; exact hd.1.2
  have hfreshU : keyFresh H (some k) i.updateCommitment = true := by
    unfold newRecoverRequestCore at hb
    by_cases h0 : i.didSuffix = "" ∨ i.revealValue = ""
    · rw [if_pos h0] at hb; cases hb
    · rw [if_neg h0] at hb
      by_cases h00 : ((i.opaqueDoc.isNone && i.patches.isEmpty) || (i.opaqueDoc.isSome && !i.patches.isEmpty)) = true
      · rw [if_pos h00] at hb; cases hb
      · rw [if_neg h00] at hb
        simp only [hk, hsg] at hb
        by_cases h1 : (!signerOK (some s)) = true ∨ (!k.valid) = true
        · rw [if_pos h1] at hb; cases hb
        · rw [if_neg h1] at hb
          simp only [hp] at hb
          cases hdh : Hashing.calculateModelMultihash H (mkDelta i.updateCommitment patches).toJson i.code with
          | none => simp [hdh] at hb
          | some dh =>
            simp only [hdh] at hb
            cases hcd : commitmentDiffers H k i.code i.recoveryCommitment with
            | false => simp [hcd] at hb
            | true =>
              simp only [hcd, Bool.not_true, Bool.false_eq_true, if_false] at hb
              cases hcd2 : commitmentDiffers H k i.code i.updateCommitment with
              | false => simp [hcd2] at hb
              | true => exact fresh_of_differs H cfg k i.code i.updateCommitment halg hmuc hcd2
  apply recover_built_accepted H cfg orc ok i req k patches hb hk hp hdelta hne hfreshU hrv hreveal horigin htime
  intro s' dh compact hs' hdh hsm
  rw [hsg] at hs'
  cases hs'
  rw [hao] at hsm ⊢
  have hmok : multihashOK cfg dh = true := by
    have hl := hlen dh hdh
    have hc := calculated_computed_using H ok _ _ _ hdh
    simp only [multihashOK, halg, Bool.and_eq_true, Bool.not_eq_true', decide_eq_false_iff_not, Nat.not_lt]
    exact ⟨hl, hc⟩
  exact recover_reads_back_window H cfg k dh i.recoveryCommitment ao s hdrs compact _ _ sf su rf ru hsm fit hkey hmok hrc hfresh


/-- the builders' window guard is exactly the window hypothesis of the `…_windowed` theorems
    (bounds inclusive) -/
theorem windowExact_iff_natAbs (af au : Int) :
    windowExact af au = true ↔ (af.natAbs ≤ 2 ^ 53 ∧ au.natAbs ≤ 2 ^ 53) := by
  rw [windowExact_iff]; omega

/-- **`NewUpdateRequest` itself**: whatever the builder returns — it has then passed its own window
    guard — is accepted, with no condition on the window left (the other hypotheses of
    `update_built_accepted_windowed` remain; the driver evaluates them on every step the stream builds) -/
theorem newUpdateRequest_accepted (ok : HashOK H) (i : UpdateInfo) (req : Json) (k : Jwk) (s : Signer)
    (hdrs : List (String × Json))
    (hb : newUpdateRequest H i = some req) (hk : i.updateKey = some k) (hsg : i.signer = some s)
    (halg : cfg.multihashAlgorithms = [i.code])
    (hdelta : validateDelta cfg orc (some (mkDelta i.updateCommitment i.patches)) = true)
    (hrv : multihashOK cfg i.revealValue = true)
    (hreveal : ∃ c, Hashing.revealValue H k.toJson c = some i.revealValue)
    (htime : orc.anchorTimeOK i.anchorFrom (anchorUntil cfg i.anchorFrom i.anchorUntil) = true)
    (fit : Framing.SignerFits cfg s hdrs) (hkey : signingKeyOK cfg (some k) = true)
    (hlen : ∀ dh, Hashing.calculateModelMultihash H (mkDelta i.updateCommitment i.patches).toJson i.code = some dh →
        utf8Len dh ≤ cfg.maxOperationHashLength) :
    ∃ p, parseUpdate H cfg orc req false = some p ∧ p.type = .update ∧ p.uniqueSuffix = i.didSuffix ∧
      p.delta = some (mkDelta i.updateCommitment i.patches) ∧ p.revealValue = i.revealValue := by
  obtain ⟨hwe, hcore⟩ := (newUpdateRequest_some H i req).mp hb
  exact update_built_accepted_windowed H cfg orc ok i req k s hdrs hcore hk hsg
    ((windowExact_iff_natAbs _ _).mp hwe) halg hdelta hrv hreveal htime fit hkey hlen

/-- **`NewDeactivateRequest` itself** -/
theorem newDeactivateRequest_accepted (ok : HashOK H) (i : DeactivateInfo) (req : Json) (k : Jwk) (s : Signer)
    (hdrs : List (String × Json))
    (hb : newDeactivateRequest i = some req) (hk : i.recoveryKey = some k) (hsg : i.signer = some s)
    (hrv : multihashOK cfg i.revealValue = true)
    (hreveal : ∃ c, Hashing.revealValue H k.toJson c = some i.revealValue)
    (htime : orc.anchorTimeOK i.anchorFrom (anchorUntil cfg i.anchorFrom i.anchorUntil) = true)
    (fit : Framing.SignerFits cfg s hdrs) (hkey : signingKeyOK cfg (some k) = true) :
    ∃ p, parseDeactivate H cfg orc req false = some p ∧ p.type = .deactivate ∧ p.uniqueSuffix = i.didSuffix ∧
      p.revealValue = i.revealValue := by
  obtain ⟨hwe, hcore⟩ := (newDeactivateRequest_some i req).mp hb
  exact deactivate_built_accepted_windowed H cfg orc ok i req k s hdrs hcore hk hsg
    ((windowExact_iff_natAbs _ _).mp hwe) hrv hreveal htime fit hkey

/-- **`NewRecoverRequest` itself** (anchor origin absent or a string; the commitments must differ — D11) -/
theorem newRecoverRequest_accepted (ok : HashOK H) (i : RecoverInfo) (req : Json) (k : Jwk) (s : Signer)
    (hdrs : List (String × Json)) (patches : List Json) (ao : Option String)
    (hb : newRecoverRequest H i = some req) (hk : i.recoveryKey = some k) (hsg : i.signer = some s)
    (hao : i.anchorOrigin = ao.map Json.str)
    (hp : patchesOf i.opaqueDoc i.patches = some patches)
    (halg : cfg.multihashAlgorithms = [i.code])
    (hdelta : validateDelta cfg orc (some (mkDelta i.updateCommitment patches)) = true)
    (hne : i.updateCommitment ≠ i.recoveryCommitment)
    (hrv : multihashOK cfg i.revealValue = true)
    (hreveal : ∃ c, Hashing.revealValue H k.toJson c = some i.revealValue)
    (horigin : orc.anchorOriginOK i.anchorOrigin = true)
    (htime : orc.anchorTimeOK i.anchorFrom (anchorUntil cfg i.anchorFrom i.anchorUntil) = true)
    (fit : Framing.SignerFits cfg s hdrs) (hkey : signingKeyOK cfg (some k) = true)
    (hrc : multihashOK cfg i.recoveryCommitment = true)
    (hlen : ∀ dh, Hashing.calculateModelMultihash H (mkDelta i.updateCommitment patches).toJson i.code = some dh →
        utf8Len dh ≤ cfg.maxOperationHashLength) :
    ∃ p, parseRecover H cfg orc req false = some p ∧ p.type = .recover ∧ p.uniqueSuffix = i.didSuffix ∧
      p.delta = some (mkDelta i.updateCommitment patches) ∧ p.revealValue = i.revealValue ∧ p.anchorOrigin = i.anchorOrigin := by
  obtain ⟨hwe, hcore⟩ := (newRecoverRequest_some H i req).mp hb
  exact recover_built_accepted_windowed H cfg orc ok i req k s hdrs patches ao hcore hk hsg
    ((windowExact_iff_natAbs _ _).mp hwe) hao hp halg hdelta hne hrv hreveal horigin htime fit hkey hrc hlen

/-- the window hypothesis is met by real bounds (seconds since the epoch, block heights) -/
example : (1700000000 : Int).natAbs ≤ 2 ^ 53 ∧ (1700003600 : Int).natAbs ≤ 2 ^ 53 := by decide

end Sidetree.Props.C08
