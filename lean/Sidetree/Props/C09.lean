/-
  C09 — anchoring window. Statements only (helper lemmas are local and tiny here).
-/
import Sidetree.Window

namespace Sidetree.Props.C09
open Sidetree Sidetree.Window

theorem defaultDelta_applier (cfg : Protocol) :
    defaultDelta cfg Expected.anchorUntilParamApplier = (cfg.maxOperationTimeDelta : Int) := by
  simp [defaultDelta, Expected.anchorUntilParamApplier, Protocol.numField]

theorem defaultDelta_parser (cfg : Protocol) :
    defaultDelta cfg Expected.anchorUntilParamParser = (cfg.maxOperationTimeDelta : Int) := by
  simp [defaultDelta, Expected.anchorUntilParamParser, Protocol.numField]

/-- the window the property names: a missing `until` defaults to `from + maxOperationTimeDelta` -/
def untilOrDefault (cfg : Protocol) (frm untl : Int) : Int :=
  if untl = 0 then frm + cfg.maxOperationTimeDelta else untl

/-- **C09 main statement.** Effective iff neither bound is set, or `from ≤ t ≤ until`
    with the default expiry. (`from = 0 ∧ until ≠ 0` is the one-sided window `0 ≤ t ≤ until`;
    it is covered because `untilOrDefault` returns `until` there.) -/
theorem effective_iff (cfg : Protocol) (frm untl t : Int) :
    effective cfg frm untl t = true ↔
      (frm = 0 ∧ untl = 0) ∨ (frm ≤ t ∧ t ≤ untilOrDefault cfg frm untl) := by
  unfold effective anchorUntil untilOrDefault
  rw [defaultDelta_applier]
  by_cases h0 : frm = 0 ∧ untl = 0
  · simp [h0]
  · simp only [h0, if_false, false_or]
    by_cases hf : frm > t
    · simp [hf]; omega
    · simp only [hf, if_false]
      by_cases hu : untl = 0
      · have hfz : frm ≠ 0 := fun h => h0 ⟨h, hu⟩
        simp [hu, hfz]; omega
      · simp [hu]; omega

/-- only-from case spelled out -/
theorem only_from (cfg : Protocol) (frm t : Int) (h : frm ≠ 0) :
    effective cfg frm 0 t = true ↔ frm ≤ t ∧ t ≤ frm + cfg.maxOperationTimeDelta := by
  rw [effective_iff]; simp [untilOrDefault, h]

/-- only-until case spelled out -/
theorem only_until (cfg : Protocol) (untl t : Int) (h : untl ≠ 0) :
    effective cfg 0 untl t = true ↔ 0 ≤ t ∧ t ≤ untl := by
  rw [effective_iff]; simp [untilOrDefault, h]

/-- no bound: always effective -/
theorem unset_always (cfg : Protocol) (t : Int) : effective cfg 0 0 t = true := by
  simp [effective]

/-- the pair handed to the time validator is `(from, until-or-default)` whenever a bound is set
    with `from ≠ 0`, and `(from, until)` verbatim otherwise -/
theorem parser_hands_same_pair (cfg : Protocol) (frm untl : Int) :
    validatorPair cfg frm untl =
      (frm, capInt64 (if frm ≠ 0 ∧ untl = 0 then frm + cfg.maxOperationTimeDelta else untl)) := by
  simp [validatorPair, anchorUntil, defaultDelta_parser]

/-- the applier's window upper bound and the parser's validator argument coincide, up to the
    greatest value an int64 can hold -/
theorem parser_applier_agree (cfg : Protocol) (frm untl : Int) :
    (validatorPair cfg frm untl).2 = capInt64 (anchorUntil cfg Expected.anchorUntilParamApplier frm untl) := by
  simp [validatorPair, anchorUntil, defaultDelta_parser, defaultDelta_applier]

/-- … which no time an int64 validator can know tells apart from the bound itself -/
theorem capped_bound_same_verdict (x t : Int) (ht : t ≤ maxInt64) : t ≤ capInt64 x ↔ t ≤ x := by
  unfold capInt64
  split <;> omega

theorem out_of_window_update (cfg : Protocol) (frm untl t : Int)
    (h : effective cfg frm untl t = false) : outcome cfg .update frm untl t = .ineffective := by
  simp [outcome, h]

theorem out_of_window_recover (cfg : Protocol) (frm untl t : Int)
    (h : effective cfg frm untl t = false) : outcome cfg .recover frm untl t = .ineffective := by
  simp [outcome, h]

theorem out_of_window_deactivate_refused (cfg : Protocol) (frm untl t : Int)
    (h : effective cfg frm untl t = false) : outcome cfg .deactivate frm untl t = .refused := by
  simp [outcome, h]

theorem in_window_effective (cfg : Protocol) (ty : OpType) (frm untl t : Int)
    (h : effective cfg frm untl t = true) : outcome cfg ty frm untl t = .effective := by
  simp [outcome, h]

/-- the window depends on no protocol parameter other than the maximum operation time delta -/
theorem window_depends_only_on_delta (cfg cfg' : Protocol)
    (h : cfg.maxOperationTimeDelta = cfg'.maxOperationTimeDelta) (frm untl t : Int) :
    effective cfg frm untl t = effective cfg' frm untl t ∧
    validatorPair cfg frm untl = validatorPair cfg' frm untl := by
  constructor
  · have e1 := effective_iff cfg frm untl t
    have e2 := effective_iff cfg' frm untl t
    simp only [untilOrDefault, h] at e1 e2
    have e : effective cfg frm untl t = true ↔ effective cfg' frm untl t = true := e1.trans e2.symm
    cases h1 : effective cfg frm untl t <;> cases h2 : effective cfg' frm untl t <;> simp_all
  · simp [parser_hands_same_pair, h]

/-! non-vacuity: concrete instances of every case -/
example : effective { maxOperationTimeDelta := 600, maxDeltaSize := 2000 } 100 0 700 = true := by decide
example : effective { maxOperationTimeDelta := 600, maxDeltaSize := 2000 } 100 0 701 = false := by decide
example : effective { maxOperationTimeDelta := 600 } 100 150 151 = false := by decide
example : effective { maxOperationTimeDelta := 600 } 100 150 99 = false := by decide
example : effective { maxOperationTimeDelta := 600 } 0 150 150 = true := by decide
example : outcome { maxOperationTimeDelta := 600 } .deactivate 100 0 701 = .refused := by decide

end Sidetree.Props.C09
