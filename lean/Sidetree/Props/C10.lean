/-
  C10 — patch composition follows the documented per-action semantics.
-/
import Sidetree.Lemmas.Composer
import Sidetree.Props.C11
import Sidetree.Props.C13

namespace Sidetree.Props.C10
open Sidetree Sidetree.Composer Sidetree.Patch Sidetree.JsonPatch

/-! ### fold -/

/-- applying a patch list is the left fold of the per-patch step; the first failure aborts -/
theorem apply_patches_is_fold (doc p : Json) (ps : List Json) :
    applyPatches doc (p :: ps) =
      match applyPatch doc p with
      | .ok d => applyPatches d ps
      | r => r := rfl

theorem apply_patches_nil (doc : Json) : applyPatches doc [] = .ok doc := rfl

/-- histories compose: a list applies iff its prefix applies and the rest applies to the result -/
theorem apply_patches_append (doc : Json) (ps qs : List Json) :
    applyPatches doc (ps ++ qs) =
      match applyPatches doc ps with
      | .ok d => applyPatches d qs
      | r => r := by
  induction ps generalizing doc with
  | nil => rfl
  | cons p ps ih =>
    simp only [List.cons_append, applyPatches]
    cases applyPatch doc p with
    | ok d => simpa using ih d
    | err => rfl
    | blowup => rfl

/-- a failing patch list yields no document: the result is an error whatever precedes the failure -/
theorem failure_is_atomic (doc : Json) (ps qs : List Json) (p : Json) (d : Json)
    (h1 : applyPatches doc ps = .ok d) (h2 : applyPatch d p = .err) :
    applyPatches doc (ps ++ p :: qs) = .err := by
  rw [apply_patches_append, h1]
  simp [applyPatches, h2]

/-! ### per-action semantics -/

/-- add-public-keys / add-services: existing order kept, replaced in place, new entries appended
    (ids of the result; contents by `upsert_replaces_in_place` / `upsert_appends_new`) -/
theorem add_by_id_spec (existing adds : List Json) :
    (upsertById existing adds).map idOf =
      existing.map idOf ++ (adds.filter fun e => !(existing.map idOf).contains (idOf e)).map idOf ∧
    (∀ x ∈ upsertById existing adds, x ∈ existing ∨ x ∈ adds) :=
  ⟨upsertById_ids existing adds, fun x hx => foldl_upsert_mem _ adds existing x hx⟩

theorem add_single_spec (existing : List Json) (e : Json) :
    ((existing.map idOf).contains (idOf e) = true →
      upsertById existing [e] = existing.map (fun x => if idOf x = idOf e then e else x)) ∧
    ((existing.map idOf).contains (idOf e) = false → upsertById existing [e] = existing ++ [e]) :=
  ⟨upsert_replaces_in_place existing e, upsert_appends_new existing e⟩

/-- remove-public-keys / remove-services: delete by id, unknown ids ignored -/
theorem remove_by_id_spec (existing : List Json) (ids : List String) :
    removeByIds existing ids = existing.filter (fun e => !ids.contains (idOf e)) ∧
    ((∀ i ∈ ids, i ∉ existing.map idOf) → removeByIds existing ids = existing) :=
  ⟨rfl, removeByIds_unknown existing ids⟩

/-- add/remove-also-known-as: ordered set union and difference -/
theorem aka_spec (existing us : List String) :
    (∀ u, u ∈ orderedUnion existing us ↔ u ∈ existing ∨ u ∈ us) ∧
    (∃ tail, orderedUnion existing us = existing ++ tail) ∧
    (∀ u, u ∈ orderedDiff existing us ↔ u ∈ existing ∧ u ∉ us) ∧
    (orderedDiff existing us).Sublist existing ∧
    (existing.Nodup → us.Nodup → (orderedUnion existing us).Nodup) :=
  ⟨orderedUnion_mem existing us, ⟨_, rfl⟩, orderedDiff_mem existing us, orderedDiff_sublist existing us,
   orderedUnion_nodup existing us⟩

/-- … on the list as it stands in the document (D50): entries that are no strings — a validated
    ietf-json-patch can put them there — are kept where they are; the union appends the new URIs,
    the difference takes out exactly the string entries named -/
theorem aka_raw_spec (raw : List Json) (us : List String) :
    (∃ tail, akaUnion raw us = raw ++ tail) ∧
    (∀ e, e ∈ akaUnion raw us ↔ e ∈ raw ∨ ∃ u ∈ us, e = .str u) ∧
    (akaDiff raw us).Sublist raw ∧
    (∀ e, e ∈ akaDiff raw us ↔ e ∈ raw ∧ ∀ s, e = .str s → s ∉ us) := by
  refine ⟨⟨_, rfl⟩, ?_, List.filter_sublist, ?_⟩
  · intro e
    simp only [akaUnion, List.mem_append, List.mem_map, List.mem_filter, Bool.not_eq_eq_eq_not, Bool.not_true,
      List.contains_eq_mem, decide_eq_false_iff_not, List.mem_filterMap]
    constructor
    · rintro (h | ⟨u, ⟨hu, _⟩, rfl⟩)
      · exact Or.inl h
      · exact Or.inr ⟨u, hu, rfl⟩
    · rintro (h | ⟨u, hu, rfl⟩)
      · exact Or.inl h
      · by_cases hin : Json.str u ∈ raw
        · exact Or.inl hin
        · refine Or.inr ⟨u, ⟨hu, ?_⟩, rfl⟩
          rintro ⟨a, ha, hs⟩
          cases a <;> simp [Json.str?] at hs
          subst hs
          exact hin ha
  · intro e
    simp only [akaDiff, List.mem_filter]
    constructor
    · rintro ⟨hm, hk⟩
      refine ⟨hm, ?_⟩
      rintro s rfl
      simpa [Json.str?] using hk
    · rintro ⟨hm, hk⟩
      refine ⟨hm, ?_⟩
      cases e <;> simp [Json.str?]
      rename_i s
      exact hk s rfl

/-- on a list of strings the two are the ordered set union and difference of `aka_spec` -/
theorem aka_raw_strs (existing us : List String) :
    akaUnion (existing.map .str) us = (orderedUnion existing us).map .str ∧
    akaDiff (existing.map .str) us = (orderedDiff existing us).map .str := by
  have hs : (existing.map Json.str).filterMap Json.str? = existing := by
    have hc : (Json.str? ∘ Json.str) = some := by funext s; rfl
    simp [List.filterMap_map, hc]
  constructor
  · simp [akaUnion, orderedUnion, hs]
  · simp only [akaDiff, orderedDiff, List.filter_map]
    congr 1

/-- the example of the report: `["x", 5, {"a":1}]` ∪ `["y"]` and ∖ `["nothing"]` -/
example : akaUnion [.str "x", Json.mkNat 5, .obj [("a", Json.mkNat 1)]] ["y"] =
      [.str "x", Json.mkNat 5, .obj [("a", Json.mkNat 1)], .str "y"] ∧
    akaDiff [.str "x", Json.mkNat 5, .obj [("a", Json.mkNat 1)]] ["nothing"] =
      [.str "x", Json.mkNat 5, .obj [("a", Json.mkNat 1)]] := by
  simp [akaUnion, akaDiff, Json.str?, Json.mkNat]

/-- replace discards the whole document and installs exactly the given keys and services -/
theorem replace_spec (doc : Json) (kvs : List (String × Json)) (p : Json)
    (ha : getAction p = some "replace") (hv : getValue p = some (.obj kvs)) :
    applyPatch doc p = .ok (.obj [("publicKey", ((Json.obj kvs).get? "publicKeys").getD .null),
                                  ("service", ((Json.obj kvs).get? "services").getD .null)]) := by
  simp [applyPatch, ha, hv, replaceDoc]

/-! ### unique ids -/

def keyIds (doc : Json) : List String := (objectEntries (doc.get? "publicKey")).map idOf
def svcIds (doc : Json) : List String := (objectEntries (doc.get? "service")).map idOf
def UniqueIds (doc : Json) : Prop := (keyIds doc).Nodup ∧ (svcIds doc).Nodup

def IsObj : Json → Prop
  | .obj _ => True
  | _ => False

theorem get_setDoc_same (doc : Json) (k : String) (v : Json) : (setDoc doc k v).get? k = some v := by
  simp only [setDoc, Json.get?]
  induction members doc with
  | nil => simp [Json.setMember, Json.lookup]
  | cons kv rest ih =>
    obtain ⟨k', v'⟩ := kv
    simp only [Json.setMember]
    by_cases h : k' = k
    · simp [h, Json.lookup]
    · simp [h, Json.lookup, ih]

theorem get_setDoc_ne (kvs : List (String × Json)) (k n : String) (v : Json) (h : n ≠ k) :
    (setDoc (.obj kvs) k v).get? n = (Json.obj kvs).get? n := by
  simp only [setDoc, Json.get?, members]
  exact lookup_setMember_ne k n v h kvs

theorem objectEntries_all_obj (o : Option Json) : ∀ x ∈ objectEntries o, IsObj x := by
  intro x hx
  unfold objectEntries at hx
  cases o with
  | none => cases hx
  | some j =>
    cases j with
    | arr xs =>
      have := (List.mem_filter.mp hx).2
      cases x <;> simp_all [IsObj, isObjB]
    | null => cases hx
    | bool b => cases hx
    | num n => cases hx
    | str s => cases hx
    | obj kvs => cases hx

theorem objectEntries_listOrNull (xs : List Json) (h : ∀ x ∈ xs, IsObj x) :
    objectEntries (some (listOrNull xs)) = xs := by
  unfold listOrNull
  cases xs with
  | nil => simp [objectEntries]
  | cons y ys =>
    simp only [List.isEmpty_cons, Bool.false_eq_true, if_false, objectEntries]
    apply List.filter_eq_self.mpr
    intro x hx
    have := h x hx
    cases x <;> simp_all [IsObj, isObjB]

theorem publicKeysOK_nodup (pks : List Json) (h : Validator.publicKeysOK pks = true) : (pks.map idOf).Nodup := by
  exact ((C13.publicKeysOK_iff pks).mp h).2

theorem servicesOK_nodup (orc : UriOracle) (svcs : List Json) (h : Validator.servicesOK orc svcs = true) :
    (svcs.map idOf).Nodup := by
  exact ((C13.servicesOK_iff orc svcs).mp h).2

/-- installing an upserted list under `name` -/
theorem ids_after_set (kvs : List (String × Json)) (name : String) (xs : List Json) (h : ∀ x ∈ xs, IsObj x) :
    (objectEntries ((setDoc (.obj kvs) name (listOrNull xs)).get? name)).map idOf = xs.map idOf := by
  rw [get_setDoc_same, objectEntries_listOrNull xs h]

theorem upsert_all_obj (existing adds : List Json) (h1 : ∀ x ∈ existing, IsObj x) (h2 : ∀ x ∈ adds, IsObj x) :
    ∀ x ∈ upsertById existing adds, IsObj x := by
  intro x hx
  rcases foldl_upsert_mem _ adds existing x hx with h | h
  · exact h1 x h
  · exact h2 x h

theorem remove_all_obj (existing : List Json) (ids : List String) (h1 : ∀ x ∈ existing, IsObj x) :
    ∀ x ∈ removeByIds existing ids, IsObj x :=
  fun x hx => h1 x (List.mem_filter.mp hx).1

/-- **unique key and service ids are preserved by every validated patch** (all eight actions;
    the ietf action through C11's theorem) -/
theorem unique_ids_invariant (orc : UriOracle) (kvs : List (String × Json)) (p doc' : Json)
    (hu : UniqueIds (.obj kvs)) (hv : Validator.validate orc p = .ok)
    (ha : applyPatch (.obj kvs) p = .ok doc') : UniqueIds doc' := by
  unfold Validator.validate at hv
  unfold applyPatch at ha
  cases hact : getAction p with
  | none => simp [hact] at ha
  | some action =>
    cases hval : getValue p with
    | none => simp [hact, hval] at ha
    | some value =>
      simp only [hact, hval] at ha hv
      by_cases a1 : action = "replace"
      · subst a1
        simp only [if_true] at ha hv
        cases value with
        | obj o =>
          simp only [replaceDoc] at ha
          cases ha
          simp only [Validator.ofBool] at hv
          split at hv
          · rename_i hb
            simp only [Bool.and_eq_true] at hb
            constructor
            · have := publicKeysOK_nodup _ hb.1.2
              simp only [keyIds, Json.get?, Json.lookup, if_true]
              cases hg : Json.lookup "publicKeys" o <;> simp_all [objectEntries, Json.get?]
            · have := servicesOK_nodup orc _ hb.2
              simp only [svcIds, Json.get?, Json.lookup]
              cases hg : Json.lookup "services" o <;> simp_all [objectEntries, Json.get?]
          · cases hv
        | null => simp at hv
        | bool b => simp at hv
        | num n => simp at hv
        | str s => simp at hv
        | arr xs => simp at hv
      by_cases a2 : action = "ietf-json-patch"
      · subst a2
        simp only [a1, if_false, if_true] at ha hv
        by_cases hr : Validator.requiredArray (some value) = true
        · simp only [hr, Bool.not_true, Bool.false_eq_true, if_false] at hv
          cases value with
          | arr ops =>
            have hiv : Validator.ietfVerdict ops = .ok := by
              simp only [Json.arr?, Option.getD_some] at hv
              cases hh : Validator.ietfVerdict ops <;> simp_all
            have hall : ops.all isObjB = true := by
              unfold Validator.ietfVerdict at hiv
              split at hiv
              · cases hiv
              · rename_i h; simpa using h
            have hdec : Lib.decodePatch (.arr ops) = some ops := by
              simp only [Lib.decodePatch]
              have : ops.all isObjOrNullB = true := by
                rw [List.all_eq_true] at hall ⊢
                intro x hx
                have := hall x hx
                cases x <;> simp_all [isObjB, isObjOrNullB]
              simp [this]
            simp only [hdec] at ha
            cases hap : Lib.applyAll (Json.obj kvs) ops with
            | ok d =>
              simp only [hap] at ha
              cases ha
              obtain ⟨h1, h2⟩ := C11.validated_preserves_keys_and_services ops kvs doc' hiv hap
              unfold UniqueIds keyIds svcIds at hu ⊢
              rw [h1, h2]
              exact hu
            | err => simp [hap] at ha
            | panic => simp [hap] at ha
            | blowup => simp [hap] at ha
          | null => simp [Validator.requiredArray] at hr
          | bool b => simp [Validator.requiredArray] at hr
          | num n => simp [Validator.requiredArray] at hr
          | str s => simp [Validator.requiredArray] at hr
          | obj o => simp [Validator.requiredArray] at hr
        · simp [hr] at hv
      by_cases a3 : action = "add-public-keys"
      · subst a3
        simp only [a1, a2, if_false, if_true] at ha hv
        cases ha
        simp only [Validator.ofBool] at hv
        split at hv
        · rename_i hb
          simp only [Bool.and_eq_true] at hb
          have hnd := publicKeysOK_nodup _ hb.2
          constructor
          · unfold keyIds
            rw [ids_after_set kvs "publicKey" _ (upsert_all_obj _ _ (objectEntries_all_obj _) (objectEntries_all_obj _))]
            exact upsertById_nodup _ _ hu.1 hnd
          · unfold svcIds
            rw [get_setDoc_ne kvs "publicKey" "service" _ (by decide)]
            exact hu.2
        · cases hv
      by_cases a4 : action = "remove-public-keys"
      · subst a4
        simp only [a1, a2, a3, if_false, if_true] at ha
        cases ha
        constructor
        · unfold keyIds
          rw [ids_after_set kvs "publicKey" _ (remove_all_obj _ _ (objectEntries_all_obj _))]
          exact removeByIds_nodup _ _ hu.1
        · unfold svcIds
          rw [get_setDoc_ne kvs "publicKey" "service" _ (by decide)]
          exact hu.2
      by_cases a5 : action = "add-services"
      · subst a5
        simp only [a1, a2, a3, a4, if_false, if_true, false_or] at ha hv
        cases ha
        cases hb : (Validator.requiredArray (some value) && Validator.allObjects value && Validator.servicesOK orc (objectEntries (some value))) with
        | false => simp [hb, Validator.ofBool] at hv
        | true =>
          simp only [Bool.and_eq_true] at hb
          have hnd := servicesOK_nodup orc _ hb.2
          constructor
          · unfold keyIds
            rw [get_setDoc_ne kvs "service" "publicKey" _ (by decide)]
            exact hu.1
          · unfold svcIds
            rw [ids_after_set kvs "service" _ (upsert_all_obj _ _ (objectEntries_all_obj _) (objectEntries_all_obj _))]
            exact upsertById_nodup _ _ hu.2 hnd
      by_cases a6 : action = "remove-services"
      · subst a6
        simp only [a1, a2, a3, a4, a5, if_false, if_true] at ha
        cases ha
        constructor
        · unfold keyIds
          rw [get_setDoc_ne kvs "service" "publicKey" _ (by decide)]
          exact hu.1
        · unfold svcIds
          rw [ids_after_set kvs "service" _ (remove_all_obj _ _ (objectEntries_all_obj _))]
          exact removeByIds_nodup _ _ hu.2
      by_cases a7 : action = "add-also-known-as"
      · subst a7
        simp only [a1, a2, a3, a4, a5, a6, if_false, if_true] at ha
        cases ha
        constructor
        · unfold keyIds
          rw [get_setDoc_ne kvs "alsoKnownAs" "publicKey" _ (by decide)]
          exact hu.1
        · unfold svcIds
          rw [get_setDoc_ne kvs "alsoKnownAs" "service" _ (by decide)]
          exact hu.2
      by_cases a8 : action = "remove-also-known-as"
      · subst a8
        simp only [a1, a2, a3, a4, a5, a6, a7, if_false, if_true] at ha
        cases ha
        constructor
        · unfold keyIds
          rw [get_setDoc_ne kvs "alsoKnownAs" "publicKey" _ (by decide)]
          exact hu.1
        · unfold svcIds
          rw [get_setDoc_ne kvs "alsoKnownAs" "service" _ (by decide)]
          exact hu.2
      · simp [a1, a2, a3, a4, a5, a6, a7, a8] at ha

/-! ### well-formedness -/

/-- a member that holds keys or services: absent, `null`, or a list of objects and of nothing else -/
def ListOfObjects (o : Option Json) : Prop :=
  o = none ∨ o = some .null ∨ ∃ xs, o = some (.arr xs) ∧ ∀ x ∈ xs, IsObj x

/-- a document whose `publicKey` and `service` members hold keys and services only -/
def WellFormed (doc : Json) : Prop := ListOfObjects (doc.get? "publicKey") ∧ ListOfObjects (doc.get? "service")

theorem listOrNull_wf (xs : List Json) (h : ∀ x ∈ xs, IsObj x) : ListOfObjects (some (listOrNull xs)) := by
  unfold listOrNull
  split
  · exact .inr (.inl rfl)
  · exact .inr (.inr ⟨xs, rfl, h⟩)

theorem replaceMember_wf (m : Option Json) (h : Validator.replaceMemberOK m = true) : ListOfObjects (some (m.getD .null)) := by
  cases m with
  | none => exact .inr (.inl rfl)
  | some v =>
    cases v with
    | null => exact .inr (.inl rfl)
    | arr xs =>
      refine .inr (.inr ⟨xs, rfl, ?_⟩)
      simp only [Validator.replaceMemberOK, Validator.allObjects, List.all_eq_true] at h
      intro x hx
      have := h x hx
      cases x <;> simp_all [isObjB, IsObj]
    | _ => simp [Validator.replaceMemberOK, Validator.allObjects] at h

/-- **validated patches never leave anything but keys in `publicKey` and services in `service`**:
    a well-formed document stays well-formed under every validated patch (all eight actions) — so no
    later patch ever meets an entry that the accessors would skip (what D31 was about) -/
theorem wellformed_invariant (orc : UriOracle) (kvs : List (String × Json)) (p doc' : Json)
    (hw : WellFormed (.obj kvs)) (hv : Validator.validate orc p = .ok)
    (ha : applyPatch (.obj kvs) p = .ok doc') : WellFormed doc' := by
  unfold Validator.validate at hv
  unfold applyPatch at ha
  cases hact : getAction p with
  | none => simp [hact] at ha
  | some action =>
    cases hval : getValue p with
    | none => simp [hact, hval] at ha
    | some value =>
      simp only [hact, hval] at ha hv
      by_cases a1 : action = "replace"
      · subst a1
        simp only [if_true] at ha hv
        cases value with
        | obj o =>
          simp only [replaceDoc] at ha
          cases ha
          simp only [Validator.ofBool] at hv
          split at hv
          · rename_i hb
            simp only [Bool.and_eq_true] at hb
            constructor
            · have := replaceMember_wf _ hb.1.1.1.2
              simpa [Json.get?, Json.lookup] using this
            · have := replaceMember_wf _ hb.1.1.2
              simpa [Json.get?, Json.lookup] using this
          · cases hv
        | null => simp at hv
        | bool b => simp at hv
        | num n => simp at hv
        | str s => simp at hv
        | arr xs => simp at hv
      by_cases a2 : action = "ietf-json-patch"
      · subst a2
        simp only [a1, if_false, if_true] at ha hv
        by_cases hr : Validator.requiredArray (some value) = true
        · simp only [hr, Bool.not_true, Bool.false_eq_true, if_false] at hv
          cases value with
          | arr ops =>
            have hiv : Validator.ietfVerdict ops = .ok := by
              simp only [Json.arr?, Option.getD_some] at hv
              cases hh : Validator.ietfVerdict ops <;> simp_all
            have hall : ops.all isObjB = true := by
              unfold Validator.ietfVerdict at hiv
              split at hiv
              · cases hiv
              · rename_i h; simpa using h
            have hdec : Lib.decodePatch (.arr ops) = some ops := by
              simp only [Lib.decodePatch]
              have : ops.all isObjOrNullB = true := by
                rw [List.all_eq_true] at hall ⊢
                intro x hx
                have := hall x hx
                cases x <;> simp_all [isObjB, isObjOrNullB]
              simp [this]
            simp only [hdec] at ha
            cases hap : Lib.applyAll (Json.obj kvs) ops with
            | ok d =>
              simp only [hap] at ha
              cases ha
              obtain ⟨h1, h2⟩ := C11.validated_preserves_keys_and_services ops kvs doc' hiv hap
              unfold WellFormed at hw ⊢
              rw [h1, h2]
              exact hw
            | err => simp [hap] at ha
            | panic => simp [hap] at ha
            | blowup => simp [hap] at ha
          | null => simp [Validator.requiredArray] at hr
          | bool b => simp [Validator.requiredArray] at hr
          | num n => simp [Validator.requiredArray] at hr
          | str s => simp [Validator.requiredArray] at hr
          | obj o => simp [Validator.requiredArray] at hr
        · simp [hr] at hv
      -- the six list actions: the member they write is a list of objects, the other one is untouched
      have hk := hw.1
      have hs := hw.2
      by_cases a3 : action = "add-public-keys"
      · subst a3
        simp only [a1, a2, if_false, if_true] at ha
        cases ha
        exact ⟨by rw [get_setDoc_same]; exact listOrNull_wf _ (upsert_all_obj _ _ (objectEntries_all_obj _) (objectEntries_all_obj _)),
               by rw [get_setDoc_ne kvs "publicKey" "service" _ (by decide)]; exact hs⟩
      by_cases a4 : action = "remove-public-keys"
      · subst a4
        simp only [a1, a2, a3, if_false, if_true] at ha
        cases ha
        exact ⟨by rw [get_setDoc_same]; exact listOrNull_wf _ (remove_all_obj _ _ (objectEntries_all_obj _)),
               by rw [get_setDoc_ne kvs "publicKey" "service" _ (by decide)]; exact hs⟩
      by_cases a5 : action = "add-services"
      · subst a5
        simp only [a1, a2, a3, a4, if_false, if_true] at ha
        cases ha
        exact ⟨by rw [get_setDoc_ne kvs "service" "publicKey" _ (by decide)]; exact hk,
               by rw [get_setDoc_same]; exact listOrNull_wf _ (upsert_all_obj _ _ (objectEntries_all_obj _) (objectEntries_all_obj _))⟩
      by_cases a6 : action = "remove-services"
      · subst a6
        simp only [a1, a2, a3, a4, a5, if_false, if_true] at ha
        cases ha
        exact ⟨by rw [get_setDoc_ne kvs "service" "publicKey" _ (by decide)]; exact hk,
               by rw [get_setDoc_same]; exact listOrNull_wf _ (remove_all_obj _ _ (objectEntries_all_obj _))⟩
      by_cases a7 : action = "add-also-known-as"
      · subst a7
        simp only [a1, a2, a3, a4, a5, a6, if_false, if_true] at ha
        cases ha
        exact ⟨by rw [get_setDoc_ne kvs "alsoKnownAs" "publicKey" _ (by decide)]; exact hk,
               by rw [get_setDoc_ne kvs "alsoKnownAs" "service" _ (by decide)]; exact hs⟩
      by_cases a8 : action = "remove-also-known-as"
      · subst a8
        simp only [a1, a2, a3, a4, a5, a6, a7, if_false, if_true] at ha
        cases ha
        exact ⟨by rw [get_setDoc_ne kvs "alsoKnownAs" "publicKey" _ (by decide)]; exact hk,
               by rw [get_setDoc_ne kvs "alsoKnownAs" "service" _ (by decide)]; exact hs⟩
      · simp [a1, a2, a3, a4, a5, a6, a7, a8] at ha

/-- … and on a well-formed document the accessors skip nothing: every entry of the member is an object -/
theorem wellformed_entries (doc : Json) (h : WellFormed doc) (xs : List Json) (hx : doc.get? "publicKey" = some (.arr xs)) :
    objectEntries (doc.get? "publicKey") = xs := by
  rcases h.1 with e | e | ⟨ys, e, hall⟩
  · rw [hx] at e; cases e
  · rw [hx] at e; cases e
  · rw [hx] at e
    cases e
    simp only [hx, objectEntries]
    apply List.filter_eq_self.mpr
    intro x hxm
    have := hall x hxm
    cases x <;> simp_all [IsObj, isObjB]

/-- the empty document is well-formed, so every document reachable by validated patches is -/
example : WellFormed (.obj []) := ⟨.inl rfl, .inl rfl⟩

end Sidetree.Props.C10
