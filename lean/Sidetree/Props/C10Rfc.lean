/-
  C10 — the json-patch library model (`JsonPatch.Lib`) agrees with our transcription of RFC 6902
  (`JsonPatch.Rfc`) on a stated fragment: pointers that are RFC 6901 pointers, walks that meet no
  array, `add` / `remove` with the members RFC 6902 demands; `replace` in the direction
  "what the RFC accepts the library does alike". The library's deviations met on the way are
  recorded as `example`s.
-/
import Sidetree.JsonPatch

namespace Sidetree.Props.C10
open Sidetree Sidetree.JsonPatch

/-! ### 1. pointers -/

theorem splitSlash_go_ne_nil : ∀ (cs cur : List Char), splitSlash.go cs cur ≠ []
  | [], cur => by simp [splitSlash.go]
  | c :: rest, cur => by
    simp only [splitSlash.go]
    split
    · simp
    · exact splitSlash_go_ne_nil rest (c :: cur)

theorem dropLast_getLast {α} (l : List α) (d : α) (h : l ≠ []) : l = l.dropLast ++ [l.getLast?.getD d] := by
  have := List.dropLast_concat_getLast h
  rw [List.getLast?_eq_some_getLast h]
  simpa using this.symm

/-- **an RFC 6901 pointer with at least one token is split by the library into the same tokens**:
    the parent parts (still escaped; the walk unescapes them with the same `decodeKey`) and the
    last key. (`Rfc.tokens` keeps a `~` that is not followed by `0` or `1` literally; RFC 6901's
    grammar forbids such a pointer, the library is equally lenient — both sides use `decodeKey`.) -/
theorem pointer_agree (path : String) (ts : List String) (h : Rfc.tokens path = some ts) (hne : ts ≠ []) :
    ∃ parts key, Lib.splitPointer path = some (parts, key) ∧ ts = parts.map decodeKey ++ [key] := by
  unfold Rfc.tokens at h
  unfold Lib.splitPointer
  split at h
  · simp only [Option.some.injEq] at h; exact absurd h.symm hne
  · rename_i rest _ hs
    simp only [Option.some.injEq] at h
    subst h
    rw [hs]
    cases rest with
    | nil => simp at hne
    | cons r rs =>
      refine ⟨(r :: rs).dropLast, decodeKey ((r :: rs).getLast?.getD []), rfl, ?_⟩
      have := dropLast_getLast (r :: rs) [] (by simp)
      conv => lhs; rw [this]
      simp
  · cases h

/-- the empty pointer (the whole document) is refused by the library, and is an error of every
    modelled RFC operation as well (root targets are not modelled) -/
theorem pointer_root : Rfc.tokens "" = some [] ∧ Lib.splitPointer "" = none := by decide

/-- DEVIATION (pointer syntax): a path that does not start with `/` is no RFC 6901 pointer, but
    the library ignores whatever precedes the first `/` -/
example : Rfc.tokens "x/a" = none ∧ Lib.splitPointer "x/a" = some ([], "a") := by decide

/-! ### 2. walks that meet no array -/

/-- the library's outcome that corresponds to an RFC outcome -/
def ofOpt : Option Json → R Json
  | some d => .ok d
  | none => .err

/-- along the parent tokens no array is met (the walk may leave the tree: then both sides fail) -/
def objWalk : Json → List String → Bool
  | .arr _, _ => false
  | .obj kvs, t :: ts =>
    (match Json.lookup t kvs with
    | some c => objWalk c ts
    | none => true)
  | _, _ => true

theorem updateParent_obj_cons (g : Json → String → Option Json) (kvs : List (String × Json)) (t : String) (l : List String)
    (hl : l ≠ []) : Rfc.updateParent g (.obj kvs) (t :: l) =
      (Json.lookup t kvs).bind fun c => (Rfc.updateParent g c l).map fun c' => .obj (Json.setMember t c' kvs) := by
  cases l with
  | nil => exact absurd rfl hl
  | cons a b => simp [Rfc.updateParent]

theorem isContainer_false_of (c : Json) (h1 : ∀ kvs, c ≠ .obj kvs) (h2 : ∀ xs, c ≠ .arr xs) : isContainer c = false := by
  cases c with
  | obj kvs => exact absurd rfl (h1 kvs)
  | arr xs => exact absurd rfl (h2 xs)
  | _ => rfl

/-- on a value that is no container the RFC walk fails whenever at least one token is left and the
    leaf operation fails on such values -/
theorem updateParent_scalar (g : Json → String → Option Json) (c : Json) (h1 : ∀ kvs, c ≠ .obj kvs) (h2 : ∀ xs, c ≠ .arr xs)
    (hg : ∀ t, g c t = none) (l : List String) : Rfc.updateParent g c l = none := by
  cases l with
  | nil => cases c <;> rfl
  | cons a b =>
    cases b with
    | nil => cases c <;> simp [Rfc.updateParent, hg]
    | cons x y =>
      cases c with
      | obj kvs => exact absurd rfl (h1 kvs)
      | arr xs => exact absurd rfl (h2 xs)
      | _ => rfl

/-- `f` (library, on the last container) and `g` (RFC, on the parent and the last token) agree on
    everything that is not an array -/
def LeafAgree (f : Json → R Json) (g : Json → String → Option Json) (key : String) : Prop :=
  ∀ con, (∀ xs, con ≠ .arr xs) → f con = ofOpt (g con key)

/-- the leaf operation of the RFC fails on scalars whatever the token -/
def LeafScalar (g : Json → String → Option Json) : Prop :=
  ∀ c t, (∀ kvs, c ≠ .obj kvs) → (∀ xs, c ≠ .arr xs) → g c t = none

/-- **the two walks agree** when no array is met: the library's `updateAt` along the escaped parent
    parts and the RFC's `updateParent` along all the tokens give corresponding outcomes -/
theorem walk_agree (f : Json → R Json) (g : Json → String → Option Json) (key : String)
    (hfg : LeafAgree f g key) (hg : LeafScalar g) :
    ∀ (parts : List (List Char)) (doc : Json), objWalk doc (parts.map decodeKey) = true →
      Lib.updateAt f parts doc = ofOpt (Rfc.updateParent g doc (parts.map decodeKey ++ [key]))
  | [], doc, hw => by
    have hna : ∀ xs, doc ≠ .arr xs := by
      intro xs e; subst e; simp [objWalk] at hw
    simp only [Lib.updateAt, List.map_nil, List.nil_append]
    rw [hfg doc hna]
    cases doc <;> rfl
  | p :: ps, doc, hw => by
    cases doc with
    | arr xs => simp [objWalk] at hw
    | obj kvs =>
      simp only [List.map_cons, List.cons_append]
      rw [updateParent_obj_cons g kvs (decodeKey p) _ (by simp)]
      simp only [Lib.updateAt, Lib.conGet]
      cases hl : Json.lookup (decodeKey p) kvs with
      | none => simp [ofOpt]
      | some c =>
        simp only [objWalk, List.map_cons, hl] at hw
        simp only [Option.bind_some]
        cases c with
        | obj ckvs =>
          have ih := walk_agree f g key hfg hg ps (.obj ckvs) hw
          simp only [Lib.nodeOf, Json.isNull, Bool.false_eq_true, if_false, isContainer, if_true, ih]
          cases Rfc.updateParent g (.obj ckvs) (ps.map decodeKey ++ [key]) <;> simp [ofOpt]
        | arr cxs => simp [objWalk] at hw
        | null =>
          rw [updateParent_scalar g .null (by intro _ e; cases e) (by intro _ e; cases e)
            (fun t => hg _ t (by intro _ e; cases e) (by intro _ e; cases e))]
          simp [Lib.nodeOf, Json.isNull, ofOpt]
        | bool b =>
          rw [updateParent_scalar g (.bool b) (by intro _ e; cases e) (by intro _ e; cases e)
            (fun t => hg _ t (by intro _ e; cases e) (by intro _ e; cases e))]
          simp [Lib.nodeOf, Json.isNull, ofOpt, isContainer]
        | num n =>
          rw [updateParent_scalar g (.num n) (by intro _ e; cases e) (by intro _ e; cases e)
            (fun t => hg _ t (by intro _ e; cases e) (by intro _ e; cases e))]
          simp [Lib.nodeOf, Json.isNull, ofOpt, isContainer]
        | str s =>
          rw [updateParent_scalar g (.str s) (by intro _ e; cases e) (by intro _ e; cases e)
            (fun t => hg _ t (by intro _ e; cases e) (by intro _ e; cases e))]
          simp [Lib.nodeOf, Json.isNull, ofOpt, isContainer]
    | null =>
      have : Rfc.updateParent g .null ((p :: ps).map decodeKey ++ [key]) = none :=
        updateParent_scalar g .null (by intro _ e; cases e) (by intro _ e; cases e)
          (fun t => hg _ t (by intro _ e; cases e) (by intro _ e; cases e)) _
      rw [this]; simp [Lib.updateAt, Lib.conGet, ofOpt]
    | bool b =>
      have : Rfc.updateParent g (.bool b) ((p :: ps).map decodeKey ++ [key]) = none :=
        updateParent_scalar g _ (by intro _ e; cases e) (by intro _ e; cases e)
          (fun t => hg _ t (by intro _ e; cases e) (by intro _ e; cases e)) _
      rw [this]; simp [Lib.updateAt, Lib.conGet, ofOpt]
    | num n =>
      have : Rfc.updateParent g (.num n) ((p :: ps).map decodeKey ++ [key]) = none :=
        updateParent_scalar g _ (by intro _ e; cases e) (by intro _ e; cases e)
          (fun t => hg _ t (by intro _ e; cases e) (by intro _ e; cases e)) _
      rw [this]; simp [Lib.updateAt, Lib.conGet, ofOpt]
    | str s =>
      have : Rfc.updateParent g (.str s) ((p :: ps).map decodeKey ++ [key]) = none :=
        updateParent_scalar g _ (by intro _ e; cases e) (by intro _ e; cases e)
          (fun t => hg _ t (by intro _ e; cases e) (by intro _ e; cases e)) _
      rw [this]; simp [Lib.updateAt, Lib.conGet, ofOpt]

/-! ### 3. the leaf operations -/

theorem leaf_add (key : String) (v : Json) : LeafAgree (fun con => Lib.conAdd con key v) (Rfc.addInto v) key := by
  intro con hna
  cases con with
  | arr xs => exact absurd rfl (hna xs)
  | _ => rfl

theorem leaf_add_scalar (v : Json) : LeafScalar (Rfc.addInto v) := by
  intro c t h1 h2
  cases c with
  | obj kvs => exact absurd rfl (h1 kvs)
  | arr xs => exact absurd rfl (h2 xs)
  | _ => rfl

theorem leaf_remove (key : String) : LeafAgree (fun con => Lib.conRemove con key) Rfc.removeFrom key := by
  intro con hna
  cases con with
  | arr xs => exact absurd rfl (hna xs)
  | obj kvs =>
    simp only [Lib.conRemove, Rfc.removeFrom]
    split <;> rfl
  | _ => rfl

theorem leaf_remove_scalar : LeafScalar Rfc.removeFrom := by
  intro c t h1 h2
  cases c with
  | obj kvs => exact absurd rfl (h1 kvs)
  | arr xs => exact absurd rfl (h2 xs)
  | _ => rfl

/-- the library's `replace` leaf (look the member up, ignore what was found, set it) is its `add`
    leaf on everything that is not an array -/
theorem leaf_replace_is_add (key : String) (v : Json) :
    LeafAgree (fun con => do let _ ← Lib.conGet con key; Lib.conSet con key v) (Rfc.addInto v) key := by
  intro con hna
  cases con with
  | arr xs => exact absurd rfl (hna xs)
  | _ => rfl

theorem leaf_replace_scalar (v : Json) : LeafScalar (Rfc.replaceIn v) := by
  intro c t h1 h2
  cases c with
  | obj kvs => exact absurd rfl (h1 kvs)
  | arr xs => exact absurd rfl (h2 xs)
  | _ => rfl

/-! ### 4. operations -/

theorem tokens_nil_split (p : String) (h : Rfc.tokens p = some []) : Lib.splitPointer p = none := by
  unfold Rfc.tokens at h
  unfold Lib.splitPointer
  split at h
  · rename_i hs; rw [hs]
  · rename_i rest hne hs
    simp only [Option.some.injEq, List.map_eq_nil_iff] at h
    exact absurd h (by intro e; exact hne e)
  · cases h

/-- the generic step from the walks to the operations -/
theorem op_agree (f : String → Json → R Json) (g : Json → String → Option Json) (doc : Json) (p : String) (toks : List String)
    (hfg : ∀ key, LeafAgree (f key) g key) (hg : LeafScalar g)
    (ht : Rfc.tokens p = some toks) (hw : objWalk doc toks.dropLast = true) :
    (match Lib.splitPointer p with
     | none => R.err
     | some (parts, key) => Lib.updateAt (f key) parts doc) = ofOpt (Rfc.updateParent g doc toks) := by
  by_cases hne : toks = []
  · subst hne
    rw [tokens_nil_split p ht]
    cases doc <;> rfl
  · obtain ⟨parts, key, hsp, rfl⟩ := pointer_agree p toks ht hne
    rw [hsp]
    simp only [List.dropLast_concat] at hw
    exact walk_agree (f key) g key (hfg key) hg parts doc hw

/-- **`add`**: operation with its three members, an RFC 6901 pointer, no array on the way to the
    parent (the parent included) ⇒ the library does what RFC 6902 says — the same document, or an
    error on both sides. (The added value may be anything, `null` included; the walk may leave
    the tree, meet `null`s or scalars: then both refuse.) -/
theorem add_agree (doc op : Json) (p : String) (v : Json) (toks : List String)
    (hop : op.get? "op" = some (.str "add")) (hpath : op.get? "path" = some (.str p)) (hval : op.get? "value" = some v)
    (ht : Rfc.tokens p = some toks) (hne : toks ≠ []) (hw : objWalk doc toks.dropLast = true) :
    Lib.applyOp doc op = ofOpt (Rfc.applyOp doc op) := by
  have _ := hne
  have h := op_agree (fun key con => Lib.conAdd con key v) (Rfc.addInto v) doc p toks (fun key => leaf_add key v)
    (leaf_add_scalar v) ht hw
  simp only [Lib.applyOp, Lib.opString, hop, hpath, hval, if_true, Option.getD_some, Rfc.applyOp, Option.bind_some,
    Json.str?, ht]
  exact h

/-- **`remove`** alike (a member whose value is `null` is removed by both) -/
theorem remove_agree (doc op : Json) (p : String) (toks : List String)
    (hop : op.get? "op" = some (.str "remove")) (hpath : op.get? "path" = some (.str p))
    (ht : Rfc.tokens p = some toks) (hne : toks ≠ []) (hw : objWalk doc toks.dropLast = true) :
    Lib.applyOp doc op = ofOpt (Rfc.applyOp doc op) := by
  have _ := hne
  have h := op_agree (fun key con => Lib.conRemove con key) Rfc.removeFrom doc p toks (fun key => leaf_remove key)
    leaf_remove_scalar ht hw
  have e : ("remove" = "add") = False := by decide
  simp only [Lib.applyOp, Lib.opString, hop, hpath, e, if_false, if_true, Rfc.applyOp, Option.bind_some, Json.str?, ht]
  exact h

/-! ### 5. `replace` -/

/-- on walks that meet no array, RFC `replace` of a member that is there is RFC `add` -/
theorem replace_eq_add_existing (v : Json) : ∀ (toks : List String) (doc : Json), objWalk doc toks.dropLast = true →
    (Rfc.getAt doc toks).isSome = true →
    Rfc.updateParent (Rfc.replaceIn v) doc toks = Rfc.updateParent (Rfc.addInto v) doc toks
  | [], doc, _, _ => by cases doc <;> rfl
  | [t], doc, hw, hg => by
    cases doc with
    | arr xs => simp [objWalk] at hw
    | obj kvs =>
      simp only [Rfc.getAt] at hg
      cases hl : Json.lookup t kvs with
      | none => simp [hl] at hg
      | some c => simp [Rfc.updateParent, Rfc.replaceIn, Rfc.addInto, hl]
    | _ => simp [Rfc.getAt] at hg
  | t :: t2 :: rest, doc, hw, hg => by
    cases doc with
    | arr xs => simp [objWalk] at hw
    | obj kvs =>
      simp only [Rfc.getAt] at hg
      cases hl : Json.lookup t kvs with
      | none => simp [hl] at hg
      | some c =>
        simp only [hl, Option.bind_some] at hg
        simp only [List.dropLast_cons_cons, objWalk, hl] at hw
        have ih := replace_eq_add_existing v (t2 :: rest) c hw hg
        simp only [Rfc.updateParent, hl, Option.bind_some, ih]
    | _ => simp [Rfc.getAt] at hg

/-- … and RFC `replace` never succeeds otherwise than RFC `add` does -/
theorem replace_le_add (v : Json) : ∀ (toks : List String) (doc d : Json), objWalk doc toks.dropLast = true →
    Rfc.updateParent (Rfc.replaceIn v) doc toks = some d → Rfc.updateParent (Rfc.addInto v) doc toks = some d
  | [], doc, d, _, h => by cases doc <;> simp [Rfc.updateParent] at h
  | [t], doc, d, hw, h => by
    cases doc with
    | arr xs => simp [objWalk] at hw
    | obj kvs =>
      simp only [Rfc.updateParent, Rfc.replaceIn] at h
      split at h
      · simpa [Rfc.updateParent, Rfc.addInto] using h
      · cases h
    | _ => simp [Rfc.updateParent, Rfc.replaceIn] at h
  | t :: t2 :: rest, doc, d, hw, h => by
    cases doc with
    | arr xs => simp [objWalk] at hw
    | obj kvs =>
      simp only [Rfc.updateParent] at h ⊢
      cases hl : Json.lookup t kvs with
      | none => simp [hl] at h
      | some c =>
        simp only [hl, Option.bind_some, Option.map_eq_some_iff] at h ⊢
        simp only [List.dropLast_cons_cons, objWalk, hl] at hw
        obtain ⟨c', hc', e⟩ := h
        exact ⟨c', replace_le_add v (t2 :: rest) c c' hw hc', e⟩
    | _ => simp [Rfc.updateParent] at h

/-- **the library's `replace` is RFC 6902's `add`** on walks that meet no array: it never asks
    whether the member is there -/
theorem replace_is_rfc_add (doc op : Json) (p : String) (v : Json) (toks : List String)
    (hop : op.get? "op" = some (.str "replace")) (hpath : op.get? "path" = some (.str p)) (hval : op.get? "value" = some v)
    (ht : Rfc.tokens p = some toks) (hne : toks ≠ []) (hw : objWalk doc toks.dropLast = true) :
    Lib.applyOp doc op = ofOpt (Rfc.updateParent (Rfc.addInto v) doc toks) := by
  have _ := hne
  have h := op_agree (fun key con => do let _ ← Lib.conGet con key; Lib.conSet con key v) (Rfc.addInto v) doc p toks
    (fun key => leaf_replace_is_add key v) (leaf_add_scalar v) ht hw
  have e1 : ("replace" = "add") = False := by decide
  have e2 : ("replace" = "remove") = False := by decide
  simp only [Lib.applyOp, Lib.opString, hop, hpath, hval, e1, e2, if_false, if_true, Option.getD_some]
  exact h

theorem rfc_replace_eq (doc op : Json) (p : String) (v : Json) (toks : List String)
    (hop : op.get? "op" = some (.str "replace")) (hpath : op.get? "path" = some (.str p)) (hval : op.get? "value" = some v)
    (ht : Rfc.tokens p = some toks) : Rfc.applyOp doc op = Rfc.updateParent (Rfc.replaceIn v) doc toks := by
  simp only [Rfc.applyOp, hop, hpath, hval, Option.bind_some, Json.str?, ht]

/-- **`replace`, what the RFC accepts the library does alike** -/
theorem replace_le (doc op : Json) (p : String) (v : Json) (toks : List String) (d : Json)
    (hop : op.get? "op" = some (.str "replace")) (hpath : op.get? "path" = some (.str p)) (hval : op.get? "value" = some v)
    (ht : Rfc.tokens p = some toks) (hne : toks ≠ []) (hw : objWalk doc toks.dropLast = true)
    (h : Rfc.applyOp doc op = some d) : Lib.applyOp doc op = .ok d := by
  rw [rfc_replace_eq doc op p v toks hop hpath hval ht] at h
  rw [replace_is_rfc_add doc op p v toks hop hpath hval ht hne hw, replace_le_add v toks doc d hw h]
  rfl

/-- **`replace` of a member that is there**: full agreement -/
theorem replace_agree_existing (doc op : Json) (p : String) (v : Json) (toks : List String)
    (hop : op.get? "op" = some (.str "replace")) (hpath : op.get? "path" = some (.str p)) (hval : op.get? "value" = some v)
    (ht : Rfc.tokens p = some toks) (hne : toks ≠ []) (hw : objWalk doc toks.dropLast = true)
    (hex : (Rfc.getAt doc toks).isSome = true) :
    Lib.applyOp doc op = ofOpt (Rfc.applyOp doc op) := by
  rw [rfc_replace_eq doc op p v toks hop hpath hval ht, replace_eq_add_existing v toks doc hw hex]
  exact replace_is_rfc_add doc op p v toks hop hpath hval ht hne hw

/-! ### 6. the hypotheses are met by ordinary operations; the deviations next to the fragment -/

def sampleDoc : Json := .obj [("a", .obj [("b", .str "x")]), ("n", .null), ("l", .arr [.str "e"])]
def sampleOp (kind path : String) (v : Json) : Json := .obj [("op", .str kind), ("path", .str path), ("value", v)]

example : ∃ parts key, Lib.splitPointer "/a/b~1c" = some (parts, key) ∧ ["a", "b/c"] = parts.map decodeKey ++ [key] :=
  pointer_agree "/a/b~1c" ["a", "b/c"] (by decide) (by decide)

/-- `add` of a nested member: the theorem applies, and both sides give this document -/
example : Lib.applyOp sampleDoc (sampleOp "add" "/a/c" (.str "y")) = ofOpt (Rfc.applyOp sampleDoc (sampleOp "add" "/a/c" (.str "y"))) :=
  add_agree _ _ "/a/c" (.str "y") ["a", "c"] rfl rfl rfl (by decide) (by decide) (by decide)

example : Rfc.applyOp sampleDoc (sampleOp "add" "/a/c" (.str "y")) =
    some (.obj [("a", .obj [("b", .str "x"), ("c", .str "y")]), ("n", .null), ("l", .arr [.str "e"])]) := by rfl

/-- `add` below a `null` member: the theorem applies, both refuse -/
example : Lib.applyOp sampleDoc (sampleOp "add" "/n/c" (.str "y")) = .err ∧
    Rfc.applyOp sampleDoc (sampleOp "add" "/n/c" (.str "y")) = none :=
  ⟨by rw [add_agree _ _ "/n/c" (.str "y") ["n", "c"] rfl rfl rfl (by decide) (by decide) (by decide)]; rfl, by rfl⟩

/-- `remove` of a member whose value is `null`: both remove it -/
example : Lib.applyOp sampleDoc (.obj [("op", .str "remove"), ("path", .str "/n")]) =
    ofOpt (Rfc.applyOp sampleDoc (.obj [("op", .str "remove"), ("path", .str "/n")])) :=
  remove_agree _ _ "/n" ["n"] rfl rfl (by decide) (by decide) (by decide)

example : Rfc.applyOp sampleDoc (.obj [("op", .str "remove"), ("path", .str "/n")]) =
    some (.obj [("a", .obj [("b", .str "x")]), ("l", .arr [.str "e"])]) := by rfl

/-- `replace` of a member that is there -/
example : Lib.applyOp sampleDoc (sampleOp "replace" "/a/b" (.str "y")) =
    ofOpt (Rfc.applyOp sampleDoc (sampleOp "replace" "/a/b" (.str "y"))) :=
  replace_agree_existing _ _ "/a/b" (.str "y") ["a", "b"] rfl rfl rfl (by decide) (by decide) (by decide) (by rfl)

example : Lib.applyOp sampleDoc (sampleOp "replace" "/a/b" (.str "y")) =
    .ok (.obj [("a", .obj [("b", .str "y")]), ("n", .null), ("l", .arr [.str "e"])]) :=
  replace_le _ _ "/a/b" (.str "y") ["a", "b"] _ rfl rfl rfl (by decide) (by decide) (by decide) (by rfl)

/-- DEVIATION (`replace` of a member that is not there): RFC 6902 §4.3 demands that the target
    exists; the library adds the member -/
example : Lib.applyOp sampleDoc (sampleOp "replace" "/a/zz" (.str "y")) =
      .ok (.obj [("a", .obj [("b", .str "x"), ("zz", .str "y")]), ("n", .null), ("l", .arr [.str "e"])]) ∧
    Rfc.applyOp sampleDoc (sampleOp "replace" "/a/zz" (.str "y")) = none := ⟨by rfl, by rfl⟩

/-- DEVIATION (`add` without a `value` member): RFC 6902 §4.1 demands the member; the library
    adds `null` — hence the hypothesis `hval` -/
example : Lib.applyOp sampleDoc (.obj [("op", .str "add"), ("path", .str "/c")]) =
      .ok (.obj [("a", .obj [("b", .str "x")]), ("n", .null), ("l", .arr [.str "e"]), ("c", .null)]) ∧
    Rfc.applyOp sampleDoc (.obj [("op", .str "add"), ("path", .str "/c")]) = none := ⟨by rfl, by rfl⟩

/-- DEVIATION (pointer syntax, on an operation): no leading `/` -/
example : Lib.applyOp sampleDoc (sampleOp "add" "x/c" (.str "y")) =
      .ok (.obj [("a", .obj [("b", .str "x")]), ("n", .null), ("l", .arr [.str "e"]), ("c", .str "y")]) ∧
    Rfc.applyOp sampleDoc (sampleOp "add" "x/c" (.str "y")) = none := ⟨by rfl, by rfl⟩

/-- DEVIATION (arrays, why `objWalk` excludes them): the index spelling `01` (also `+1`, `-0`) is
    no RFC 6901 index; the library reads it with `strconv.Atoi` -/
example : Lib.applyOp sampleDoc (sampleOp "add" "/l/01" (.str "y")) =
      .ok (.obj [("a", .obj [("b", .str "x")]), ("n", .null), ("l", .arr [.str "e", .str "y"])]) ∧
    Rfc.applyOp sampleDoc (sampleOp "add" "/l/01" (.str "y")) = none := ⟨by rfl, by rfl⟩

/-- DEVIATION (arrays): a negative index counts from the end in the library's `add` -/
example : Lib.applyOp sampleDoc (sampleOp "add" "/l/-1" (.str "y")) =
      .ok (.obj [("a", .obj [("b", .str "x")]), ("n", .null), ("l", .arr [.str "e", .str "y"])]) ∧
    Rfc.applyOp sampleDoc (sampleOp "add" "/l/-1" (.str "y")) = none := ⟨by rfl, by rfl⟩

/-- (arrays, no deviation here) `replace` beyond the end: both refuse — the library's `conGet`
    refuses before `conSet` would pad the array with `null`s -/
example : Lib.applyOp sampleDoc (sampleOp "replace" "/l/2" (.str "y")) = .err ∧
    Rfc.applyOp sampleDoc (sampleOp "replace" "/l/2" (.str "y")) = none := ⟨by rfl, by rfl⟩

/-- root target (`path = ""`): RFC 6902 §4.1 / §4.3 would replace the whole document; both models
    refuse (our `Rfc` transcription does not model root targets, the library's `findObject` has
    no parent to look up) — outside the theorems, which demand at least one token (`hne`) -/
example : Rfc.applyOp sampleDoc (sampleOp "add" "" (.str "y")) = none ∧
    Lib.applyOp sampleDoc (sampleOp "add" "" (.str "y")) = .err ∧
    Rfc.applyOp sampleDoc (sampleOp "replace" "" (.str "y")) = none ∧
    Lib.applyOp sampleDoc (sampleOp "replace" "" (.str "y")) = .err := ⟨by rfl, by rfl, by rfl, by rfl⟩

end Sidetree.Props.C10
