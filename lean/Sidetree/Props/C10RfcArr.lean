/-
  C10 — agreement of the json-patch library model with RFC 6902, continued: arrays, as the target
  container and on the way, when the indices are spelled as RFC 6901 spells them (`0`, or digits
  without a leading zero) and are below `blowupIndex`; `-` for `add`.
-/
import Sidetree.Props.C10Rfc

namespace Sidetree.Props.C10
open Sidetree Sidetree.JsonPatch

/-! ### indices -/

theorem isDigit_ne_sign (c : Char) (h : Parse.isDigit c = true) : c ≠ '-' ∧ c ≠ '+' := by
  constructor <;> (intro e; subst e; revert h; decide)

/-- **a canonical index within `int64` is read alike by the library's `strconv.Atoi`** -/
theorem rfcIndex_inv (s : String) (i : Nat) (h : rfcIndex? s = some i) :
    s.toList ≠ [] ∧ s.toList.all Parse.isDigit = true ∧ i = Parse.digitsToNat s.toList := by
  unfold rfcIndex? at h
  by_cases he : s.toList = []
  · simp [he] at h
  by_cases ha : s.toList.all Parse.isDigit = true
  · refine ⟨he, ha, ?_⟩
    simp only [List.isEmpty_iff, he, ha, Bool.not_true, Bool.false_eq_true, or_self, if_false] at h
    split at h
    · cases h
    · exact (Option.some.inj h).symm
  · simp [ha] at h

theorem rfcIndex_atoi (s : String) (i : Nat) (h : rfcIndex? s = some i) (hi : i ≤ 9223372036854775807) :
    atoi? s = some (i : Int) := by
  obtain ⟨hne, hall, rfl⟩ := rfcIndex_inv s i h
  cases hcs : s.toList with
  | nil => exact absurd hcs hne
  | cons c rest =>
    rw [hcs] at hall hi
    have hc : Parse.isDigit c = true := by
      simp only [List.all_cons, Bool.and_eq_true] at hall; exact hall.1
    obtain ⟨n1, n2⟩ := isDigit_ne_sign c hc
    unfold atoi?
    simp only [hcs]
    split
    · rename_i heq; simp only [List.cons.injEq] at heq; exact absurd heq.1 n1
    · rename_i heq; simp only [List.cons.injEq] at heq; exact absurd heq.1 n2
    · simp only [hall, List.isEmpty_cons, Bool.false_eq_true, Bool.not_true, or_self, if_false]
      have : ¬ (((Parse.digitsToNat (c :: rest) : Nat) : Int) > 9223372036854775807 ∨
          ((Parse.digitsToNat (c :: rest) : Nat) : Int) < -9223372036854775808) := by omega
      simp [this]

theorem blowup_small (i : Nat) (h : i < blowupIndex) : i ≤ 9223372036854775807 := by
  unfold blowupIndex at h; omega

/-- DEVIATION (why the bound): a canonical index beyond `int64` is an index for RFC 6901 and a
    syntax error for the library (on the RFC side the operation fails because no array is that
    long; the model cannot know) -/
example : rfcIndex? "99999999999999999999" = some 99999999999999999999 ∧ atoi? "99999999999999999999" = none := by decide

/-! ### walks through objects and arrays -/

/-- an index token the two sides read alike -/
def canonIdx (t : String) : Option Nat :=
  match rfcIndex? t with
  | some i => if i < blowupIndex then some i else none
  | none => none

theorem canonIdx_spec (t : String) (i : Nat) (h : canonIdx t = some i) :
    rfcIndex? t = some i ∧ atoi? t = some (i : Int) ∧ i < blowupIndex := by
  unfold canonIdx at h
  cases hr : rfcIndex? t with
  | none => simp [hr] at h
  | some j =>
    simp only [hr] at h
    split at h
    · rename_i hlt
      simp only [Option.some.injEq] at h
      subst h
      exact ⟨rfl, rfcIndex_atoi t j hr (blowup_small j hlt), hlt⟩
    · cases h

/-- along the parent tokens objects are entered by member and arrays by canonical index; the
    container that is reached satisfies `P` (the walk may leave the tree: then both sides fail) -/
def canonWalk (P : Json → Bool) : Json → List String → Bool
  | doc, [] => P doc
  | .obj kvs, t :: ts =>
    (match Json.lookup t kvs with
    | some c => canonWalk P c ts
    | none => true)
  | .arr xs, t :: ts =>
    (match canonIdx t with
    | some i => (match xs[i]? with
      | some c => canonWalk P c ts
      | none => true)
    | none => false)
  | _, _ :: _ => true

theorem updateParent_arr_cons (g : Json → String → Option Json) (xs : List Json) (t : String) (l : List String)
    (hl : l ≠ []) : Rfc.updateParent g (.arr xs) (t :: l) =
      (rfcIndex? t).bind fun i => (xs[i]?).bind fun c => (Rfc.updateParent g c l).map fun c' => .arr (setAt xs i c') := by
  cases l with
  | nil => exact absurd rfl hl
  | cons a b => simp [Rfc.updateParent]

theorem updateAt_noncontainer (f : Json → R Json) (p : List Char) (ps : List (List Char)) (c : Json)
    (hc : isContainer c = false) : Lib.updateAt f (p :: ps) c = .err := by
  cases c <;> simp [isContainer] at hc <;> simp [Lib.updateAt, Lib.conGet]

theorem updateParent_noncontainer (g : Json → String → Option Json) (hg : LeafScalar g) (c : Json)
    (hc : isContainer c = false) (l : List String) : Rfc.updateParent g c l = none := by
  have h1 : ∀ kvs, c ≠ .obj kvs := by intro kvs e; subst e; simp [isContainer] at hc
  have h2 : ∀ xs, c ≠ .arr xs := by intro xs e; subst e; simp [isContainer] at hc
  exact updateParent_scalar g c h1 h2 (fun t => hg c t h1 h2) l

/-- what the library does with a child it has fetched -/
theorem child_noncontainer (c : Json) (hc : isContainer c = false) :
    Lib.nodeOf c = none ∨ (Lib.nodeOf c = some c ∧ isContainer c = false) := by
  cases c <;> simp [isContainer] at hc <;> simp [Lib.nodeOf, Json.isNull, isContainer]

theorem child_container (c : Json) (hc : isContainer c = true) : Lib.nodeOf c = some c := by
  cases c <;> simp [isContainer] at hc <;> simp [Lib.nodeOf, Json.isNull]

/-- **the two walks agree** through objects and arrays with canonical indices, when the leaf
    operations agree on the container that is reached -/
theorem walk_agree' (f : Json → R Json) (g : Json → String → Option Json) (key : String) (P : Json → Bool)
    (hfg : ∀ con, P con = true → f con = ofOpt (g con key)) (hg : LeafScalar g) :
    ∀ (parts : List (List Char)) (doc : Json), canonWalk P doc (parts.map decodeKey) = true →
      Lib.updateAt f parts doc = ofOpt (Rfc.updateParent g doc (parts.map decodeKey ++ [key]))
  | [], doc, hw => by
    simp only [List.map_nil, canonWalk] at hw
    simp only [Lib.updateAt, List.map_nil, List.nil_append]
    rw [hfg doc hw]
    cases doc <;> rfl
  | p :: ps, doc, hw => by
    by_cases hdoc : isContainer doc = false
    · rw [updateAt_noncontainer f p ps doc hdoc, updateParent_noncontainer g hg doc hdoc]; rfl
    · cases doc with
      | obj kvs =>
        simp only [List.map_cons, List.cons_append]
        rw [updateParent_obj_cons g kvs (decodeKey p) _ (by simp)]
        cases hl : Json.lookup (decodeKey p) kvs with
        | none => simp [Lib.updateAt, Lib.conGet, hl, ofOpt]
        | some c =>
          simp only [canonWalk, List.map_cons, hl] at hw
          simp only [Option.bind_some]
          by_cases hc : isContainer c = true
          · have ih := walk_agree' f g key P hfg hg ps c hw
            simp only [Lib.updateAt, Lib.conGet, hl, Option.bind_some, child_container c hc, hc, if_true, ih]
            cases Rfc.updateParent g c (ps.map decodeKey ++ [key]) <;> simp [ofOpt]
          · have hc' : isContainer c = false := by simpa using hc
            rw [updateParent_noncontainer g hg c hc']
            rcases child_noncontainer c hc' with e | ⟨e, _⟩ <;>
              simp [Lib.updateAt, Lib.conGet, hl, e, hc', ofOpt]
      | arr xs =>
        simp only [List.map_cons, List.cons_append]
        rw [updateParent_arr_cons g xs (decodeKey p) _ (by simp)]
        simp only [canonWalk, List.map_cons] at hw
        cases hci : canonIdx (decodeKey p) with
        | none => simp [hci] at hw
        | some i =>
          obtain ⟨hr, ha, _⟩ := canonIdx_spec _ i hci
          simp only [hci] at hw
          simp only [hr, Option.bind_some]
          cases hx : xs[i]? with
          | none =>
            have hge : xs.length ≤ i := by
              rcases Nat.lt_or_ge i xs.length with h | h
              · simp [List.getElem?_eq_getElem h] at hx
              · exact h
            have : (i : Int) ≥ (xs.length : Int) := by omega
            simp [Lib.updateAt, Lib.conGet, ha, this, ofOpt]
          | some c =>
            have hlt : i < xs.length := by
              rcases Nat.lt_or_ge i xs.length with h | h
              · exact h
              · simp [List.getElem?_eq_none h] at hx
            have n1 : ¬ ((i : Int) ≥ (xs.length : Int)) := by omega
            have n2 : ¬ ((i : Int) < 0) := by omega
            simp only [hx] at hw
            simp only [Option.bind_some]
            by_cases hc : isContainer c = true
            · have ih := walk_agree' f g key P hfg hg ps c hw
              simp only [Lib.updateAt, Lib.conGet, ha, n1, n2, if_false, Int.toNat_natCast, hx, Option.bind_some,
                child_container c hc, hc, if_true, ih]
              cases Rfc.updateParent g c (ps.map decodeKey ++ [key]) <;> simp [ofOpt]
            · have hc' : isContainer c = false := by simpa using hc
              rw [updateParent_noncontainer g hg c hc']
              rcases child_noncontainer c hc' with e | ⟨e, _⟩ <;>
                simp [Lib.updateAt, Lib.conGet, ha, n1, n2, hx, e, hc', ofOpt]
      | _ => simp [isContainer] at hdoc

/-! ### the leaf operations on arrays -/

/-- what `add` needs of the container it reaches: in an array, `-` or a canonical index -/
def addP (key : String) : Json → Bool
  | .arr _ => decide (key = "-") || (canonIdx key).isSome
  | _ => true

/-- `remove`: in an array, a canonical index -/
def removeP (key : String) : Json → Bool
  | .arr _ => (canonIdx key).isSome
  | _ => true

/-- `replace`: in an array, a canonical index; in an object, a member that is there -/
def replaceP (key : String) : Json → Bool
  | .arr _ => (canonIdx key).isSome
  | .obj kvs => (Json.lookup key kvs).isSome
  | _ => true

theorem canonIdx_ne_dash (key : String) (i : Nat) (h : canonIdx key = some i) : key ≠ "-" := by
  intro e; subst e
  have : canonIdx "-" = none := by decide
  rw [this] at h; cases h

theorem leaf_add' (key : String) (v : Json) (con : Json) (h : addP key con = true) :
    Lib.conAdd con key v = ofOpt (Rfc.addInto v con key) := by
  cases con with
  | arr xs =>
    simp only [addP, Bool.or_eq_true, decide_eq_true_eq] at h
    by_cases hd : key = "-"
    · simp [Lib.conAdd, Rfc.addInto, hd, ofOpt]
    · have hs : (canonIdx key).isSome = true := by rcases h with h | h; exact absurd h hd; exact h
      cases hci : canonIdx key with
      | none => simp [hci] at hs
      | some i =>
        obtain ⟨hr, ha, _⟩ := canonIdx_spec key i hci
        simp only [Lib.conAdd, Rfc.addInto, hd, if_false, ha, hr, Option.bind_some]
        by_cases hle : i ≤ xs.length
        · have n1 : ¬ ((i : Int) ≥ (xs.length : Int) + 1) := by omega
          have n2 : ¬ ((i : Int) < -((xs.length : Int) + 1)) := by omega
          have n3 : ¬ ((i : Int) < 0) := by omega
          simp [n1, n2, n3, hle, ofOpt]
        · have n1 : (i : Int) ≥ (xs.length : Int) + 1 := by omega
          simp [n1, hle, ofOpt]
  | _ => rfl

theorem leaf_remove' (key : String) (con : Json) (h : removeP key con = true) :
    Lib.conRemove con key = ofOpt (Rfc.removeFrom con key) := by
  cases con with
  | arr xs =>
    simp only [removeP] at h
    cases hci : canonIdx key with
    | none => simp [hci] at h
    | some i =>
      obtain ⟨hr, ha, _⟩ := canonIdx_spec key i hci
      simp only [Lib.conRemove, Rfc.removeFrom, ha, hr, Option.bind_some]
      by_cases hlt : i < xs.length
      · have n1 : ¬ ((i : Int) ≥ (xs.length : Int)) := by omega
        have n2 : ¬ ((i : Int) < -(xs.length : Int)) := by omega
        have n3 : ¬ ((i : Int) < 0) := by omega
        simp [n1, n2, n3, hlt, ofOpt]
      · have n1 : (i : Int) ≥ (xs.length : Int) := by omega
        simp [n1, hlt, ofOpt]
  | obj kvs =>
    simp only [Lib.conRemove, Rfc.removeFrom]
    split <;> rfl
  | _ => rfl

theorem leaf_replace' (key : String) (v : Json) (con : Json) (h : replaceP key con = true) :
    (do let _ ← Lib.conGet con key; Lib.conSet con key v) = ofOpt (Rfc.replaceIn v con key) := by
  cases con with
  | arr xs =>
    simp only [replaceP] at h
    cases hci : canonIdx key with
    | none => simp [hci] at h
    | some i =>
      obtain ⟨hr, ha, hb⟩ := canonIdx_spec key i hci
      have hd := canonIdx_ne_dash key i hci
      show R.bind (Lib.conGet (.arr xs) key) (fun _ => Lib.conSet (.arr xs) key v) = _
      simp only [Lib.conGet, Lib.conSet, Rfc.replaceIn, ha, hr, hd, if_false, Option.bind_some]
      by_cases hlt : i < xs.length
      · have n1 : ¬ ((i : Int) ≥ (xs.length : Int)) := by omega
        have n3 : ¬ ((i : Int) < 0) := by omega
        have n4 : ¬ (i ≥ blowupIndex) := by omega
        have hz : i + 1 - xs.length = 0 := by omega
        simp [n1, n3, n4, hlt, hz, ofOpt, R.bind]
      · have n1 : (i : Int) ≥ (xs.length : Int) := by omega
        simp [n1, hlt, ofOpt, R.bind]
  | obj kvs =>
    simp only [replaceP] at h
    show R.bind (Lib.conGet (.obj kvs) key) (fun _ => Lib.conSet (.obj kvs) key v) = _
    simp [Lib.conGet, Lib.conSet, Rfc.replaceIn, h, ofOpt, R.bind]
  | _ => rfl

/-! ### operations -/

theorem op_agree' (f : String → Json → R Json) (g : Json → String → Option Json) (P : String → Json → Bool)
    (doc : Json) (p : String) (toks : List String)
    (hfg : ∀ key con, P key con = true → f key con = ofOpt (g con key)) (hg : LeafScalar g)
    (ht : Rfc.tokens p = some toks) (hw : canonWalk (P (toks.getLast?.getD "")) doc toks.dropLast = true) :
    (match Lib.splitPointer p with
     | none => R.err
     | some (parts, key) => Lib.updateAt (f key) parts doc) = ofOpt (Rfc.updateParent g doc toks) := by
  by_cases hne : toks = []
  · subst hne
    rw [tokens_nil_split p ht]
    cases doc <;> rfl
  · obtain ⟨parts, key, hsp, rfl⟩ := pointer_agree p toks ht hne
    rw [hsp]
    simp only [List.dropLast_concat, List.getLast?_concat, Option.getD_some] at hw
    exact walk_agree' (f key) g key (P key) (hfg key) hg parts doc hw

/-- **`add`, arrays included**: an RFC 6901 pointer whose parent tokens enter arrays by canonical
    index, and whose last token is — when the parent is an array — `-` or a canonical index ⇒
    the library does what RFC 6902 says (insertion, append, or an error on both sides) -/
theorem add_agree_arr (doc op : Json) (p : String) (v : Json) (toks : List String)
    (hop : op.get? "op" = some (.str "add")) (hpath : op.get? "path" = some (.str p)) (hval : op.get? "value" = some v)
    (ht : Rfc.tokens p = some toks) (hne : toks ≠ []) (hw : canonWalk (addP (toks.getLast?.getD "")) doc toks.dropLast = true) :
    Lib.applyOp doc op = ofOpt (Rfc.applyOp doc op) := by
  have _ := hne
  have h := op_agree' (fun key con => Lib.conAdd con key v) (Rfc.addInto v) addP doc p toks
    (fun key con => leaf_add' key v con) (leaf_add_scalar v) ht hw
  simp only [Lib.applyOp, Lib.opString, hop, hpath, hval, if_true, Option.getD_some, Rfc.applyOp, Option.bind_some,
    Json.str?, ht]
  exact h

/-- **`remove`, arrays included** -/
theorem remove_agree_arr (doc op : Json) (p : String) (toks : List String)
    (hop : op.get? "op" = some (.str "remove")) (hpath : op.get? "path" = some (.str p))
    (ht : Rfc.tokens p = some toks) (hne : toks ≠ []) (hw : canonWalk (removeP (toks.getLast?.getD "")) doc toks.dropLast = true) :
    Lib.applyOp doc op = ofOpt (Rfc.applyOp doc op) := by
  have _ := hne
  have h := op_agree' (fun key con => Lib.conRemove con key) Rfc.removeFrom removeP doc p toks
    (fun key con => leaf_remove' key con) leaf_remove_scalar ht hw
  have e : ("remove" = "add") = False := by decide
  simp only [Lib.applyOp, Lib.opString, hop, hpath, e, if_false, if_true, Rfc.applyOp, Option.bind_some, Json.str?, ht]
  exact h

/-- **`replace`, arrays included**: in an array a canonical index, in an object a member that is
    there (the library would add a missing one) -/
theorem replace_agree_arr (doc op : Json) (p : String) (v : Json) (toks : List String)
    (hop : op.get? "op" = some (.str "replace")) (hpath : op.get? "path" = some (.str p)) (hval : op.get? "value" = some v)
    (ht : Rfc.tokens p = some toks) (hne : toks ≠ []) (hw : canonWalk (replaceP (toks.getLast?.getD "")) doc toks.dropLast = true) :
    Lib.applyOp doc op = ofOpt (Rfc.applyOp doc op) := by
  have _ := hne
  have h := op_agree' (fun key con => do let _ ← Lib.conGet con key; Lib.conSet con key v) (Rfc.replaceIn v) replaceP doc p toks
    (fun key con => leaf_replace' key v con) (leaf_replace_scalar v) ht hw
  have e1 : ("replace" = "add") = False := by decide
  have e2 : ("replace" = "remove") = False := by decide
  simp only [Lib.applyOp, Lib.opString, hop, hpath, hval, e1, e2, if_false, if_true, Option.getD_some, Rfc.applyOp,
    Option.bind_some, Json.str?, ht]
  exact h

/-! ### the hypotheses are met by ordinary operations; the deviations next to the fragment -/

/-- `{"l":[{"m":["x","y"]},"s"],"o":{}}` -/
def arrDoc : Json := .obj [("l", .arr [.obj [("m", .arr [.str "x", .str "y"])], .str "s"]), ("o", .obj [])]

/-- `add` into an array below an array: insertion before index 1 -/
example : Lib.applyOp arrDoc (sampleOp "add" "/l/0/m/1" (.str "z")) = ofOpt (Rfc.applyOp arrDoc (sampleOp "add" "/l/0/m/1" (.str "z"))) :=
  add_agree_arr _ _ "/l/0/m/1" (.str "z") ["l", "0", "m", "1"] rfl rfl rfl (by decide) (by decide) (by decide)

example : Rfc.applyOp arrDoc (sampleOp "add" "/l/0/m/1" (.str "z")) =
    some (.obj [("l", .arr [.obj [("m", .arr [.str "x", .str "z", .str "y"])], .str "s"]), ("o", .obj [])]) := by rfl

/-- `add` at `-` (append) and at the length (append as well); one past the length: both refuse -/
example : Lib.applyOp arrDoc (sampleOp "add" "/l/-" (.str "z")) = ofOpt (Rfc.applyOp arrDoc (sampleOp "add" "/l/-" (.str "z"))) :=
  add_agree_arr _ _ "/l/-" (.str "z") ["l", "-"] rfl rfl rfl (by decide) (by decide) (by decide)

example : Lib.applyOp arrDoc (sampleOp "add" "/l/3" (.str "z")) = .err ∧ Rfc.applyOp arrDoc (sampleOp "add" "/l/3" (.str "z")) = none :=
  ⟨by rw [add_agree_arr _ _ "/l/3" (.str "z") ["l", "3"] rfl rfl rfl (by decide) (by decide) (by decide)]; rfl, by rfl⟩

/-- `remove` of an array element -/
example : Lib.applyOp arrDoc (.obj [("op", .str "remove"), ("path", .str "/l/1")]) =
    ofOpt (Rfc.applyOp arrDoc (.obj [("op", .str "remove"), ("path", .str "/l/1")])) :=
  remove_agree_arr _ _ "/l/1" ["l", "1"] rfl rfl (by decide) (by decide) (by decide)

example : Rfc.applyOp arrDoc (.obj [("op", .str "remove"), ("path", .str "/l/1")]) =
    some (.obj [("l", .arr [.obj [("m", .arr [.str "x", .str "y"])]]), ("o", .obj [])]) := by rfl

/-- `replace` of an array element below an array -/
example : Lib.applyOp arrDoc (sampleOp "replace" "/l/0/m/0" (.str "z")) =
    ofOpt (Rfc.applyOp arrDoc (sampleOp "replace" "/l/0/m/0" (.str "z"))) :=
  replace_agree_arr _ _ "/l/0/m/0" (.str "z") ["l", "0", "m", "0"] rfl rfl rfl (by decide) (by decide) (by decide)

example : Rfc.applyOp arrDoc (sampleOp "replace" "/l/0/m/0" (.str "z")) =
    some (.obj [("l", .arr [.obj [("m", .arr [.str "z", .str "y"])], .str "s"]), ("o", .obj [])]) := by rfl

/-- DEVIATION (index spelling on the way): `00` is no RFC 6901 index; the library walks through -/
example : Lib.applyOp arrDoc (sampleOp "replace" "/l/00/m/0" (.str "z")) =
      .ok (.obj [("l", .arr [.obj [("m", .arr [.str "z", .str "y"])], .str "s"]), ("o", .obj [])]) ∧
    Rfc.applyOp arrDoc (sampleOp "replace" "/l/00/m/0" (.str "z")) = none := ⟨by rfl, by rfl⟩

/-- DEVIATION (negative index): `remove` at `-1` removes the last element in the library -/
example : Lib.applyOp arrDoc (.obj [("op", .str "remove"), ("path", .str "/l/-1")]) =
      .ok (.obj [("l", .arr [.obj [("m", .arr [.str "x", .str "y"])]]), ("o", .obj [])]) ∧
    Rfc.applyOp arrDoc (.obj [("op", .str "remove"), ("path", .str "/l/-1")]) = none := ⟨by rfl, by rfl⟩

/-- DEVIATION (`move` into an array — why `move` is not in the fragment): RFC 6902 §4.4 is
    "remove, then add" (an insertion); the library *sets* the target index, overwriting the
    element that is there -/
example :
    Lib.applyOp arrDoc (.obj [("op", .str "move"), ("from", .str "/l/1"), ("path", .str "/l/0/m/0")]) =
      .ok (.obj [("l", .arr [.obj [("m", .arr [.str "s", .str "y"])]]), ("o", .obj [])]) ∧
    Rfc.applyOp arrDoc (.obj [("op", .str "move"), ("from", .str "/l/1"), ("path", .str "/l/0/m/0")]) =
      some (.obj [("l", .arr [.obj [("m", .arr [.str "s", .str "x", .str "y"])]]), ("o", .obj [])]) := ⟨by rfl, by rfl⟩

/-- `move` between object members: the two agree on this instance -/
example :
    Lib.applyOp arrDoc (.obj [("op", .str "move"), ("from", .str "/l"), ("path", .str "/o/k")]) =
      .ok (.obj [("o", .obj [("k", .arr [.obj [("m", .arr [.str "x", .str "y"])], .str "s"])])]) ∧
    Rfc.applyOp arrDoc (.obj [("op", .str "move"), ("from", .str "/l"), ("path", .str "/o/k")]) =
      some (.obj [("o", .obj [("k", .arr [.obj [("m", .arr [.str "x", .str "y"])], .str "s"])])]) := ⟨by rfl, by rfl⟩

end Sidetree.Props.C10
