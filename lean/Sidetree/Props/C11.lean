/-
  C11 — a validated ietf-json-patch never alters public keys or services.
  Stated on the validator model (`Validator.ietfVerdict`) and the faithful library model
  (`JsonPatch.Lib.applyAll`, i.e. what the composer does with the operation list).
-/
import Sidetree.Lemmas.JsonPatch
import Sidetree.Validator

namespace Sidetree.Props.C11
open Sidetree Sidetree.JsonPatch Sidetree.Validator

def Protected (n : String) : Prop := n = "publicKey" ∨ n = "service"

/-- what `pointerOK` gives: the pointer is empty or starts with `/`, and its first token does
    not decode to a protected member name -/
theorem pointer_top_safe (path : String) (hok : pointerOK path = true)
    (parts : List (List Char)) (key : String) (hs : Lib.splitPointer path = some (parts, key)) :
    ∀ n, Protected n → n ≠ topOf parts key := by
  unfold pointerOK at hok
  simp only [Bool.and_eq_true, Bool.or_eq_true, decide_eq_true_eq, Bool.not_eq_true',
    Expected.protectedPrefixes, List.any_cons, List.any_nil, Bool.or_false, Bool.or_eq_false_iff] at hok
  obtain ⟨hstart, hsvc, hpk⟩ := hok
  cases hl : path.toList with
  | nil =>
    have : path = "" := by
      apply String.ext; simpa using hl
    subst this
    simp [Lib.splitPointer, splitSlash, splitSlash.go] at hs
  | cons c cs =>
    have hc : c = '/' := by
      rcases hstart with h | h
      · subst h; simp at hl
      · rw [hl] at h
        have : '/' = c := by simpa [List.isPrefixOf] using h
        exact this.symm
    subst hc
    have hp : path = String.ofList ('/' :: cs) := by
      apply String.ext; simpa using hl
    rw [hp] at hs
    rw [topOf_splitPointer cs parts key hs]
    rw [hl] at hsvc hpk
    intro n hn
    rcases hn with rfl | rfl
    · have := pointerOK_top_ne cs "publicKey".toList (by decide) (by simpa using hpk)
      intro e; exact this (by rw [← e]; rfl)
    · have := pointerOK_top_ne cs "service".toList (by decide) (by simpa using hsvc)
      intro e; exact this (by rw [← e]; rfl)

/-- shape of an accepted operation -/
theorem verdict_ok_shape (op : Json) (h : ietfOpVerdict op = .ok) :
    ∃ path, op.get? "path" = some (.str path) ∧ pointerOK path = true ∧
      (op.get? "from" = none ∨ ∃ frm, op.get? "from" = some (.str frm) ∧ pointerOK frm = true) := by
  unfold ietfOpVerdict at h
  cases op with
  | obj kvs =>
    simp only at h
    cases hp : (Json.obj kvs).get? "path" with
    | none => simp [hp] at h
    | some pj =>
      cases pj with
      | str path =>
        simp only [hp] at h
        by_cases hok : pointerOK path = true
        · refine ⟨path, rfl, hok, ?_⟩
          simp only [hok, Bool.not_true, Bool.false_eq_true, if_false, Expected.inspectedMembers] at h
          have hin : (["path", "from"] : List String).contains "from" = true := by decide
          simp only [hin, Bool.not_true, Bool.false_eq_true, if_false] at h
          cases hf : (Json.obj kvs).get? "from" with
          | none => left; rfl
          | some fj =>
            right
            cases fj with
            | str frm =>
              simp only [hf] at h
              by_cases hfo : pointerOK frm = true
              · exact ⟨frm, rfl, hfo⟩
              · simp [hfo] at h
            | null => simp [hf] at h
            | bool b => simp [hf] at h
            | num n => simp [hf] at h
            | arr xs => simp [hf] at h
            | obj o => simp [hf] at h
        · simp [hok] at h
      | null => simp [hp] at h
      | bool b => simp [hp] at h
      | num n => simp [hp] at h
      | arr xs => simp [hp] at h
      | obj o => simp [hp] at h
  | null => simp at h
  | bool b => simp at h
  | num n => simp at h
  | str s => simp at h
  | arr xs => simp at h

theorem opString_of_get (op : Json) (k s : String) (h : op.get? k = some (.str s)) : Lib.opString op k = s := by
  simp [Lib.opString, h]

/-- preservation through one update whose pointer is accepted -/
theorem update_preserves (f : Json → R Json) (key : String) (hf : OnlyMember f key)
    (path : String) (hok : pointerOK path = true) (parts : List (List Char))
    (hs : Lib.splitPointer path = some (parts, key)) (kvs : List (String × Json)) (d' : Json)
    (h : Lib.updateAt f parts (.obj kvs) = .ok d') :
    ∃ kvs', d' = .obj kvs' ∧ ∀ n, Protected n → Json.lookup n kvs' = Json.lookup n kvs := by
  obtain ⟨kvs', hd, hk⟩ := updateAt_only_top f key hf parts kvs d' h
  exact ⟨kvs', hd, fun n hn => hk n (pointer_top_safe path hok parts key hs n hn)⟩

/-- **one accepted operation leaves `publicKey` and `service` as they were** -/
theorem op_preserves (kvs : List (String × Json)) (op d' : Json)
    (hv : ietfOpVerdict op = .ok) (ha : Lib.applyOp (.obj kvs) op = .ok d') :
    ∃ kvs', d' = .obj kvs' ∧ ∀ n, Protected n → Json.lookup n kvs' = Json.lookup n kvs := by
  obtain ⟨path, hp, hok, hfrom⟩ := verdict_ok_shape op hv
  have hps := opString_of_get op "path" path hp
  unfold Lib.applyOp at ha
  simp only [hps] at ha
  by_cases k1 : Lib.opString op "op" = "add"
  · simp only [k1, if_true] at ha
    cases hs : Lib.splitPointer path with
    | none => simp [hs] at ha
    | some pk =>
      obtain ⟨parts, key⟩ := pk
      simp only [hs] at ha
      exact update_preserves _ key (onlyMember_conAdd key _) path hok parts hs kvs d' ha
  by_cases k2 : Lib.opString op "op" = "remove"
  · simp only [k1, k2, if_true, if_false] at ha
    cases hs : Lib.splitPointer path with
    | none => simp [hs] at ha
    | some pk =>
      obtain ⟨parts, key⟩ := pk
      simp only [hs] at ha
      exact update_preserves _ key (onlyMember_conRemove key) path hok parts hs kvs d' ha
  by_cases k3 : Lib.opString op "op" = "replace"
  · simp only [k1, k2, k3, if_true, if_false] at ha
    cases hs : Lib.splitPointer path with
    | none => simp [hs] at ha
    | some pk =>
      obtain ⟨parts, key⟩ := pk
      simp only [hs] at ha
      exact update_preserves _ key (onlyMember_getSet key _) path hok parts hs kvs d' ha
  by_cases k4 : Lib.opString op "op" = "move"
  · simp only [k1, k2, k3, k4, if_true, if_false] at ha
    rcases hfrom with hnone | ⟨frm, hf, hfok⟩
    · have : Lib.opString op "from" = "unknown" := by simp [Lib.opString, hnone]
      simp [this, Lib.splitPointer, splitSlash, splitSlash.go] at ha
    · have hfs := opString_of_get op "from" frm hf
      simp only [hfs] at ha
      cases hsf : Lib.splitPointer frm with
      | none => simp [hsf] at ha
      | some fpk =>
        obtain ⟨fparts, fkey⟩ := fpk
        cases hs : Lib.splitPointer path with
        | none =>
          simp only [hsf, hs, bind, R.bind] at ha
          cases h1 : Lib.readAt (fun con => Lib.conGet con fkey) fparts (Json.obj kvs) <;> simp [h1] at ha
          cases h2 : Lib.updateAt (fun con => Lib.conRemove con fkey) fparts (Json.obj kvs) <;> simp [h2] at ha
        | some pk =>
          obtain ⟨parts, key⟩ := pk
          simp only [hsf, hs, bind, R.bind] at ha
          cases h1 : Lib.readAt (fun con => Lib.conGet con fkey) fparts (Json.obj kvs) with
          | ok val =>
            simp only [h1] at ha
            cases h2 : Lib.updateAt (fun con => Lib.conRemove con fkey) fparts (Json.obj kvs) with
            | ok d1 =>
              simp only [h2] at ha
              obtain ⟨kvs1, hd1, hk1⟩ := update_preserves _ fkey (onlyMember_conRemove fkey) frm hfok fparts hsf kvs d1 h2
              subst hd1
              obtain ⟨kvs2, hd2, hk2⟩ := update_preserves _ key (onlyMember_conSet key _) path hok parts hs kvs1 d' ha
              exact ⟨kvs2, hd2, fun n hn => (hk2 n hn).trans (hk1 n hn)⟩
            | err => simp [h2] at ha
            | panic => simp [h2] at ha
            | blowup => simp [h2] at ha
          | err => simp [h1] at ha
          | panic => simp [h1] at ha
          | blowup => simp [h1] at ha
  by_cases k5 : Lib.opString op "op" = "copy"
  · simp only [k1, k2, k3, k4, k5, if_true, if_false] at ha
    rcases hfrom with hnone | ⟨frm, hf, hfok⟩
    · have : Lib.opString op "from" = "unknown" := by simp [Lib.opString, hnone]
      simp [this, Lib.splitPointer, splitSlash, splitSlash.go] at ha
    · have hfs := opString_of_get op "from" frm hf
      simp only [hfs] at ha
      cases hsf : Lib.splitPointer frm with
      | none => simp [hsf] at ha
      | some fpk =>
        obtain ⟨fparts, fkey⟩ := fpk
        cases hs : Lib.splitPointer path with
        | none =>
          simp only [hsf, hs, bind, R.bind] at ha
          cases h1 : Lib.readAt (fun con => Lib.conGet con fkey) fparts (Json.obj kvs) <;> simp [h1] at ha
        | some pk =>
          obtain ⟨parts, key⟩ := pk
          simp only [hsf, hs, bind, R.bind] at ha
          cases h1 : Lib.readAt (fun con => Lib.conGet con fkey) fparts (Json.obj kvs) with
          | ok val =>
            simp only [h1] at ha
            cases h2 : Lib.updateAt (fun con => Lib.conSet con key (Lib.jsonOf val)) parts (Json.obj kvs) with
            | ok d1 =>
              simp only [h2] at ha
              by_cases hcy : Lib.copyMakesCycle (Json.obj kvs) fparts fkey parts = true
              · simp [hcy] at ha
              · simp [hcy] at ha
                subst ha
                exact update_preserves _ key (onlyMember_conSet key _) path hok parts hs kvs d1 h2
            | err => simp [h2] at ha
            | panic => simp [h2] at ha
            | blowup => simp [h2] at ha
          | err => simp [h1] at ha
          | panic => simp [h1] at ha
          | blowup => simp [h1] at ha
  by_cases k6 : Lib.opString op "op" = "test"
  · simp only [k1, k2, k3, k4, k5, k6, if_true, if_false] at ha
    -- a test never changes the document
    have : d' = .obj kvs := by
      cases hs : Lib.splitPointer path with
      | none => simp [hs] at ha
      | some pk =>
        obtain ⟨parts, key⟩ := pk
        simp only [hs, bind, R.bind] at ha
        cases h1 : Lib.readAt (fun con => Lib.conGet con key) parts (Json.obj kvs) with
        | ok val =>
          simp only [h1] at ha
          cases h2 : Lib.testOutcome val (op.get? "value").isSome ((op.get? "value").getD Json.null) with
          | ok u => simp only [h2] at ha; cases ha; rfl
          | err => simp [h2] at ha
          | panic => simp [h2] at ha
          | blowup => simp [h2] at ha
        | err => simp [h1] at ha
        | panic => simp [h1] at ha
        | blowup => simp [h1] at ha
    exact ⟨kvs, this, fun _ _ => rfl⟩
  · simp [k1, k2, k3, k4, k5, k6] at ha

/-- the verdict of a list is ok only if every operation's verdict is -/
theorem verdict_cons (o : Json) (rest : List Json) (h : ietfVerdict.go (o :: rest) = .ok) :
    ietfOpVerdict o = .ok ∧ ietfVerdict.go rest = .ok := by
  simp only [ietfVerdict.go] at h
  cases hv : ietfOpVerdict o <;> simp_all

/-- **C11 main theorem**: a patch the validator accepts, applied by the composer's library
    calls, leaves the `publicKey` and `service` members exactly as they were — for every
    document, every operation list, all six kinds and every pointer spelling. -/
theorem validated_preserves_protected :
    ∀ (ops : List Json) (kvs : List (String × Json)) (d' : Json),
      ietfVerdict.go ops = .ok → Lib.applyAll (.obj kvs) ops = .ok d' →
      ∃ kvs', d' = .obj kvs' ∧ ∀ n, Protected n → Json.lookup n kvs' = Json.lookup n kvs
  | [], kvs, d', _, ha => by
    simp [Lib.applyAll, List.foldlM, pure] at ha
    exact ⟨kvs, ha.symm, fun _ _ => rfl⟩
  | o :: rest, kvs, d', hv, ha => by
    obtain ⟨hv1, hv2⟩ := verdict_cons o rest hv
    simp only [Lib.applyAll, List.foldlM_cons, bind, R.bind, Lib.applyGuarded] at ha
    by_cases hg : Lib.targetsOwnSource o (Json.obj kvs) = true
    · simp [hg] at ha
    simp only [hg, Bool.false_eq_true, if_false] at ha
    cases h1 : Lib.applyOp (Json.obj kvs) o with
    | ok d1 =>
      simp only [h1] at ha
      obtain ⟨kvs1, hd1, hk1⟩ := op_preserves kvs o d1 hv1 h1
      subst hd1
      obtain ⟨kvs2, hd2, hk2⟩ := validated_preserves_protected rest kvs1 d' hv2 (by simpa [Lib.applyAll] using ha)
      exact ⟨kvs2, hd2, fun n hn => (hk2 n hn).trans (hk1 n hn)⟩
    | err => simp [h1] at ha
    | panic => simp [h1] at ha
    | blowup => simp [h1] at ha

/-- in the words of the property: `get? "publicKey"` and `get? "service"` are unchanged -/
theorem validated_preserves_keys_and_services (ops : List Json) (kvs : List (String × Json)) (d' : Json)
    (hv : ietfVerdict ops = .ok) (ha : Lib.applyAll (.obj kvs) ops = .ok d') :
    d'.get? "publicKey" = (Json.obj kvs).get? "publicKey" ∧ d'.get? "service" = (Json.obj kvs).get? "service" := by
  have hgo : ietfVerdict.go ops = .ok := by
    unfold ietfVerdict at hv
    split at hv
    · cases hv
    · exact hv
  obtain ⟨kvs', hd, hk⟩ := validated_preserves_protected ops kvs d' hgo ha
  subst hd
  exact ⟨hk _ (Or.inl rfl), hk _ (Or.inr rfl)⟩

/-! non-vacuity and the repaired defects as refutations of the *old* validator -/

/-- an accepted, applicable patch exists (hypotheses are satisfiable) -/
example : ietfVerdict [.obj [("op", .str "add"), ("path", .str "/x"), ("value", .str "v")]] = .ok := by decide

/-- `move /publicKey/0 → /x` is refused because `from` is inspected (D8) -/
example : ietfVerdict [.obj [("op", .str "move"), ("from", .str "/publicKey/0"), ("path", .str "/x")]] = .err := by decide

/-- `remove x/publicKey` is refused because pointers must start with `/` (D14) -/
example : ietfVerdict [.obj [("op", .str "remove"), ("path", .str "x/publicKey")]] = .err := by decide

/-- siblings sharing a prefix are over-rejected, look-alikes are not -/
example : pointerOK "/publicKeyX" = false ∧ pointerOK "/a/publicKey" = true ∧ pointerOK "/~0publicKey" = true := by decide

end Sidetree.Props.C11
