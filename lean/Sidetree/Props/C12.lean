/-
  C12 — applying operations and patches never mutates inputs; failures are atomic (partial).

  What Lean can say: (1) atomicity of the models' results; (2) soundness of the effect discipline
  (`Effects.disciplined_sound`): a Go function whose extracted summary passes the analysis never
  writes to an object that existed on entry. The summaries are regenerated from the Go AST on
  every run and the obligations `Disciplined … = true` are decided by the kernel
  (`Obligations/C12_effects.lean`). What it cannot say (aliasing created inside third-party
  code, branches flattened by the extractor) is listed in DESIGN.md §4 C12 and covered by the
  before/after snapshots of the correspondence runs.
-/
import Sidetree.Effects
import Sidetree.Props.C10
import Sidetree.Props.C01

namespace Sidetree.Props.C12
open Sidetree Sidetree.Effects

/-- a disciplined program leaves every pre-existing object untouched (restated from `Effects`) -/
theorem disciplined_programs_do_not_write_inputs {α : Type} [DecidableEq α] (inputs : List α) (p : Prog α) (s : State α)
    (hbound : ∀ n o, s.env n = some o → n ∈ inputs) (hd : Disciplined inputs p = true) :
    ∀ o, o < s.next → (exec s p).heap o = s.heap o :=
  disciplined_sound inputs p s hbound hd

/-- a failing patch list yields an error and no partial document -/
theorem failing_patch_list_no_document (doc : Json) (ps qs : List Json) (p d : Json)
    (h1 : Composer.applyPatches doc ps = .ok d) (h2 : Composer.applyPatch d p = .err) :
    Composer.applyPatches doc (ps ++ p :: qs) = .err :=
  C10.failure_is_atomic doc ps qs p d h1 h2

/-- a refused operation yields no state: the fold keeps the previous one -/
theorem refused_operation_no_state (H : HashFam) (cfg : Protocol) (orc : Oracles) (op : AnchoredOp) (rm : RM)
    (h : Applier.apply H cfg orc op rm = .refused) : Applier.stepOrKeep H cfg orc rm op = rm :=
  C01.refused_keeps H cfg orc op rm h

/-- the two mistakes the discipline exists to catch: writing through the parameter, and writing
    through a "working copy" that is the parameter itself on some path -/
example :
    Disciplined ["f/doc"] [.alloc "f/result", .alias "f/result" "f/doc", .write "f/result"] = false ∧
    Disciplined ["f/doc"] [.alloc "f/result", .alias "f/$ret" "f/doc", .alloc "f/fresh", .alias "f/$ret" "f/fresh",
                           .alias "f/result" "f/$ret", .write "f/result"] = false ∧
    Disciplined ["f/doc"] [.alloc "f/result", .copy "f/result" "f/doc", .write "f/result"] = true := by decide

end Sidetree.Props.C12
