/-
  C13 — patch validation enforces the documented constraints.
  `Spec.*` restates the property's sentence as propositions with explicit quantifiers; the
  theorems prove the executable validator (the definition the driver runs against the real
  library) equivalent to them, for every JSON value.
-/
import Sidetree.Validator

namespace Sidetree.Props.C13
open Sidetree Sidetree.Validator Sidetree.Patch

/-! ### ids -/

theorem utf8Len_ascii : ∀ (cs : List Char) (acc : Nat), (∀ c ∈ cs, c.toNat < 128) →
    cs.foldl (fun a c => a + c.utf8Size) acc = acc + cs.length
  | [], acc, _ => by simp
  | c :: cs, acc, h => by
    have hc : c.utf8Size = 1 := by
      have := h c (List.mem_cons_self ..)
      simp only [Char.utf8Size]
      have : c.val.toNat < 128 := this
      have h127 : c.val ≤ 127 := by
        apply UInt32.le_iff_toNat_le.mpr
        simp; omega
      simp [h127]
    simp only [List.foldl_cons, hc, List.length_cons]
    rw [utf8Len_ascii cs (acc + 1) (fun x hx => h x (List.mem_cons_of_mem _ hx))]
    omega

theorem isIdChar_ascii (c : Char) (h : isIdChar c = true) : c.toNat < 128 := by
  simp only [isIdChar, Bool.or_eq_true, Bool.and_eq_true, decide_eq_true_eq] at h
  have hle : ∀ a b : Char, a ≤ b → a.toNat ≤ b.toNat := fun a b h => by
    exact UInt32.le_iff_toNat_le.mp h
  rcases h with (((⟨_, h2⟩ | ⟨_, h2⟩) | ⟨_, h2⟩) | h) | h
  · have := hle _ _ h2; simp at this; omega
  · have := hle _ _ h2; simp at this; omega
  · have := hle _ _ h2; simp at this; omega
  · subst h; decide
  · subst h; decide

theorem validID_bytes (id : String) : validID id = true ↔ (utf8Len id ≤ 50 ∧ id.toList ≠ [] ∧ ∀ c ∈ id.toList, isIdChar c = true) := by
  simp [validID, Expected.maxIDLength, and_assoc]

/-- **ids are 1–50 characters of `[A-Za-z0-9_-]`** -/
theorem validID_iff (id : String) :
    validID id = true ↔ (1 ≤ id.toList.length ∧ id.toList.length ≤ 50 ∧ ∀ c ∈ id.toList, isIdChar c = true) := by
  rw [validID_bytes]
  constructor
  · rintro ⟨h1, h2, h3⟩
    have hl : utf8Len id = id.toList.length := by
      unfold utf8Len
      rw [utf8Len_ascii _ 0 (fun c hc => isIdChar_ascii c (h3 c hc))]; omega
    refine ⟨?_, by omega, h3⟩
    cases h : id.toList with
    | nil => exact absurd h h2
    | cons _ _ => simp
  · rintro ⟨h1, h2, h3⟩
    have hl : utf8Len id = id.toList.length := by
      unfold utf8Len
      rw [utf8Len_ascii _ 0 (fun c hc => isIdChar_ascii c (h3 c hc))]; omega
    refine ⟨by omega, ?_, h3⟩
    intro h; rw [h] at h1; simp at h1

/-- boundary lengths 0 / 1 / 50 / 51 -/
example : validID "" = false ∧ validID "a" = true ∧
    validID (String.ofList (List.replicate 50 'x')) = true ∧
    validID (String.ofList (List.replicate 51 'x')) = false ∧
    validID "a.b" = false ∧ validID "A_z-09" = true := by decide

/-! ### key type × purpose matrix -/

/-- the documented matrix: the four verification relationships accept every key type except
    X25519KeyAgreementKey2019; keyAgreement accepts every type except the two Ed25519 types;
    a key without purposes may have any of the six types -/
def specAllowed (ty : String) (purpose : Option String) : Bool :=
  Expected.keyTypesGeneral.contains ty &&
  match purpose with
  | none => true
  | some "keyAgreement" => ty ≠ "Ed25519VerificationKey2018" && ty ≠ "Ed25519VerificationKey2020"
  | some p => Expected.allowedPurposes.contains p && ty ≠ "X25519KeyAgreementKey2019"

def pkWith (ty : String) (ps : List String) : Json :=
  .obj [("type", .str ty), ("purposes", .arr (ps.map .str))]

/-- exhaustive over the six types plus an unknown one × the five purposes plus an unknown one -/
theorem matrix_exact :
    ∀ ty ∈ Expected.keyTypesGeneral ++ ["RsaVerificationKey2018", ""],
      (keyTypePurposeOK (.obj [("type", .str ty)]) = specAllowed ty none) ∧
      ∀ p ∈ Expected.allowedPurposes ++ ["other"],
        keyTypePurposeOK (pkWith ty [p]) = specAllowed ty (some p) := by decide

/-- several purposes: permitted iff each one is -/
theorem matrix_all (ty : String) (ps : List String) (hne : ps ≠ []) :
    keyTypePurposeOK (pkWith ty ps) = ps.all fun p =>
      match Expected.keyTypePurpose.lookup p with
      | some tys => tys.contains ty
      | none => false := by
  have hp : purposes (pkWith ty ps) = ps := by
    have hc : (Json.str? ∘ Json.str) = some := by funext s; rfl
    simp [purposes, pkWith, Json.get?, Json.lookup, stringArray, hc]
  have hne' : ps.isEmpty = false := by cases ps <;> simp_all
  have ht : stringEntry ((pkWith ty ps).get? "type") = ty := by
    simp [pkWith, Json.get?, Json.lookup, stringEntry]
  unfold keyTypePurposeOK
  rw [hp, ht, hne']
  simp only [Bool.false_eq_true, if_false, Bool.true_and]
  rfl

/-! ### purposes -/

/-- purposes, if present, are a non-empty list of at most five *entries*, every one of them a
    string that names a known purpose -/
theorem purposesOK_iff (pk : Json) :
    purposesOK pk = true ↔
      ((hasMember pk "purposes" = true → purposes pk ≠ []) ∧
       (∀ xs, pk.get? "purposes" = some (.arr xs) → ∀ x ∈ xs, ∃ s, x = .str s) ∧
       (purposes pk).length ≤ 5 ∧ ∀ p ∈ purposes pk, p ∈ Expected.allowedPurposes) := by
  simp only [purposesOK, Bool.and_eq_true, Bool.not_eq_true', List.all_eq_true, List.contains_iff_mem]
  have e : Expected.allowedPurposes.length = 5 := rfl
  rw [e]
  have hstr : purposesAllStrings pk = true ↔
      ∀ xs, pk.get? "purposes" = some (.arr xs) → ∀ x ∈ xs, ∃ s, x = .str s := by
    unfold purposesAllStrings
    cases hg : pk.get? "purposes" with
    | none => simp
    | some v =>
      cases v with
      | arr xs =>
        simp only [allStrings, List.all_eq_true, Option.some.injEq, Json.arr.injEq]
        constructor
        · intro h ys e x hx
          subst e
          have := h x hx
          cases x <;> simp [Json.str?] at this ⊢
        · intro h x hx
          obtain ⟨s, rfl⟩ := h xs rfl x hx
          simp [Json.str?]
      | _ => simp
  rw [hstr]
  generalize (∀ xs, pk.get? "purposes" = some (.arr xs) → ∀ x ∈ xs, ∃ s, x = .str s) = P
  cases hm : hasMember pk "purposes" <;> cases hp : purposes pk <;> simp [Nat.not_lt] <;>
    (constructor <;> intro h <;> simp_all)

/-! ### services -/

/-- an endpoint is present and every URI string in it (the endpoint itself, or **every** string
    entry of an endpoint list) is a non-empty valid URI -/
theorem endpointOK_iff (orc : UriOracle) (ep : Option Json) :
    endpointOK orc ep = true ↔
      match ep with
      | none => False
      | some .null => False
      | some (.str s) => s ≠ "" ∧ orc.requestOK s = true
      | some (.arr xs) => ∀ s, Json.str s ∈ xs → s ≠ "" ∧ orc.requestOK s = true
      | some _ => True := by
  cases ep with
  | none => simp [endpointOK]
  | some j =>
    cases j with
    | null => simp [endpointOK]
    | str s => simp [endpointOK, uriOK]
    | arr xs =>
      simp only [endpointOK, List.all_eq_true]
      constructor
      · intro h s hs
        have := h _ hs
        simpa [uriOK] using this
      · intro h x hx
        cases x <;> simp
        rename_i s
        simpa [uriOK] using h s hx
    | bool b => simp [endpointOK]
    | num n => simp [endpointOK]
    | obj kvs => simp [endpointOK]

/-- the witness of the repaired defect: a bad URI after a good one is refused -/
example (orc : UriOracle) (h : orc.requestOK "https://ok.example" = true) :
    endpointOK orc (some (.arr [.str "https://ok.example", .str ""])) = false := by
  simp [endpointOK, uriOK, h]

theorem serviceOK_iff (orc : UriOracle) (s : Json) :
    serviceOK orc s = true ↔
      (validID (stringEntry (s.get? "id")) = true ∧
       stringEntry (s.get? "type") ≠ "" ∧ (stringEntry (s.get? "type")).length ≤ 30 ∧
       endpointOK orc (s.get? "serviceEndpoint") = true) := by
  simp only [serviceOK, Expected.maxServiceTypeLength]
  constructor
  · intro h
    simp at h
    exact ⟨h.1.1.1.2, h.1.1.2, h.1.2, h.2⟩
  · rintro ⟨h1, h2, h3, h4⟩
    have hne : stringEntry (s.get? "id") ≠ "" := by
      intro h; rw [h] at h1; simp [validID] at h1
    simp [h1, h2, h3, h4, hne]

theorem nodupStrings_iff : ∀ (xs : List String), nodupStrings xs = true ↔ xs.Nodup
  | [] => by simp [nodupStrings]
  | x :: xs => by simp [nodupStrings, nodupStrings_iff xs, List.contains_iff_mem]

/-- services: each valid, ids unique within the patch -/
theorem servicesOK_iff (orc : UriOracle) (svcs : List Json) :
    servicesOK orc svcs = true ↔
      ((∀ s ∈ svcs, serviceOK orc s = true) ∧ (svcs.map fun s => stringEntry (s.get? "id")).Nodup) := by
  simp [servicesOK, nodupStrings_iff]

/-- keys: each valid by the five rules, ids unique within the patch -/
theorem publicKeysOK_iff (pks : List Json) :
    publicKeysOK pks = true ↔
      ((∀ pk ∈ pks, pkPropertiesOK pk = true ∧ validID (stringEntry (pk.get? "id")) = true ∧
          purposesOK pk = true ∧ keyTypePurposeOK pk = true ∧ keyMaterialOK pk = true) ∧
       (pks.map fun pk => stringEntry (pk.get? "id")).Nodup) := by
  simp [publicKeysOK, nodupStrings_iff, and_assoc]

/-- a key has a type and an id, exactly one of JWK / base58 material, and no unknown member -/
theorem pkPropertiesOK_iff (pk : Json) :
    pkPropertiesOK pk = true ↔
      (hasMember pk "type" = true ∧ hasMember pk "id" = true ∧
       (hasMember pk "publicKeyJwk" = true ↔ hasMember pk "publicKeyBase58" = false) ∧
       ∀ k ∈ memberNames pk, k ∈ ["type", "id", "purposes", "publicKeyJwk", "publicKeyBase58"]) := by
  unfold pkPropertiesOK
  simp only [Expected.pkRequiredMembers, Expected.pkOneOfMembers, Expected.pkOptionalMembers, List.all_cons,
    List.all_nil, Bool.and_true, Bool.and_eq_true, List.all_eq_true, List.contains_iff_mem,
    List.cons_append, List.nil_append, beq_iff_eq, List.filter_cons, List.filter_nil]
  cases h1 : hasMember pk "publicKeyJwk" <;> cases h2 : hasMember pk "publicKeyBase58" <;> simp [and_assoc]

/-- a well-formed JWK where one is required: JWK material must validate; base58 material is
    accepted only as a non-empty string and never for `JsonWebKey2020` -/
theorem keyMaterialOK_iff (pk : Json) :
    keyMaterialOK pk = true ↔
      ((∃ kvs, pk.get? "publicKeyJwk" = some (.obj kvs) ∧ docJwkValid (.obj kvs) = true) ∨
       (stringEntry (pk.get? "publicKeyBase58") ≠ "" ∧ stringEntry (pk.get? "type") ≠ "JsonWebKey2020")) := by
  unfold keyMaterialOK
  have hb : (stringEntry (pk.get? "publicKeyBase58") ≠ "" && stringEntry (pk.get? "type") ≠ Expected.jwkOnlyKeyType) = true ↔
      (stringEntry (pk.get? "publicKeyBase58") ≠ "" ∧ stringEntry (pk.get? "type") ≠ "JsonWebKey2020") := by
    simp only [Expected.jwkOnlyKeyType, Bool.and_eq_true, decide_eq_true_iff]
    exact and_congr_right fun _ => decide_eq_true_iff
  rw [Bool.or_eq_true, hb]
  apply or_congr_left
  cases hj : pk.get? "publicKeyJwk" with
  | none => simp
  | some j => cases j <;> simp

/-! ### whole patches -/

/-- remove lists are non-empty and every entry of them is a valid id (a string, that is) -/
theorem validate_remove (orc : UriOracle) (p : Json) (action : String) (value : Json)
    (ha : getAction p = some action) (hv : getValue p = some value)
    (hr : action = "remove-public-keys" ∨ action = "remove-services") :
    validate orc p = .ok ↔ (requiredArray (some value) = true ∧ allStrings value = true ∧
      ∀ id ∈ stringArray (some value), validID id = true) := by
  unfold validate
  rcases hr with rfl | rfl <;> simp [ha, hv, ofBool, List.all_eq_true] <;>
    (constructor <;> intro h <;> simp_all)

/-- … so a list that passes consists of valid ids and of nothing else -/
theorem allStrings_iff (xs : List Json) : allStrings (.arr xs) = true ↔ ∀ x ∈ xs, ∃ s, x = .str s := by
  simp only [allStrings, List.all_eq_true]
  constructor
  · intro h x hx
    have := h x hx
    cases x <;> simp [Json.str?] at this ⊢
  · intro h x hx
    obtain ⟨s, rfl⟩ := h x hx
    simp [Json.str?]

theorem allObjects_iff (xs : List Json) : allObjects (.arr xs) = true ↔ ∀ x ∈ xs, ∃ kvs, x = .obj kvs := by
  simp only [allObjects, List.all_eq_true]
  constructor
  · intro h x hx
    have := h x hx
    cases x <;> simp [isObjB] at this ⊢
  · intro h x hx
    obtain ⟨kvs, rfl⟩ := h x hx
    rfl

/-- a replace document has only `publicKeys` and `services` members, each of them (when there and
    not `null`) a list of objects that is valid by the same rules -/
theorem validate_replace (orc : UriOracle) (p : Json) (kvs : List (String × Json))
    (ha : getAction p = some "replace") (hv : getValue p = some (.obj kvs)) :
    validate orc p = .ok ↔
      ((∀ k ∈ kvs.map (·.1), k = "services" ∨ k = "publicKeys") ∧
       replaceMemberOK ((Json.obj kvs).get? "publicKeys") = true ∧ replaceMemberOK ((Json.obj kvs).get? "services") = true ∧
       publicKeysOK (objectEntries ((Json.obj kvs).get? "publicKeys")) = true ∧
       servicesOK orc (objectEntries ((Json.obj kvs).get? "services")) = true) := by
  have hv' : validate orc p = ofBool ((kvs.map (·.1)).all Expected.replaceAllowedMembers.contains &&
          replaceMemberOK ((Json.obj kvs).get? "publicKeys") && replaceMemberOK ((Json.obj kvs).get? "services") &&
          publicKeysOK (objectEntries ((Json.obj kvs).get? "publicKeys")) &&
          servicesOK orc (objectEntries ((Json.obj kvs).get? "services"))) := by
    unfold validate
    rw [ha, hv]
    rfl
  have hall : (kvs.map (·.1)).all Expected.replaceAllowedMembers.contains = true ↔
      ∀ k ∈ kvs.map (·.1), k = "services" ∨ k = "publicKeys" := by
    simp [Expected.replaceAllowedMembers, List.all_eq_true]
  rw [hv', ← hall]
  generalize publicKeysOK _ = a
  generalize servicesOK orc _ = b
  generalize replaceMemberOK ((Json.obj kvs).get? "publicKeys") = d
  generalize replaceMemberOK ((Json.obj kvs).get? "services") = e
  generalize (kvs.map (·.1)).all Expected.replaceAllowedMembers.contains = c
  cases c <;> cases a <;> cases b <;> cases d <;> cases e <;> simp [ofBool]

/-- what `replaceMemberOK` says: the member is absent, `null`, or a list whose entries are all objects -/
theorem replaceMemberOK_iff (m : Option Json) :
    replaceMemberOK m = true ↔ (m = none ∨ m = some .null ∨ ∃ xs, m = some (.arr xs) ∧ ∀ x ∈ xs, ∃ kvs, x = .obj kvs) := by
  cases m with
  | none => simp [replaceMemberOK]
  | some v =>
    cases v with
    | arr xs => simp [replaceMemberOK, allObjects_iff]
    | null => simp [replaceMemberOK]
    | _ => simp [replaceMemberOK, allObjects]

/-- a patch without a supported action or without that action's value member is refused -/
theorem validate_needs_action_and_value (orc : UriOracle) (p : Json)
    (h : getAction p = none ∨ getValue p = none) : validate orc p = .err := by
  unfold validate
  rcases h with h | h
  · simp [h]
  · cases ha : getAction p <;> simp [h]

/-- also-known-as URIs parse and are unique (after normalisation) -/
theorem akaOK_iff (orc : UriOracle) (uris : List String) :
    akaOK orc uris = true ↔ ∃ ns, mapM? orc.norm uris = some ns ∧ ns.Nodup := by
  unfold akaOK
  cases h : mapM? orc.norm uris <;> simp [nodupStrings_iff]

/-- original documents that carry an id (or, for DID documents, a context) are refused — whatever
    the JSON type of that member -/
theorem original_doc_rules (kvs : List (String × Json)) :
    (originalDocOK (.obj kvs) = true ↔ (Json.obj kvs).get? "id" = none) ∧
    (originalDidDocOK (.obj kvs) = true ↔
      ((Json.obj kvs).get? "id" = none ∧ (Json.obj kvs).get? "@context" = none)) := by
  constructor
  · simp [originalDocOK]
  · simp [originalDidDocOK, originalDocOK]

end Sidetree.Props.C13
