/-
  C14 — documents, patches and their encodings round-trip.

  Proved: the action table, refusal of documents with an id and of values without a supported
  action / value member, and the document → patches → document round trip for each kind of
  member separately (`roundtrip_*_only`). The round trip for documents with several members at
  once is not yet proved in general (`…_partial` naming); the correspondence stream compares the
  re-applied document on every generated case.
-/
import Sidetree.PatchBuild
import Sidetree.Lemmas.JsonPatch

namespace Sidetree.Props.C14
open Sidetree Sidetree.Patch Sidetree.PatchBuild Sidetree.Composer Sidetree.JsonPatch

/-- the eight supported actions and the member carrying each one's value -/
theorem action_table :
    valueKey? "replace" = some "document" ∧ valueKey? "ietf-json-patch" = some "patches" ∧
    valueKey? "add-public-keys" = some "publicKeys" ∧ valueKey? "remove-public-keys" = some "ids" ∧
    valueKey? "add-services" = some "services" ∧ valueKey? "remove-services" = some "ids" ∧
    valueKey? "add-also-known-as" = some "uris" ∧ valueKey? "remove-also-known-as" = some "uris" ∧
    Expected.actionConfig.length = 8 := by decide

/-- bytes that lack a supported action are not accepted as a patch -/
theorem unsupported_action_refused (p : Json) (h : getAction p = none) : acceptable p = false := by
  unfold acceptable
  cases p <;> simp [h]

/-- … nor bytes that lack that action's value member -/
theorem missing_value_refused (p : Json) (h : getValue p = none) : acceptable p = false := by
  unfold acceptable
  cases p <;> simp [h]

/-- an action outside the table is no action -/
theorem unknown_action (kvs : List (String × Json)) (a : String) (h : valueKey? a = none)
    (ha : (Json.obj kvs).get? "action" = some (.str a)) : getAction (.obj kvs) = none := by
  simp [getAction, ha, h]

/-- the accessors agree with the content -/
theorem accessors_agree (kvs : List (String × Json)) (a k : String) (v : Json)
    (ha : (Json.obj kvs).get? "action" = some (.str a)) (hk : valueKey? a = some k)
    (hv : (Json.obj kvs).get? k = some v) :
    getAction (.obj kvs) = some a ∧ getValue (.obj kvs) = some v ∧ acceptable (.obj kvs) = true := by
  have h1 : getAction (.obj kvs) = some a := by simp [getAction, ha, hk]
  have h2 : getValue (.obj kvs) = some v := by simp [getValue, h1, hk, hv]
  exact ⟨h1, h2, by simp [acceptable, h1, h2]⟩

theorem mkPatch_accessors (a k : String) (v : Json) (hk : valueKey? a = some k) (hne : k ≠ "action") :
    getAction (mkPatch a k v) = some a ∧ getValue (mkPatch a k v) = some v := by
  have ha : (Json.obj [("action", .str a), (k, v)]).get? "action" = some (.str a) := by
    simp [Json.get?, Json.lookup]
  have hv : (Json.obj [("action", .str a), (k, v)]).get? k = some v := by
    simp [Json.get?, Json.lookup, Ne.symm hne]
  have := accessors_agree [("action", .str a), (k, v)] a k v ha hk hv
  exact ⟨this.1, this.2.1⟩

/-- documents carrying an id are refused -/
theorem doc_with_id_refused (kvs : List (String × Json)) (v : Json) (h : Json.lookup "id" kvs = some v) :
    fromDocument (.obj kvs) = none := by
  simp [fromDocument, h]

/-! ### round trips, one kind of member at a time -/

theorem filter_isObjB_self (xs : List Json) (h : ∀ x ∈ xs, isObjB x = true) : xs.filter isObjB = xs :=
  List.filter_eq_self.mpr h

/-- keys only: `{publicKey: xs}` ↦ [add-public-keys xs] ↦ `{publicKey: xs}` -/
theorem roundtrip_publicKey_only_partial (xs : List Json) (hne : xs ≠ []) (hobj : ∀ x ∈ xs, isObjB x = true) :
    fromDocument (.obj [("publicKey", .arr xs)]) = some [mkPatch "add-public-keys" "publicKeys" (.arr xs)] ∧
    applyPatches (.obj []) [mkPatch "add-public-keys" "publicKeys" (.arr xs)] = .ok (.obj [("publicKey", .arr xs)]) := by
  constructor
  · simp [fromDocument, Json.lookup, stringEntry, sortByName, insertMember, List.foldlM, pure]
  · obtain ⟨hp, hv⟩ := mkPatch_accessors "add-public-keys" "publicKeys" (.arr xs) (by decide) (by decide)
    have hup : upsertById [] xs = xs := by
      unfold upsertById
      have : ∀ (ys cur : List Json), ys.foldl (upsertStep []) cur = cur ++ ys := by
        intro ys
        induction ys with
        | nil => simp
        | cons y ys ih => intro cur; simp [List.foldl_cons, upsertStep, ih]
      simpa using this xs []
    have hl : listOrNull xs = .arr xs := by
      cases xs with
      | nil => exact absurd rfl hne
      | cons _ _ => simp [listOrNull]
    simp [applyPatches, applyPatch, hp, hv, objectEntries, Json.get?, Json.lookup, filter_isObjB_self xs hobj, hup,
      hl, setDoc, members, Json.setMember]

/-- services only -/
theorem roundtrip_service_only_partial (xs : List Json) (hne : xs ≠ []) (hobj : ∀ x ∈ xs, isObjB x = true) :
    fromDocument (.obj [("service", .arr xs)]) = some [mkPatch "add-services" "services" (.arr xs)] ∧
    applyPatches (.obj []) [mkPatch "add-services" "services" (.arr xs)] = .ok (.obj [("service", .arr xs)]) := by
  constructor
  · simp [fromDocument, Json.lookup, stringEntry, sortByName, insertMember, List.foldlM, pure]
  · obtain ⟨hp, hv⟩ := mkPatch_accessors "add-services" "services" (.arr xs) (by decide) (by decide)
    have hup : upsertById [] xs = xs := by
      unfold upsertById
      have : ∀ (ys cur : List Json), ys.foldl (upsertStep []) cur = cur ++ ys := by
        intro ys
        induction ys with
        | nil => simp
        | cons y ys ih => intro cur; simp [List.foldl_cons, upsertStep, ih]
      simpa using this xs []
    have hl : listOrNull xs = .arr xs := by
      cases xs with
      | nil => exact absurd rfl hne
      | cons _ _ => simp [listOrNull]
    simp [applyPatches, applyPatch, hp, hv, objectEntries, Json.get?, Json.lookup, filter_isObjB_self xs hobj, hup,
      hl, setDoc, members, Json.setMember]

/-- also-known-as only -/
theorem roundtrip_aka_only_partial (us : List String) (hne : us ≠ []) :
    fromDocument (.obj [("alsoKnownAs", .arr (us.map .str))]) =
      some [mkPatch "add-also-known-as" "uris" (.arr (us.map .str))] ∧
    applyPatches (.obj []) [mkPatch "add-also-known-as" "uris" (.arr (us.map .str))] =
      .ok (.obj [("alsoKnownAs", .arr (us.map .str))]) := by
  have hm : ∀ (ys : List String), mapM? strOrEmpty? (ys.map Json.str) = some ys := by
    intro ys
    induction ys with
    | nil => rfl
    | cons u ys ih => simp [mapM?, strOrEmpty?, ih]
  have hs : (us.map Json.str).filterMap Json.str? = us := by
    have hc : (Json.str? ∘ Json.str) = some := by funext s; rfl
    simp [List.filterMap_map, hc]
  have hne' : us.isEmpty = false := by cases us <;> simp_all
  constructor
  · simp [fromDocument, Json.lookup, stringEntry, sortByName, insertMember, List.foldlM, pure, goStringArray, hm us, hne]
  · obtain ⟨hp, hv⟩ := mkPatch_accessors "add-also-known-as" "uris" (.arr (us.map .str)) (by decide) (by decide)
    have hl : listOrNull (us.map Json.str) = .arr (us.map .str) := by
      cases us with
      | nil => exact absurd rfl hne
      | cons _ _ => simp [listOrNull]
    have hf : us.filter (fun _ => true) = us := List.filter_eq_self.mpr (fun _ _ => rfl)
    simp [applyPatches, applyPatch, hp, hv, stringArray, Json.get?, Json.lookup, hs, orderedUnion, setDoc, members,
      Json.setMember, hf, hl]

end Sidetree.Props.C14
