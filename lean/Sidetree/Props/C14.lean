/-
  C14 — documents, patches and their encodings round-trip.

  Proved: the action table, refusal of documents with an id and of values without a supported
  action / value member, and the document → patches → document round trip for each kind of
  member separately (`roundtrip_*_only`). The round trip for documents with several members at
  once is not yet proved in general (`…_partial` naming); the correspondence stream compares the
  re-applied document on every generated case.
-/
import Sidetree.PatchBuild
import Sidetree.Lemmas.JsonPatch

namespace Sidetree.Props.C14
open Sidetree Sidetree.Patch Sidetree.PatchBuild Sidetree.Composer Sidetree.JsonPatch

/-- the eight supported actions and the member carrying each one's value -/
theorem action_table :
    valueKey? "replace" = some "document" ∧ valueKey? "ietf-json-patch" = some "patches" ∧
    valueKey? "add-public-keys" = some "publicKeys" ∧ valueKey? "remove-public-keys" = some "ids" ∧
    valueKey? "add-services" = some "services" ∧ valueKey? "remove-services" = some "ids" ∧
    valueKey? "add-also-known-as" = some "uris" ∧ valueKey? "remove-also-known-as" = some "uris" ∧
    Expected.actionConfig.length = 8 := by decide

/-- bytes that lack a supported action are not accepted as a patch -/
theorem unsupported_action_refused (p : Json) (h : getAction p = none) : acceptable p = false := by
  unfold acceptable
  cases p <;> simp [h]

/-- … nor bytes that lack that action's value member -/
theorem missing_value_refused (p : Json) (h : getValue p = none) : acceptable p = false := by
  unfold acceptable
  cases p <;> simp [h]

/-- an action outside the table is no action -/
theorem unknown_action (kvs : List (String × Json)) (a : String) (h : valueKey? a = none)
    (ha : (Json.obj kvs).get? "action" = some (.str a)) : getAction (.obj kvs) = none := by
  simp [getAction, ha, h]

/-- the accessors agree with the content -/
theorem accessors_agree (kvs : List (String × Json)) (a k : String) (v : Json)
    (ha : (Json.obj kvs).get? "action" = some (.str a)) (hk : valueKey? a = some k)
    (hv : (Json.obj kvs).get? k = some v) :
    getAction (.obj kvs) = some a ∧ getValue (.obj kvs) = some v ∧ acceptable (.obj kvs) = true := by
  have h1 : getAction (.obj kvs) = some a := by simp [getAction, ha, hk]
  have h2 : getValue (.obj kvs) = some v := by simp [getValue, h1, hk, hv]
  exact ⟨h1, h2, by simp [acceptable, h1, h2]⟩

theorem mkPatch_accessors (a k : String) (v : Json) (hk : valueKey? a = some k) (hne : k ≠ "action") :
    getAction (mkPatch a k v) = some a ∧ getValue (mkPatch a k v) = some v := by
  have ha : (Json.obj [("action", .str a), (k, v)]).get? "action" = some (.str a) := by
    simp [Json.get?, Json.lookup]
  have hv : (Json.obj [("action", .str a), (k, v)]).get? k = some v := by
    simp [Json.get?, Json.lookup, Ne.symm hne]
  have := accessors_agree [("action", .str a), (k, v)] a k v ha hk hv
  exact ⟨this.1, this.2.1⟩

/-- documents carrying an id are refused -/
theorem doc_with_id_refused (kvs : List (String × Json)) (v : Json) (h : Json.lookup "id" kvs = some v) :
    fromDocument (.obj kvs) = none := by
  simp [fromDocument, h]

/-! ### round trips, one kind of member at a time -/

theorem filter_isObjB_self (xs : List Json) (h : ∀ x ∈ xs, isObjB x = true) : xs.filter isObjB = xs :=
  List.filter_eq_self.mpr h

/-- keys only: `{publicKey: xs}` ↦ [add-public-keys xs] ↦ `{publicKey: xs}` -/
theorem roundtrip_publicKey_only_partial (xs : List Json) (hne : xs ≠ []) (hobj : ∀ x ∈ xs, isObjB x = true) :
    fromDocument (.obj [("publicKey", .arr xs)]) = some [mkPatch "add-public-keys" "publicKeys" (.arr xs)] ∧
    applyPatches (.obj []) [mkPatch "add-public-keys" "publicKeys" (.arr xs)] = .ok (.obj [("publicKey", .arr xs)]) := by
  have hem : isEmptyList (.arr xs) = false := by cases xs with
    | nil => exact absurd rfl hne
    | cons _ _ => rfl
  constructor
  · simp [fromDocument, Json.lookup, sortByName, insertMember, List.foldlM, pure, hem]
  · obtain ⟨hp, hv⟩ := mkPatch_accessors "add-public-keys" "publicKeys" (.arr xs) (by decide) (by decide)
    have hup : upsertById [] xs = xs := by
      unfold upsertById
      have : ∀ (ys cur : List Json), ys.foldl (upsertStep []) cur = cur ++ ys := by
        intro ys
        induction ys with
        | nil => simp
        | cons y ys ih => intro cur; simp [List.foldl_cons, upsertStep, ih]
      simpa using this xs []
    have hl : listOrNull xs = .arr xs := by
      cases xs with
      | nil => exact absurd rfl hne
      | cons _ _ => simp [listOrNull]
    simp [applyPatches, applyPatch, hp, hv, objectEntries, Json.get?, Json.lookup, filter_isObjB_self xs hobj, hup,
      hl, setDoc, members, Json.setMember]

/-- services only -/
theorem roundtrip_service_only_partial (xs : List Json) (hne : xs ≠ []) (hobj : ∀ x ∈ xs, isObjB x = true) :
    fromDocument (.obj [("service", .arr xs)]) = some [mkPatch "add-services" "services" (.arr xs)] ∧
    applyPatches (.obj []) [mkPatch "add-services" "services" (.arr xs)] = .ok (.obj [("service", .arr xs)]) := by
  have hem : isEmptyList (.arr xs) = false := by cases xs with
    | nil => exact absurd rfl hne
    | cons _ _ => rfl
  constructor
  · simp [fromDocument, Json.lookup, sortByName, insertMember, List.foldlM, pure, hem]
  · obtain ⟨hp, hv⟩ := mkPatch_accessors "add-services" "services" (.arr xs) (by decide) (by decide)
    have hup : upsertById [] xs = xs := by
      unfold upsertById
      have : ∀ (ys cur : List Json), ys.foldl (upsertStep []) cur = cur ++ ys := by
        intro ys
        induction ys with
        | nil => simp
        | cons y ys ih => intro cur; simp [List.foldl_cons, upsertStep, ih]
      simpa using this xs []
    have hl : listOrNull xs = .arr xs := by
      cases xs with
      | nil => exact absurd rfl hne
      | cons _ _ => simp [listOrNull]
    simp [applyPatches, applyPatch, hp, hv, objectEntries, Json.get?, Json.lookup, filter_isObjB_self xs hobj, hup,
      hl, setDoc, members, Json.setMember]

/-- also-known-as only -/
theorem roundtrip_aka_only_partial (us : List String) (hne : us ≠ []) :
    fromDocument (.obj [("alsoKnownAs", .arr (us.map .str))]) =
      some [mkPatch "add-also-known-as" "uris" (.arr (us.map .str))] ∧
    applyPatches (.obj []) [mkPatch "add-also-known-as" "uris" (.arr (us.map .str))] =
      .ok (.obj [("alsoKnownAs", .arr (us.map .str))]) := by
  have hm : ∀ (ys : List String), mapM? strOrEmpty? (ys.map Json.str) = some ys := by
    intro ys
    induction ys with
    | nil => rfl
    | cons u ys ih => simp [mapM?, strOrEmpty?, ih]
  have hs : (us.map Json.str).filterMap Json.str? = us := by
    have hc : (Json.str? ∘ Json.str) = some := by funext s; rfl
    simp [List.filterMap_map, hc]
  have hne' : us.isEmpty = false := by cases us <;> simp_all
  constructor
  · simp [fromDocument, Json.lookup, stringEntry, sortByName, insertMember, List.foldlM, pure, goStringArray, hm us, hne]
  · obtain ⟨hp, hv⟩ := mkPatch_accessors "add-also-known-as" "uris" (.arr (us.map .str)) (by decide) (by decide)
    have hl : listOrNull (us.map Json.str) = .arr (us.map .str) := by
      cases us with
      | nil => exact absurd rfl hne
      | cons _ _ => simp [listOrNull]
    have hf : us.filter (fun _ => true) = us := List.filter_eq_self.mpr (fun _ _ => rfl)
    simp [applyPatches, applyPatch, hp, hv, stringArray, Json.get?, Json.lookup, hs, akaUnion, rawList, setDoc, members,
      Json.setMember, hf, hl]

/-! ### no patch without content (D40) -/

/-- one step of the loop over the sorted members (the function `fromDocument` folds) -/
def specialStep (acc : List Json) (kv : String × Json) : Option (List Json) :=
  if (kv.1 = "publicKey" ∨ kv.1 = "service") ∧ isEmptyList kv.2 then some acc
  else if kv.1 = "publicKey" then some (acc ++ [mkPatch "add-public-keys" "publicKeys" kv.2])
  else if kv.1 = "service" then some (acc ++ [mkPatch "add-services" "services" kv.2])
  else if kv.1 = "alsoKnownAs" then
    match goStringArray kv.2 with
    | some uris => if uris.isEmpty then none else some (acc ++ [mkPatch "add-also-known-as" "uris" (.arr (uris.map .str))])
    | none => none
  else some acc

theorem fromMembers_parts (kvs : List (String × Json)) (ps : List Json)
    (h : fromDocument (.obj kvs) = some ps) :
    ∃ sp, (sortByName kvs).foldlM specialStep [] = some sp ∧
      (ps = sp ∨ ∃ v, ps = sp ++ [mkPatch "ietf-json-patch" "patches" v]) := by
  simp only [fromDocument] at h
  split at h
  · exact absurd h (by simp)
  · split at h
    · exact absurd h (by simp)
    · rename_i sp hsp
      refine ⟨sp, ?_, ?_⟩
      · rw [← hsp]; rfl
      · split at h
        · left; simpa using h.symm
        · right; exact ⟨_, by simpa using h.symm⟩

/-- a patch that adds an empty list of keys or services: what the validator refuses -/
def AddsNothing (p : Json) : Prop :=
  p = mkPatch "add-public-keys" "publicKeys" (.arr []) ∨ p = mkPatch "add-services" "services" (.arr [])

theorem foldlM_invariant {α β} (P : List β → Prop) (f : List β → α → Option (List β))
    (hstep : ∀ acc x acc', P acc → f acc x = some acc' → P acc') :
    ∀ (L : List α) (acc out : List β), P acc → L.foldlM f acc = some out → P out
  | [], acc, out, h, he => by simp [List.foldlM, pure] at he; exact he ▸ h
  | x :: xs, acc, out, h, he => by
    simp only [List.foldlM_cons, bind] at he
    cases hf : f acc x with
    | none => simp [hf] at he
    | some acc' =>
      simp only [hf, Option.bind_some] at he
      exact foldlM_invariant P f hstep xs acc' out (hstep acc x acc' h hf) he

theorem mk_nonempty (a k : String) (v : Json) (h : isEmptyList v = false) : ¬ AddsNothing (mkPatch a k v) := by
  intro hn
  have : v = .arr [] := by
    rcases hn with e | e <;> (simp only [mkPatch, Json.obj.injEq, List.cons.injEq, Prod.mk.injEq] at e; exact e.2.1.2)
  subst this
  simp [isEmptyList] at h

theorem specialStep_inv (acc : List Json) (kv : String × Json) (acc' : List Json)
    (hacc : ∀ p ∈ acc, ¬ AddsNothing p) (hf : specialStep acc kv = some acc') :
    ∀ p ∈ acc', ¬ AddsNothing p := by
  have snoc : ∀ q, ¬ AddsNothing q → ∀ p ∈ acc ++ [q], ¬ AddsNothing p := by
    intro q hq p hp
    rcases List.mem_append.mp hp with hp | hp
    · exact hacc p hp
    · simp only [List.mem_singleton] at hp; subst hp; exact hq
  unfold specialStep at hf
  cases hv : isEmptyList kv.2 with
  | true =>
    by_cases hk : kv.1 = "publicKey" ∨ kv.1 = "service"
    · simp only [hk, hv, and_self, if_true, Option.some.injEq] at hf; subst hf; exact hacc
    · have h1 : kv.1 ≠ "publicKey" := fun e => hk (Or.inl e)
      have h2 : kv.1 ≠ "service" := fun e => hk (Or.inr e)
      simp only [h1, h2, false_or, false_and, if_false] at hf
      split at hf
      · split at hf
        · split at hf
          · exact absurd hf (by simp)
          · simp only [Option.some.injEq] at hf; subst hf
            exact snoc _ (by simp [AddsNothing, mkPatch])
        · exact absurd hf (by simp)
      · simp only [Option.some.injEq] at hf; subst hf; exact hacc
  | false =>
    simp only [hv, Bool.false_eq_true, and_false, if_false] at hf
    split at hf
    · simp only [Option.some.injEq] at hf; subst hf; exact snoc _ (mk_nonempty _ _ _ hv)
    · split at hf
      · simp only [Option.some.injEq] at hf; subst hf; exact snoc _ (mk_nonempty _ _ _ hv)
      · split at hf
        · split at hf
          · split at hf
            · exact absurd hf (by simp)
            · simp only [Option.some.injEq] at hf; subst hf
              exact snoc _ (by simp [AddsNothing, mkPatch])
          · exact absurd hf (by simp)
        · simp only [Option.some.injEq] at hf; subst hf; exact hacc

/-- **`PatchesFromDocument` never produces a patch that adds an empty list of keys or services**,
    whatever the document: such a member is left out -/
theorem fromDocument_adds_something (doc : Json) (ps : List Json) (h : fromDocument doc = some ps) :
    ∀ p ∈ ps, ¬ AddsNothing p := by
  have key : ∀ kvs, fromDocument (.obj kvs) = some ps → ∀ p ∈ ps, ¬ AddsNothing p := by
    intro kvs h
    obtain ⟨sp, hsp, hps⟩ := fromMembers_parts kvs ps h
    have hinv := foldlM_invariant (fun acc => ∀ p ∈ acc, ¬ AddsNothing p) specialStep
      specialStep_inv _ [] sp (by simp) hsp
    rcases hps with e | ⟨v, e⟩
    · subst e; exact hinv
    · subst e
      intro p hp
      rcases List.mem_append.mp hp with hp | hp
      · exact hinv p hp
      · simp only [List.mem_singleton] at hp; subst hp
        simp [AddsNothing, mkPatch]
  cases doc with
  | obj kvs => exact key kvs h
  | null => exact key [] h
  | _ => simp [fromDocument] at h

/-- non-vacuity: an empty key list next to a service gives the one services patch -/
example : fromDocument (.obj [("publicKey", .arr []), ("service", .arr [.obj [("id", .str "s")]])]) =
    some [mkPatch "add-services" "services" (.arr [.obj [("id", .str "s")]])] := by
  simp [fromDocument, Json.lookup, sortByName, insertMember, List.foldlM, pure, isEmptyList, bind]

end Sidetree.Props.C14
