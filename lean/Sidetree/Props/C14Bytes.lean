/-
  C14, bytes: `Patch.Bytes()` is the canonical marshalling of the patch object and
  `patch.FromBytes` reads the text back and demands a supported action with its value member.
  For every acceptable patch whose numbers are stable (in particular: whose numbers are plain
  integers below 2^53), `FromBytes (Bytes p)` is the normal form of `p`: the same action, the
  normal form of the same value, and the same bytes when marshalled again.  A patch that is
  already in normal form comes back as itself.
-/
import Sidetree.Props.C14
import Sidetree.Lemmas.RoundTripNum
import Sidetree.Lemmas.Framing
import Sidetree.Props.C05Num

namespace Sidetree.Props.C14
open Sidetree Sidetree.Patch Sidetree.PatchBuild Sidetree.Json

/-- `Patch.Bytes()`: `canonicalizer.MarshalCanonical(p)` -/
def patchBytes (p : Json) : Option (List Char) := transformValue p

/-- `patch.FromBytes(b)`: decode, then require a supported action and its value member -/
def patchFromBytes (t : List Char) : Option Json :=
  (Parse.parse t).bind fun p => if Patch.acceptable p then some p else none

theorem acceptable_is_obj (p : Json) (hp : Patch.acceptable p = true) : ∃ kvs, p = .obj kvs := by
  cases p <;> simp [Patch.acceptable] at hp
  exact ⟨_, rfl⟩

/-- on an object the bytes are the RFC 8785 text -/
theorem patchBytes_obj (kvs : List (String × Json)) : patchBytes (.obj kvs) = (Json.obj kvs).jcs := by
  simp [patchBytes, transformValue, Json.isContainer]

/-- every member of an object that has a normal form has a normal form -/
theorem normalizeMembers_lookup_some : ∀ (kvs kvs' : List (String × Json)) (k : String) (v : Json),
    normalizeMembers kvs = some kvs' → Json.lookup k kvs = some v → ∃ v', v.normalize = some v'
  | [], _, k, v, _, hl => by simp [Json.lookup] at hl
  | (k0, x) :: xs, kvs', k, v, hm, hl => by
    simp only [normalizeMembers] at hm
    cases hx : normalize x with
    | none => simp [hx] at hm
    | some x' =>
      cases hxs : normalizeMembers xs with
      | none => simp [hx, hxs] at hm
      | some xs' =>
        simp only [Json.lookup] at hl
        by_cases hk : k0 = k
        · simp only [hk, if_true, Option.some.injEq] at hl
          subst hl
          exact ⟨x', hx⟩
        · simp only [hk, if_false] at hl
          exact normalizeMembers_lookup_some xs xs' k v hxs hl

theorem normalize_obj_lookup_some (kvs : List (String × Json)) (n : Json)
    (h : (Json.obj kvs).normalize = some n) (k : String) (v : Json) (hl : Json.lookup k kvs = some v) :
    ∃ v', v.normalize = some v' := by
  simp only [normalize] at h
  cases hm : normalizeMembers kvs with
  | none => simp [hm] at h
  | some kvs' => exact normalizeMembers_lookup_some kvs kvs' k v hm hl

/-- **normal form keeps a patch a patch**: the action is the same string, the value member is the
    normal form of the value member -/
theorem normalize_acceptable (p n : Json) (hp : Patch.acceptable p = true) (hn : p.normalize = some n) :
    Patch.acceptable n = true ∧ Patch.getAction n = Patch.getAction p ∧
      Patch.getValue n = (Patch.getValue p).bind Json.normalize := by
  obtain ⟨kvs, rfl⟩ := acceptable_is_obj p hp
  obtain ⟨kvs', rfl⟩ := Framing.normalize_obj_is_obj kvs n hn
  have hget := Framing.normalize_obj_get kvs _ hn
  simp only [Patch.acceptable, Bool.and_eq_true] at hp
  obtain ⟨hA, hV⟩ := hp
  -- the action member
  have hact : (Json.obj kvs').get? "action" = (Json.obj kvs).get? "action" := by
    rw [hget "action"]
    show _ = Json.lookup "action" kvs
    unfold Patch.getAction at hA
    cases hl : Json.lookup "action" kvs with
    | none => rfl
    | some a =>
      have hg : (Json.obj kvs).get? "action" = some a := hl
      cases a <;> simp [hg] at hA
      simp [normalize]
  have hga : Patch.getAction (.obj kvs') = Patch.getAction (.obj kvs) := by
    unfold Patch.getAction; rw [hact]
  have hgv : Patch.getValue (.obj kvs') = (Patch.getValue (.obj kvs)).bind Json.normalize := by
    unfold Patch.getValue
    rw [hga]
    cases ha : Patch.getAction (.obj kvs) with
    | none => rfl
    | some a =>
      simp only []
      cases hk : Patch.valueKey? a with
      | none => rfl
      | some k => exact hget k
  refine ⟨?_, hga, hgv⟩
  simp only [Patch.acceptable, Bool.and_eq_true]
  refine ⟨by rw [hga]; exact hA, ?_⟩
  rw [hgv]
  -- the value member has a normal form
  cases hv : Patch.getValue (.obj kvs) with
  | none => simp [hv] at hV
  | some v =>
    have hl : ∃ k, Json.lookup k kvs = some v := by
      unfold Patch.getValue at hv
      cases ha : Patch.getAction (.obj kvs) with
      | none => simp [ha] at hv
      | some a =>
        cases hk : Patch.valueKey? a with
        | none => simp [ha, hk] at hv
        | some k =>
          simp only [ha, hk] at hv
          exact ⟨k, hv⟩
    obtain ⟨k, hl⟩ := hl
    obtain ⟨v', hv'⟩ := normalize_obj_lookup_some kvs _ hn k v hl
    simp [hv']

/-- **patch → Bytes → FromBytes**: the bytes of an acceptable patch with stable numbers are read
    back as the patch's normal form — an acceptable patch with the same action and the normal
    form of the same value — and marshalling that patch again gives the same bytes -/
theorem patch_bytes_roundtrip (p : Json) (text : List Char) (hp : Patch.acceptable p = true)
    (hst : p.numsStable) (hb : patchBytes p = some text) :
    ∃ p', patchFromBytes text = some p' ∧ p.normalize = some p' ∧
      Patch.getAction p' = Patch.getAction p ∧
      Patch.getValue p' = (Patch.getValue p).bind Json.normalize ∧
      patchBytes p' = some text := by
  obtain ⟨kvs, rfl⟩ := acceptable_is_obj p hp
  rw [patchBytes_obj] at hb
  have hparse := RT.parse_jcs_num _ text hst hb
  cases hn : (Json.obj kvs).normalize with
  | none => simp [Json.jcs, hn] at hb
  | some p' =>
    obtain ⟨hacc, hga, hgv⟩ := normalize_acceptable _ p' hp hn
    refine ⟨p', ?_, rfl, hga, hgv, ?_⟩
    · simp [patchFromBytes, hparse, hn, hacc]
    · obtain ⟨kvs', rfl⟩ := Framing.normalize_obj_is_obj kvs p' hn
      rw [patchBytes_obj]
      have hfix := RT.normalize_fixed_num _ _ hst hn
      simp only [Json.jcs, hn, Option.map_some, Option.some.injEq] at hb
      simp [Json.jcs, hfix, hb]

/-- the same with the decidable hypothesis: every number in the patch is a plain integer below 2^53 -/
theorem patch_bytes_roundtrip_ints (p : Json) (text : List Char) (hp : Patch.acceptable p = true)
    (hi : Props.C05.intsOnly p = true) (hb : patchBytes p = some text) :
    ∃ p', patchFromBytes text = some p' ∧ p.normalize = some p' ∧
      Patch.getAction p' = Patch.getAction p ∧
      Patch.getValue p' = (Patch.getValue p).bind Json.normalize ∧
      patchBytes p' = some text :=
  patch_bytes_roundtrip p text hp (Props.C05.intsOnly_numsStable p hi) hb

/-- **a patch in normal form comes back as itself** -/
theorem patch_bytes_roundtrip_normal (p : Json) (text : List Char) (hp : Patch.acceptable p = true)
    (hst : p.numsStable) (hnorm : p.normalize = some p) (hb : patchBytes p = some text) :
    patchFromBytes text = some p := by
  obtain ⟨p', h1, h2, _⟩ := patch_bytes_roundtrip p text hp hst hb
  rw [hnorm, Option.some.injEq] at h2
  rw [h2]; exact h1

theorem patch_bytes_roundtrip_normal_ints (p : Json) (text : List Char) (hp : Patch.acceptable p = true)
    (hi : Props.C05.intsOnly p = true) (hnorm : p.normalize = some p) (hb : patchBytes p = some text) :
    patchFromBytes text = some p :=
  patch_bytes_roundtrip_normal p text hp (Props.C05.intsOnly_numsStable p hi) hnorm hb

/-- an acceptable patch has bytes exactly when it has a normal form -/
theorem patchBytes_isSome (p : Json) (hp : Patch.acceptable p = true) :
    (patchBytes p).isSome = p.normalize.isSome := by
  obtain ⟨kvs, rfl⟩ := acceptable_is_obj p hp
  rw [patchBytes_obj]; simp [Json.jcs]

/-- non-vacuity: two concrete patches (one with a number in it) meet the hypotheses -/
def exAka : Json := mkPatch "add-also-known-as" "uris" (.arr [.str "https://a.example", .str "did:x:y"])
def exKeys : Json := mkPatch "add-public-keys" "publicKeys"
  (.arr [.obj [("id", .str "k1"), ("type", .str "JsonWebKey2020"), ("n", .num (JNum.ofNat 7))]])

example : Patch.acceptable exAka = true ∧ Props.C05.intsOnly exAka = true := by decide
example : Patch.acceptable exKeys = true ∧ Props.C05.intsOnly exKeys = true := by decide
theorem exAka_normal : exAka.normalize = some exAka := by
  simp [exAka, mkPatch, normalize, normalizeMembers, normalizeList, namesNodup, sortMembers, List.mergeSort, List.merge, memberLe]
  decide

/-- the whole round trip on the concrete patch: it has bytes, and they are read back as the very
    same patch -/
example : ∃ text, patchBytes exAka = some text ∧ patchFromBytes text = some exAka := by
  have hacc : Patch.acceptable exAka = true := by decide
  have hints : Props.C05.intsOnly exAka = true := by decide
  have hs : (patchBytes exAka).isSome = true := by
    rw [patchBytes_isSome exAka hacc, exAka_normal]; rfl
  cases hb : patchBytes exAka with
  | none => simp [hb] at hs
  | some text => exact ⟨text, rfl, patch_bytes_roundtrip_normal_ints exAka text hacc hints exAka_normal hb⟩

end Sidetree.Props.C14
