/-
  C14 — "every patch produced by the patch constructors from valid input passes validation …
  and its action and value accessors agree with its content".

  `PatchBuild.newPatch` is the model of the eight constructors (tied to patch.go by the stream
  `C14ctor` and the whole-file facts). Proved here: whatever a constructor returns is acceptable as
  a patch, carries the constructor's action and, under that action's value key, exactly the value
  it was made from (`newPatch_accessors`); and for each constructor, a valid argument gives a patch
  that passes validation (`*_validates`) — where "valid argument" is stated on the argument alone.
-/
import Sidetree.PatchBuild
import Sidetree.Validator
import Sidetree.Props.C14
import Sidetree.Props.C14General
import Sidetree.Props.C13

namespace Sidetree.Props.C14Ctor
open Sidetree Sidetree.Patch Sidetree.PatchBuild Sidetree.Validator

/-- the eight constructors, by the action they produce -/
def ctors : List String :=
  ["replace", "ietf-json-patch", "add-public-keys", "remove-public-keys", "add-services", "remove-services",
   "add-also-known-as", "remove-also-known-as"]

/-- what the patch of constructor `c` carries under its value key, given the argument -/
def carried (c : String) (arg : Json) : Option Json :=
  if c = "remove-public-keys" ∨ c = "remove-services" ∨ c = "add-also-known-as" ∨ c = "remove-also-known-as" then
    (goStringArray arg).map fun xs => .arr (xs.map .str)
  else some arg

theorem newPatch_shape (c : String) (arg p : Json) (h : newPatch c arg = some p) :
    ∃ k v, valueKey? c = some k ∧ k ≠ "action" ∧ carried c arg = some v ∧ p = mkPatch c k v := by
  unfold newPatch at h
  by_cases h1 : c = "replace"
  · subst h1
    simp only [if_true] at h
    cases arg with
    | obj kvs =>
      simp only at h
      split at h
      · exact ⟨"document", .obj kvs, by decide, by decide, by simp [carried], by simpa using h.symm⟩
      · cases h
    | null => exact ⟨"document", .null, by decide, by decide, by simp [carried], by simpa using h.symm⟩
    | _ => simp at h
  by_cases h2 : c = "ietf-json-patch"
  · subst h2
    simp only [h1, if_false, if_true] at h
    cases arg with
    | arr xs => exact ⟨"patches", .arr xs, by decide, by decide, by simp [carried], by simpa using h.symm⟩
    | null => exact ⟨"patches", .null, by decide, by decide, by simp [carried], by simpa using h.symm⟩
    | _ => simp at h
  by_cases h3 : c = "add-public-keys"
  · subst h3
    simp only [h1, h2, if_false, if_true, Option.some.injEq] at h
    exact ⟨"publicKeys", arg, by decide, by decide, by simp [carried], h.symm⟩
  by_cases h4 : c = "add-services"
  · subst h4
    simp only [h1, h2, h3, if_false, if_true, Option.some.injEq] at h
    exact ⟨"services", arg, by decide, by decide, by simp [carried], h.symm⟩
  have list : ∀ (a k : String), c = a → valueKey? a = some k → k ≠ "action" →
      (a = "remove-public-keys" ∨ a = "remove-services" ∨ a = "add-also-known-as" ∨ a = "remove-also-known-as") →
      stringListPatch a k arg = some p →
      ∃ k v, valueKey? c = some k ∧ k ≠ "action" ∧ carried c arg = some v ∧ p = mkPatch c k v := by
    intro a k hc hk hne hmem hs
    subst hc
    unfold stringListPatch at hs
    cases hg : goStringArray arg with
    | none => simp [hg] at hs
    | some xs =>
      simp only [hg] at hs
      split at hs
      · cases hs
      · exact ⟨k, .arr (xs.map .str), hk, hne, by simp [carried, hmem, hg], by simpa using hs.symm⟩
  by_cases h5 : c = "remove-public-keys"
  · simp only [h1, h2, h3, h4, h5, if_false, if_true] at h
    exact list "remove-public-keys" "ids" h5 (by decide) (by decide) (by simp) (by simpa [h5] using h)
  by_cases h6 : c = "remove-services"
  · simp only [h1, h2, h3, h4, h5, h6, if_false, if_true] at h
    exact list "remove-services" "ids" h6 (by decide) (by decide) (by simp) (by simpa [h6] using h)
  by_cases h7 : c = "add-also-known-as"
  · simp only [h1, h2, h3, h4, h5, h6, h7, if_false, if_true] at h
    exact list "add-also-known-as" "uris" h7 (by decide) (by decide) (by simp) (by simpa [h7] using h)
  by_cases h8 : c = "remove-also-known-as"
  · simp only [h1, h2, h3, h4, h5, h6, h7, h8, if_false, if_true] at h
    exact list "remove-also-known-as" "uris" h8 (by decide) (by decide) (by simp) (by simpa [h8] using h)
  simp [h1, h2, h3, h4, h5, h6, h7, h8] at h

/-- **accessors agree with content**: a constructed patch is acceptable as a patch (what `FromBytes`
    demands of its bytes), its action is the constructor's and its value is what was put in -/
theorem newPatch_accessors (c : String) (arg p : Json) (h : newPatch c arg = some p) :
    acceptable p = true ∧ getAction p = some c ∧ getValue p = carried c arg := by
  obtain ⟨k, v, hk, hne, hc, rfl⟩ := newPatch_shape c arg p h
  obtain ⟨ha, hv⟩ := C14.mkPatch_accessors c k v hk hne
  refine ⟨?_, ha, by rw [hv, hc]⟩
  have hacc : acceptable (mkPatch c k v) = ((getAction (mkPatch c k v)).isSome && (getValue (mkPatch c k v)).isSome) := rfl
  rw [hacc, ha, hv]
  rfl

/-- only the eight names construct anything -/
theorem newPatch_only_eight (c : String) (arg p : Json) (h : newPatch c arg = some p) : c ∈ ctors := by
  by_cases h1 : c = "replace"
  · simp [ctors, h1]
  by_cases h2 : c = "ietf-json-patch"
  · simp [ctors, h2]
  by_cases h3 : c = "add-public-keys"
  · simp [ctors, h3]
  by_cases h4 : c = "add-services"
  · simp [ctors, h4]
  by_cases h5 : c = "remove-public-keys"
  · simp [ctors, h5]
  by_cases h6 : c = "remove-services"
  · simp [ctors, h6]
  by_cases h7 : c = "add-also-known-as"
  · simp [ctors, h7]
  by_cases h8 : c = "remove-also-known-as"
  · simp [ctors, h8]
  unfold newPatch at h
  simp only [h1, h2, h3, h4, h5, h6, h7, h8, if_false] at h
  cases h

/-! ### valid input gives a patch that passes validation -/

theorem strs_allStrings (xs : List String) : allStrings (.arr (xs.map .str)) = true := by
  simp [allStrings, List.all_eq_true, Json.str?]

theorem strs_stringArray (xs : List String) : stringArray (some (.arr (xs.map .str))) = xs := by
  induction xs with
  | nil => rfl
  | cons x xs ih => simpa [stringArray, List.filterMap_cons, Json.str?] using ih

theorem strs_required (xs : List String) (h : xs ≠ []) : requiredArray (some (.arr (xs.map .str))) = true := by
  cases xs with
  | nil => exact absurd rfl h
  | cons _ _ => rfl

theorem stringListPatch_strs (a k : String) (xs : List String) (h : xs ≠ []) :
    stringListPatch a k (.arr (xs.map .str)) = some (mkPatch a k (.arr (xs.map .str))) := by
  have he : xs.isEmpty = false := by cases xs <;> simp_all
  simp [stringListPatch, C14G.goStringArray_strs, he]

/-- **NewRemovePublicKeysPatch / NewRemoveServiceEndpointsPatch**: a non-empty list of valid ids
    gives a patch that passes validation -/
theorem remove_validates (orc : UriOracle) (c : String) (hc : c = "remove-public-keys" ∨ c = "remove-services")
    (ids : List String) (hne : ids ≠ []) (hv : ∀ id ∈ ids, validID id = true) :
    ∃ p, newPatch c (.arr (ids.map .str)) = some p ∧ validate orc p = .ok := by
  refine ⟨mkPatch c "ids" (.arr (ids.map .str)), ?_, ?_⟩
  · rcases hc with rfl | rfl <;> (unfold newPatch; simp [stringListPatch_strs _ _ ids hne])
  · have hk : valueKey? c = some "ids" := by rcases hc with rfl | rfl <;> decide
    obtain ⟨ha, hval⟩ := C14.mkPatch_accessors c "ids" (.arr (ids.map .str)) hk (by decide)
    rw [C13.validate_remove orc _ c _ ha hval hc]
    exact ⟨strs_required ids hne, strs_allStrings ids, by rw [strs_stringArray]; exact hv⟩

/-- **NewAddAlsoKnownAs / NewRemoveAlsoKnownAs**: a non-empty list of URIs that parse and are
    pairwise different gives a patch that passes validation -/
theorem aka_validates (orc : UriOracle) (c : String) (hc : c = "add-also-known-as" ∨ c = "remove-also-known-as")
    (uris : List String) (hne : uris ≠ []) (hv : akaOK orc uris = true) :
    ∃ p, newPatch c (.arr (uris.map .str)) = some p ∧ validate orc p = .ok := by
  refine ⟨mkPatch c "uris" (.arr (uris.map .str)), ?_, ?_⟩
  · rcases hc with rfl | rfl <;> (unfold newPatch; simp [stringListPatch_strs _ _ uris hne])
  · have hk : valueKey? c = some "uris" := by rcases hc with rfl | rfl <;> decide
    obtain ⟨ha, hval⟩ := C14.mkPatch_accessors c "uris" (.arr (uris.map .str)) hk (by decide)
    unfold validate
    rw [ha, hval]
    rcases hc with rfl | rfl <;>
      simp [ofBool, strs_required uris hne, strs_allStrings, strs_stringArray, hv]

theorem objectEntries_all (xs : List Json) (h : allObjects (.arr xs) = true) : objectEntries (some (.arr xs)) = xs := by
  simp only [allObjects, List.all_eq_true] at h
  simp only [objectEntries]
  exact List.filter_eq_self.mpr h

/-- **NewAddPublicKeysPatch**: a non-empty list of objects that satisfy the key constraints -/
theorem add_keys_validates (orc : UriOracle) (ks : List Json) (hne : ks ≠ []) (hobj : allObjects (.arr ks) = true)
    (hv : publicKeysOK ks = true) :
    ∃ p, newPatch "add-public-keys" (.arr ks) = some p ∧ validate orc p = .ok := by
  refine ⟨mkPatch "add-public-keys" "publicKeys" (.arr ks), by unfold newPatch; simp, ?_⟩
  obtain ⟨ha, hval⟩ := C14.mkPatch_accessors "add-public-keys" "publicKeys" (.arr ks) (by decide) (by decide)
  have hr : requiredArray (some (.arr ks)) = true := by cases ks <;> simp_all [requiredArray]
  unfold validate
  rw [ha, hval]
  simp [ofBool, hr, hobj, objectEntries_all ks hobj, hv]

/-- **NewAddServiceEndpointsPatch**: a non-empty list of objects that satisfy the service constraints -/
theorem add_services_validates (orc : UriOracle) (ss : List Json) (hne : ss ≠ []) (hobj : allObjects (.arr ss) = true)
    (hv : servicesOK orc ss = true) :
    ∃ p, newPatch "add-services" (.arr ss) = some p ∧ validate orc p = .ok := by
  refine ⟨mkPatch "add-services" "services" (.arr ss), by unfold newPatch; simp, ?_⟩
  obtain ⟨ha, hval⟩ := C14.mkPatch_accessors "add-services" "services" (.arr ss) (by decide) (by decide)
  have hr : requiredArray (some (.arr ss)) = true := by cases ss <;> simp_all [requiredArray]
  unfold validate
  rw [ha, hval]
  simp [ofBool, hr, hobj, objectEntries_all ss hobj, hv]

/-- **NewReplacePatch**: a document with no other members than `publicKeys` and `services`, each
    absent, `null` or a list of objects, whose keys and services satisfy their constraints -/
theorem replace_validates (orc : UriOracle) (kvs : List (String × Json))
    (hm : ∀ k ∈ kvs.map (·.1), k = "services" ∨ k = "publicKeys")
    (hk : replaceMemberOK ((Json.obj kvs).get? "publicKeys") = true) (hs : replaceMemberOK ((Json.obj kvs).get? "services") = true)
    (hpk : publicKeysOK (objectEntries ((Json.obj kvs).get? "publicKeys")) = true)
    (hsv : servicesOK orc (objectEntries ((Json.obj kvs).get? "services")) = true) :
    ∃ p, newPatch "replace" (.obj kvs) = some p ∧ validate orc p = .ok := by
  have hall : (kvs.all fun kv => kv.1 = "services" || kv.1 = "publicKeys") = true := by
    simp only [List.all_eq_true, Bool.or_eq_true, decide_eq_true_eq]
    intro kv hkv
    exact hm kv.1 (List.mem_map.mpr ⟨kv, hkv, rfl⟩)
  refine ⟨mkPatch "replace" "document" (.obj kvs), by unfold newPatch; simp [hall], ?_⟩
  obtain ⟨ha, hval⟩ := C14.mkPatch_accessors "replace" "document" (.obj kvs) (by decide) (by decide)
  exact (C13.validate_replace orc _ kvs ha hval).mpr ⟨hm, hk, hs, hpk, hsv⟩

/-- **NewJSONPatch**: a non-empty list of operations the ietf validator accepts -/
theorem ietf_validates (orc : UriOracle) (ops : List Json) (hne : ops ≠ []) (hv : ietfVerdict ops = .ok) :
    ∃ p, newPatch "ietf-json-patch" (.arr ops) = some p ∧ validate orc p = .ok := by
  refine ⟨mkPatch "ietf-json-patch" "patches" (.arr ops), by unfold newPatch; simp, ?_⟩
  obtain ⟨ha, hval⟩ := C14.mkPatch_accessors "ietf-json-patch" "patches" (.arr ops) (by decide) (by decide)
  have hr : requiredArray (some (.arr ops)) = true := by cases ops <;> simp_all [requiredArray]
  unfold validate
  rw [ha, hval]
  simp [hr, Json.arr?, hv]

/-- non-vacuity: one valid id, and what a `null` entry does to an id list (it becomes "", which no
    validator accepts: not valid input) -/
example : (newPatch "remove-services" (.arr [.str "svc1"])).isSome = true ∧
    newPatch "remove-services" (.arr [.str "svc1", .null]) =
      some (mkPatch "remove-services" "ids" (.arr [.str "svc1", .str ""])) ∧
    newPatch "remove-services" (.arr []) = none ∧ newPatch "remove-services" .null = none := by
  unfold newPatch
  simp [stringListPatch, goStringArray, mapM?, strOrEmpty?]

end Sidetree.Props.C14Ctor
