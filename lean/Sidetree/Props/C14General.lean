/-
  C14 — the document → patches → document round trip in general.

  `document_roundtrip`: for every document in the property's quantifier (no id; keys, services and
  also-known-as, where present, non-empty lists of the right shape; any number of further members
  with ordinary names and arbitrary JSON values; unique member names; any member order)
  `PatchesFromDocument` succeeds and applying its patches to the empty document with the composer
  (the faithful patch-library model included) yields a document with exactly the same members.
-/
import Sidetree.Props.C14
import Sidetree.Props.C10
import Sidetree.Props.C03

namespace Sidetree.Props.C14G
open Sidetree Sidetree.Patch Sidetree.PatchBuild Sidetree.Composer Sidetree.JsonPatch

/-! ### pointers of ordinary names -/

theorem splitSlash_go_noslash : ∀ (cs cur : List Char), (∀ c ∈ cs, c ≠ '/') → splitSlash.go cs cur = [cur.reverse ++ cs]
  | [], cur, _ => by simp [splitSlash.go]
  | c :: rest, cur, h => by
    have hc : c ≠ '/' := h c (List.mem_cons_self ..)
    simp only [splitSlash.go, hc, if_false]
    rw [splitSlash_go_noslash rest (c :: cur) (fun x hx => h x (List.mem_cons_of_mem _ hx))]
    simp

theorem decodeToken_plain : ∀ (cs : List Char), (∀ c ∈ cs, c ≠ '~') → decodeToken cs = cs
  | [], _ => by simp [decodeToken]
  | [c], h => by
    have hc : c ≠ '~' := h c (List.mem_cons_self ..)
    unfold decodeToken
    split <;> simp_all [decodeToken]
  | c :: d :: rest, h => by
    have hc : c ≠ '~' := h c (List.mem_cons_self ..)
    have ih := decodeToken_plain (d :: rest) (fun x hx => h x (List.mem_cons_of_mem _ hx))
    rw [decodeToken]
    · rw [ih]
    · intro r e _; exact hc e
    · intro r e _; exact hc e

theorem ordinary_chars (k : String) (h : ordinaryName k = true) : (∀ c ∈ k.toList, c ≠ '/') ∧ (∀ c ∈ k.toList, c ≠ '~') := by
  unfold ordinaryName at h
  rw [List.all_eq_true] at h
  constructor
  · intro c hc; have := h c hc; simp at this; exact this.2.2.1
  · intro c hc; have := h c hc; simp at this; exact this.2.2.2.1

/-- the pointer `/k` of an ordinary name names the top-level member `k` -/
theorem escapeToken_ordinary (k : String) (h : ordinaryName k = true) : escapeToken k = k := by
  obtain ⟨h1, h2⟩ := ordinary_chars k h
  unfold escapeToken
  have : ∀ (l : List Char), (∀ c ∈ l, c ≠ '/') → (∀ c ∈ l, c ≠ '~') →
      l.flatMap (fun c => if c = '~' then ['~', '0'] else if c = '/' then ['~', '1'] else [c]) = l := by
    intro l
    induction l with
    | nil => intros; rfl
    | cons c cs ih =>
      intro a b
      have hc1 : c ≠ '/' := a c List.mem_cons_self
      have hc2 : c ≠ '~' := b c List.mem_cons_self
      simp [List.flatMap_cons, hc1, hc2, ih (fun x hx => a x (List.mem_cons_of_mem _ hx)) (fun x hx => b x (List.mem_cons_of_mem _ hx))]
  rw [this k.toList h1 h2]
  simp

theorem splitPointer_ordinary (k : String) (h : ordinaryName k = true) : Lib.splitPointer ("/" ++ k) = some ([], k) := by
  obtain ⟨h1, h2⟩ := ordinary_chars k h
  have ht : ("/" ++ k).toList = '/' :: k.toList := by simp
  unfold Lib.splitPointer
  rw [ht]
  have : splitSlash ('/' :: k.toList) = [[], k.toList] := by
    simp only [splitSlash, splitSlash.go, if_true, List.reverse_nil]
    rw [splitSlash_go_noslash k.toList [] h1]
    simp
  rw [this]
  simp [decodeKey, decodeToken_plain k.toList h2]

/-! ### one `add` of an ordinary top-level member -/

def addOp (kv : String × Json) : Json := .obj [("op", .str "add"), ("path", .str ("/" ++ kv.1)), ("value", kv.2)]

theorem applyGuarded_add (m : List (String × Json)) (k : String) (v : Json) (h : ordinaryName k = true) :
    Lib.applyGuarded (.obj m) (addOp (k, v)) = .ok (.obj (Json.setMember k v m)) := by
  have hs := splitPointer_ordinary k h
  have hg : Lib.targetsOwnSource (addOp (k, v)) (.obj m) = false := by
    simp [Lib.targetsOwnSource, Lib.guardString, addOp, Json.get?, Json.lookup]
  have hop : Lib.opString (addOp (k, v)) "op" = "add" := by simp [Lib.opString, addOp, Json.get?, Json.lookup]
  have hpath : Lib.opString (addOp (k, v)) "path" = "/" ++ k := by simp [Lib.opString, addOp, Json.get?, Json.lookup]
  have hval : ((addOp (k, v)).get? "value").getD .null = v := by simp [addOp, Json.get?, Json.lookup]
  unfold Lib.applyGuarded
  rw [hg]
  simp only [Bool.false_eq_true, if_false]
  unfold Lib.applyOp
  simp only [hop, if_true, hpath, hs, hval, Lib.updateAt, Lib.conAdd]

/-- set members one after the other -/
def setAll (m : List (String × Json)) : List (String × Json) → List (String × Json)
  | [] => m
  | (k, v) :: rest => setAll (Json.setMember k v m) rest

theorem applyAll_adds : ∀ (O : List (String × Json)) (m : List (String × Json)), (∀ kv ∈ O, ordinaryName kv.1 = true) →
    Lib.applyAll (.obj m) (O.map addOp) = .ok (.obj (setAll m O))
  | [], m, _ => by simp [Lib.applyAll, List.foldlM, pure, setAll]
  | (k, v) :: rest, m, h => by
    have h1 := applyGuarded_add m k v (h (k, v) (List.mem_cons_self ..))
    have ih := applyAll_adds rest (Json.setMember k v m) (fun kv hkv => h kv (List.mem_cons_of_mem _ hkv))
    simp only [Lib.applyAll, List.map_cons, List.foldlM_cons, h1, bind, R.bind] at ih ⊢
    simpa [setAll] using ih

/-! ### one patch of each kind on a document that does not have the member yet -/

theorem upsert_fresh (xs : List Json) : upsertById [] xs = xs := by
  unfold upsertById
  have : ∀ (ys cur : List Json), ys.foldl (upsertStep []) cur = cur ++ ys := by
    intro ys
    induction ys with
    | nil => simp
    | cons y ys ih => intro cur; simp [List.foldl_cons, upsertStep, ih]
  simpa using this xs []

theorem listOrNull_ne (xs : List Json) (h : xs ≠ []) : listOrNull xs = .arr xs := by
  cases xs with
  | nil => exact absurd rfl h
  | cons _ _ => simp [listOrNull]

theorem apply_add_keys (m : List (String × Json)) (xs : List Json) (hfresh : Json.lookup "publicKey" m = none)
    (hne : xs ≠ []) (hobj : ∀ x ∈ xs, isObjB x = true) :
    applyPatch (.obj m) (mkPatch "add-public-keys" "publicKeys" (.arr xs)) = .ok (.obj (Json.setMember "publicKey" (.arr xs) m)) := by
  obtain ⟨hp, hv⟩ := C14.mkPatch_accessors "add-public-keys" "publicKeys" (.arr xs) (by decide) (by decide)
  simp [applyPatch, hp, hv, objectEntries, Json.get?, hfresh, C14.filter_isObjB_self xs hobj, upsert_fresh, listOrNull_ne xs hne,
    setDoc, members]

theorem apply_add_services (m : List (String × Json)) (xs : List Json) (hfresh : Json.lookup "service" m = none)
    (hne : xs ≠ []) (hobj : ∀ x ∈ xs, isObjB x = true) :
    applyPatch (.obj m) (mkPatch "add-services" "services" (.arr xs)) = .ok (.obj (Json.setMember "service" (.arr xs) m)) := by
  obtain ⟨hp, hv⟩ := C14.mkPatch_accessors "add-services" "services" (.arr xs) (by decide) (by decide)
  simp [applyPatch, hp, hv, objectEntries, Json.get?, hfresh, C14.filter_isObjB_self xs hobj, upsert_fresh, listOrNull_ne xs hne,
    setDoc, members]

theorem apply_add_aka (m : List (String × Json)) (us : List String) (hfresh : Json.lookup "alsoKnownAs" m = none) (hne : us ≠ []) :
    applyPatch (.obj m) (mkPatch "add-also-known-as" "uris" (.arr (us.map .str))) =
      .ok (.obj (Json.setMember "alsoKnownAs" (.arr (us.map .str)) m)) := by
  obtain ⟨hp, hv⟩ := C14.mkPatch_accessors "add-also-known-as" "uris" (.arr (us.map .str)) (by decide) (by decide)
  have hs : (us.map Json.str).filterMap Json.str? = us := by
    have hc : (Json.str? ∘ Json.str) = some := by funext s; rfl
    simp [List.filterMap_map, hc]
  have hl : listOrNull (us.map Json.str) = .arr (us.map .str) := listOrNull_ne _ (by simpa using hne)
  have hf : us.filter (fun _ => true) = us := List.filter_eq_self.mpr (fun _ _ => rfl)
  simp [applyPatch, hp, hv, stringArray, Json.get?, hfresh, hs, akaUnion, rawList, setDoc, members, hf, hl]

theorem apply_ietf_adds (m : List (String × Json)) (O : List (String × Json)) (h : ∀ kv ∈ O, ordinaryName kv.1 = true) :
    applyPatch (.obj m) (mkPatch "ietf-json-patch" "patches" (.arr (O.map addOp))) = .ok (.obj (setAll m O)) := by
  obtain ⟨hp, hv⟩ := C14.mkPatch_accessors "ietf-json-patch" "patches" (.arr (O.map addOp)) (by decide) (by decide)
  have hall : (O.map addOp).all isObjOrNullB = true := by
    rw [List.all_eq_true]
    intro x hx
    obtain ⟨kv, _, rfl⟩ := List.mem_map.mp hx
    rfl
  simp [applyPatch, hp, hv, Lib.decodePatch, hall, applyAll_adds O m h]

/-! ### the quantifier -/

def isSpecial (k : String) : Bool := k = "publicKey" || k = "service" || k = "alsoKnownAs"

/-- a member of a document in the property's quantifier -/
structure MemberOK (kv : String × Json) : Prop where
  notId : kv.1 ≠ "id"
  keys : kv.1 = "publicKey" → ∃ xs, kv.2 = .arr xs ∧ xs ≠ [] ∧ ∀ x ∈ xs, isObjB x = true
  services : kv.1 = "service" → ∃ xs, kv.2 = .arr xs ∧ xs ≠ [] ∧ ∀ x ∈ xs, isObjB x = true
  aka : kv.1 = "alsoKnownAs" → ∃ us : List String, kv.2 = .arr (us.map .str) ∧ us ≠ []
  other : isSpecial kv.1 = false → ordinaryName kv.1 = true

def specialPatch (kv : String × Json) : Option Json :=
  if kv.1 = "publicKey" then some (mkPatch "add-public-keys" "publicKeys" kv.2)
  else if kv.1 = "service" then some (mkPatch "add-services" "services" kv.2)
  else if kv.1 = "alsoKnownAs" then some (mkPatch "add-also-known-as" "uris" kv.2)
  else none

/-! ### list bookkeeping -/

theorem insertMember_perm (x : String × Json) : ∀ (l : List (String × Json)), (insertMember x l).Perm (x :: l)
  | [] => by simp [insertMember]
  | y :: ys => by
    simp only [insertMember]
    split
    · exact List.Perm.refl _
    · exact ((insertMember_perm x ys).cons y).trans (List.Perm.swap x y ys)

theorem sortByName_perm : ∀ (l : List (String × Json)), (sortByName l).Perm l
  | [] => by simp [sortByName]
  | x :: xs => by
    have ih := sortByName_perm xs
    simp only [sortByName, List.foldr_cons] at ih ⊢
    exact (insertMember_perm x _).trans (ih.cons x)

theorem lookup_none_of_not_mem (key : String) : ∀ (l : List (String × Json)), key ∉ l.map (·.1) → Json.lookup key l = none
  | [], _ => rfl
  | (k, v) :: rest, h => by
    simp only [List.map_cons, List.mem_cons, not_or] at h
    simp only [Json.lookup]
    have : ¬ k = key := fun e => h.1 e.symm
    simp only [this, if_false]
    exact lookup_none_of_not_mem key rest h.2

theorem lookup_setAll (key : String) : ∀ (X m : List (String × Json)), (X.map (·.1)).Nodup →
    Json.lookup key (setAll m X) = (if key ∈ X.map (·.1) then Json.lookup key X else Json.lookup key m)
  | [], m, _ => by simp [setAll]
  | (k, v) :: rest, m, hnd => by
    simp only [List.map_cons, List.nodup_cons] at hnd
    have ih := lookup_setAll key rest (Json.setMember k v m) hnd.2
    simp only [setAll, ih, List.map_cons, List.mem_cons]
    by_cases hk : key = k
    · subst hk
      have hnot : key ∉ rest.map (·.1) := hnd.1
      simp only [hnot, if_false, true_or, if_true, Json.lookup]
      have := C10.get_setDoc_same (.obj m) key v
      simpa [setDoc, Json.get?, members] using this
    · by_cases hr : key ∈ rest.map (·.1)
      · have hne : ¬ k = key := fun e => hk e.symm
        simp [hr, hk, Json.lookup, hne]
      · have hne : ¬ k = key := fun e => hk e.symm
        simp only [hr, if_false, hk, false_or, Json.lookup, hne]
        exact lookup_setMember_ne k key v hk m

theorem lookup_filter (key : String) (p : String × Json → Bool) : ∀ (l : List (String × Json)),
    (∀ kv ∈ l, kv.1 = key → p kv = true) → Json.lookup key (l.filter p) = Json.lookup key l
  | [], _ => rfl
  | (k, v) :: rest, h => by
    have ih := lookup_filter key p rest (fun kv hkv => h kv (List.mem_cons_of_mem _ hkv))
    by_cases hk : k = key
    · have := h (k, v) (List.mem_cons_self ..) hk
      subst hk
      simp [List.filter_cons, this, Json.lookup]
    · by_cases hp : p (k, v) = true
      · simp [List.filter_cons, hp, Json.lookup, hk, ih]
      · simp [List.filter_cons, hp, Json.lookup, hk, ih]

/-! ### applying the special patches of a member list -/

theorem specialPatch_special (kv : String × Json) (p : Json) (h : specialPatch kv = some p) : isSpecial kv.1 = true := by
  unfold specialPatch at h
  unfold isSpecial
  split at h
  · simp [*]
  · split at h
    · simp [*]
    · split at h
      · simp [*]
      · cases h

theorem apply_specials : ∀ (L m : List (String × Json)), (L.map (·.1)).Nodup → (∀ kv ∈ L, MemberOK kv) →
    (∀ kv ∈ L, Json.lookup kv.1 m = none) →
    applyPatches (.obj m) (L.filterMap specialPatch) = .ok (.obj (setAll m (L.filter fun kv => isSpecial kv.1)))
  | [], m, _, _, _ => by simp [applyPatches, setAll]
  | (k, v) :: rest, m, hnd, hok, hfresh => by
    simp only [List.map_cons, List.nodup_cons] at hnd
    have hk := hok (k, v) (List.mem_cons_self ..)
    have hf := hfresh (k, v) (List.mem_cons_self ..)
    have hrest_ok : ∀ kv ∈ rest, MemberOK kv := fun kv h => hok kv (List.mem_cons_of_mem _ h)
    -- after setting member k the rest is still fresh
    have hfresh' : ∀ w, ∀ kv ∈ rest, Json.lookup kv.1 (Json.setMember k w m) = none := by
      intro w kv hkv
      have hne : kv.1 ≠ k := fun e => hnd.1 (List.mem_map.mpr ⟨kv, hkv, e⟩)
      rw [lookup_setMember_ne k kv.1 w hne m]
      exact hfresh kv (List.mem_cons_of_mem _ hkv)
    by_cases h1 : k = "publicKey"
    · subst h1
      obtain ⟨xs, hv, hne, hobj⟩ := hk.keys rfl
      simp only at hv; subst hv
      have hp := apply_add_keys m xs hf hne hobj
      have ih := apply_specials rest (Json.setMember "publicKey" (.arr xs) m) hnd.2 hrest_ok (hfresh' _)
      simp [List.filterMap_cons, specialPatch, applyPatches, hp, ih, List.filter_cons, isSpecial, setAll]
    by_cases h2 : k = "service"
    · subst h2
      obtain ⟨xs, hv, hne, hobj⟩ := hk.services rfl
      simp only at hv; subst hv
      have hp := apply_add_services m xs hf hne hobj
      have ih := apply_specials rest (Json.setMember "service" (.arr xs) m) hnd.2 hrest_ok (hfresh' _)
      simp [List.filterMap_cons, specialPatch, applyPatches, hp, ih, List.filter_cons, isSpecial, setAll]
    by_cases h3 : k = "alsoKnownAs"
    · subst h3
      obtain ⟨us, hv, hne⟩ := hk.aka rfl
      simp only at hv; subst hv
      have hp := apply_add_aka m us hf hne
      have ih := apply_specials rest (Json.setMember "alsoKnownAs" (.arr (us.map .str)) m) hnd.2 hrest_ok (hfresh' _)
      simp [List.filterMap_cons, specialPatch, applyPatches, hp, ih, List.filter_cons, isSpecial, setAll]
    · have ih := apply_specials rest m hnd.2 hrest_ok (fun kv hkv => hfresh kv (List.mem_cons_of_mem _ hkv))
      simp [List.filterMap_cons, specialPatch, h1, h2, h3, List.filter_cons, isSpecial, ih]

/-! ### what `PatchesFromDocument` produces -/

theorem foldlM_pointwise {α β} (f : List β → α → Option (List β)) (g : α → Option β) :
    ∀ (L : List α) (acc : List β), (∀ acc, ∀ x ∈ L, f acc x = some (acc ++ (g x).toList)) →
    L.foldlM f acc = some (acc ++ L.filterMap g)
  | [], acc, _ => by simp [List.foldlM, pure]
  | x :: xs, acc, h => by
    have hx := h acc x (List.mem_cons_self ..)
    have ih := foldlM_pointwise f g xs (acc ++ (g x).toList) (fun a y hy => h a y (List.mem_cons_of_mem _ hy))
    simp only [List.foldlM_cons, hx, bind, Option.bind_some, ih]
    cases hg : g x <;> simp [List.filterMap_cons, hg]

theorem goStringArray_strs (us : List String) : goStringArray (.arr (us.map .str)) = some us := by
  have hm : ∀ (ys : List String), mapM? strOrEmpty? (ys.map Json.str) = some ys := by
    intro ys
    induction ys with
    | nil => rfl
    | cons u ys ih => simp [mapM?, strOrEmpty?, ih]
  simp [goStringArray, hm us]

/-- **what `PatchesFromDocument` returns for a document in the quantifier**: the special members'
    patches in name order, then one ietf-json-patch adding every other member -/
theorem fromDocument_eq (kvs : List (String × Json)) (hok : ∀ kv ∈ kvs, MemberOK kv) (hnoid : "id" ∉ kvs.map (·.1)) :
    fromDocument (.obj kvs) =
      some ((sortByName kvs).filterMap specialPatch ++
        (if ((sortByName kvs).filter fun kv => !isSpecial kv.1).isEmpty then []
         else [mkPatch "ietf-json-patch" "patches" (.arr (((sortByName kvs).filter fun kv => !isSpecial kv.1).map addOp))])) := by
  have hid : (Json.lookup "id" kvs).isSome = false := by rw [lookup_none_of_not_mem "id" kvs hnoid]; rfl
  have hS : ∀ kv ∈ sortByName kvs, MemberOK kv := fun kv h => hok kv ((sortByName_perm kvs).mem_iff.mp h)
  simp only [fromDocument, hid, Bool.false_eq_true, if_false]
  rw [foldlM_pointwise _ specialPatch (sortByName kvs) [] (by
    intro acc kv hkv
    obtain ⟨k, v⟩ := kv
    have hk := hS (k, v) hkv
    by_cases h1 : k = "publicKey"
    · subst h1
      obtain ⟨xs, hv, hne, _⟩ := hk.keys rfl
      simp only at hv; subst hv
      have hem : isEmptyList (.arr xs) = false := by cases xs <;> simp_all [isEmptyList]
      simp [specialPatch, hem]
    by_cases h2 : k = "service"
    · subst h2
      obtain ⟨xs, hv, hne, _⟩ := hk.services rfl
      simp only at hv; subst hv
      have hem : isEmptyList (.arr xs) = false := by cases xs <;> simp_all [isEmptyList]
      simp [specialPatch, hem]
    by_cases h3 : k = "alsoKnownAs"
    · subst h3
      obtain ⟨us, hv, hne⟩ := hk.aka rfl
      simp only at hv; subst hv
      have he : us.isEmpty = false := by cases us <;> simp_all
      simp [specialPatch, goStringArray_strs, he]
    · simp [specialPatch, h1, h2, h3])]
  have hfilt : ((sortByName kvs).filter fun (x : String × Json) => decide (x.1 ≠ "publicKey" ∧ x.1 ≠ "service" ∧ x.1 ≠ "alsoKnownAs")) =
      (sortByName kvs).filter fun kv => !isSpecial kv.1 := by
    apply List.filter_congr
    intro x _
    simp [isSpecial, Bool.and_assoc]
  simp only [List.nil_append]
  have hfilt' : ((sortByName kvs).filter fun (x : String × Json) => decide (¬x.1 = "publicKey" ∧ ¬x.1 = "service" ∧ ¬x.1 = "alsoKnownAs")) =
      (sortByName kvs).filter fun kv => !isSpecial kv.1 := hfilt
  -- an ordinary name is its own pointer token
  have hmap : ((sortByName kvs).filter fun kv => !isSpecial kv.1).map
        (fun (x : String × Json) => Json.obj [("op", .str "add"), ("path", .str ("/" ++ escapeToken x.1)), ("value", x.2)]) =
      ((sortByName kvs).filter fun kv => !isSpecial kv.1).map addOp := by
    apply List.map_congr_left
    intro x hx
    have hmem := List.mem_filter.mp hx
    have hord := (hS x hmem.1).other (by simpa using hmem.2)
    simp [addOp, escapeToken_ordinary x.1 hord]
  rw [hfilt', hmap]
  split <;> simp

/-! ### the round trip -/

theorem mem_keys_filter (key : String) (p : String × Json → Bool) (l : List (String × Json)) :
    key ∈ (l.filter p).map (·.1) ↔ ∃ kv ∈ l, kv.1 = key ∧ p kv = true := by
  simp only [List.mem_map, List.mem_filter]
  constructor
  · rintro ⟨kv, ⟨h1, h2⟩, h3⟩; exact ⟨kv, h1, h3, h2⟩
  · rintro ⟨kv, h1, h3, h2⟩; exact ⟨kv, ⟨h1, h2⟩, h3⟩

theorem nodup_filter_keys (p : String × Json → Bool) (l : List (String × Json)) (h : (l.map (·.1)).Nodup) :
    ((l.filter p).map (·.1)).Nodup :=
  (List.Sublist.map _ List.filter_sublist).nodup h

theorem lookup_some_mem (key : String) : ∀ (l : List (String × Json)) (v : Json), Json.lookup key l = some v → (key, v) ∈ l
  | [], _, h => by simp [Json.lookup] at h
  | (k, w) :: rest, v, h => by
    simp only [Json.lookup] at h
    by_cases hk : k = key
    · simp only [hk, if_true, Option.some.injEq] at h
      subst h; subst hk; exact List.mem_cons_self ..
    · simp only [hk, if_false] at h
      exact List.mem_cons_of_mem _ (lookup_some_mem key rest v h)

/-- **document → patches → document**: for every document in the quantifier — no id; keys,
    services and also-known-as (if present) non-empty lists of the right shape; every further
    member with an ordinary name and an arbitrary JSON value; member names unique —
    `PatchesFromDocument` succeeds and applying its patches to the empty document gives a
    document with exactly the same members. -/
theorem document_roundtrip (kvs : List (String × Json)) (hnd : (kvs.map (·.1)).Nodup) (hok : ∀ kv ∈ kvs, MemberOK kv) :
    ∃ patches d, fromDocument (.obj kvs) = some patches ∧ applyPatches (.obj []) patches = .ok d ∧
      ∀ key, d.get? key = (Json.obj kvs).get? key := by
  have hnoid : "id" ∉ kvs.map (·.1) := by
    intro hm
    obtain ⟨kv, hkv, e⟩ := List.mem_map.mp hm
    exact (hok kv hkv).notId e
  have hperm := sortByName_perm kvs
  generalize hS : sortByName kvs = S at hperm
  have hSnd : (S.map (·.1)).Nodup := (hperm.map _).nodup_iff.mpr hnd
  have hSok : ∀ kv ∈ S, MemberOK kv := fun kv h => hok kv (hperm.mem_iff.mp h)
  have hfd := fromDocument_eq kvs hok hnoid
  rw [hS] at hfd
  obtain ⟨specials, hspec⟩ : ∃ x, x = S.filter fun kv => isSpecial kv.1 := ⟨_, rfl⟩
  obtain ⟨others, hoth⟩ : ∃ x, x = S.filter fun kv => !isSpecial kv.1 := ⟨_, rfl⟩
  have hsp := apply_specials S [] hSnd hSok (fun _ _ => rfl)
  rw [← hspec] at hsp
  rw [← hoth] at hfd
  have hoth_ord : ∀ kv ∈ others, ordinaryName kv.1 = true := by
    intro kv hkv
    rw [hoth] at hkv
    obtain ⟨h1, h2⟩ := List.mem_filter.mp hkv
    exact (hSok kv h1).other (by simpa using h2)
  have hond : (others.map (·.1)).Nodup := by rw [hoth]; exact nodup_filter_keys _ S hSnd
  have hsnd : (specials.map (·.1)).Nodup := by rw [hspec]; exact nodup_filter_keys _ S hSnd
  -- the final document
  refine ⟨_, .obj (setAll (setAll [] specials) others), hfd, ?_, ?_⟩
  · rw [C10.apply_patches_append, hsp]
    by_cases he : others.isEmpty = true
    · have : others = [] := by simpa using he
      subst this
      simp [applyPatches, setAll]
    · simp only [he, Bool.false_eq_true, if_false, applyPatches, apply_ietf_adds _ others hoth_ord]
  · intro key
    simp only [Json.get?]
    rw [← C03.lookup_perm key hperm hSnd, lookup_setAll key others _ hond]
    by_cases ho : key ∈ others.map (·.1)
    · simp only [ho, if_true]
      rw [hoth] at ho ⊢
      obtain ⟨kv', _, e', hp'⟩ := (mem_keys_filter key _ S).mp ho
      exact lookup_filter key _ S (by intro kv _ e; rw [e, ← e']; exact hp')
    · simp only [ho, if_false]
      rw [lookup_setAll key specials [] hsnd]
      by_cases hs : key ∈ specials.map (·.1)
      · simp only [hs, if_true]
        rw [hspec] at hs ⊢
        obtain ⟨kv', _, e', hp'⟩ := (mem_keys_filter key _ S).mp hs
        exact lookup_filter key _ S (by intro kv _ e; rw [e, ← e']; exact hp')
      · simp only [hs, if_false, Json.lookup]
        symm
        apply lookup_none_of_not_mem
        intro hm
        obtain ⟨kv, hkv, e⟩ := List.mem_map.mp hm
        by_cases hsp' : isSpecial kv.1 = true
        · exact hs (by rw [hspec]; exact (mem_keys_filter key _ S).mpr ⟨kv, hkv, e, hsp'⟩)
        · exact ho (by rw [hoth]; exact (mem_keys_filter key _ S).mpr ⟨kv, hkv, e, by simpa using hsp'⟩)

/-- the quantifier is inhabited by ordinary documents: all three special members, in an order
    that is not the sorted one, and two further members (one of them `null`) -/
example : ∃ kvs : List (String × Json), kvs.length = 5 ∧ (kvs.map (·.1)).Nodup ∧ ∀ kv ∈ kvs, MemberOK kv := by
  refine ⟨[("service", .arr [.obj [("id", .str "s1")]]), ("zeta", .null), ("alsoKnownAs", .arr (["did:x:y"].map .str)),
           ("publicKey", .arr [.obj [("id", .str "k1")]]), ("a-b", .str "v")], rfl, by decide, ?_⟩
  intro kv hkv
  simp only [List.mem_cons, List.mem_nil_iff, or_false] at hkv
  rcases hkv with rfl | rfl | rfl | rfl | rfl
  · exact { notId := by decide, keys := fun h => absurd h (by decide),
            services := fun _ => ⟨_, rfl, by simp, by intro x hx; simp at hx; subst hx; rfl⟩,
            aka := fun h => absurd h (by decide), other := fun h => absurd h (by decide) }
  · exact { notId := by decide, keys := fun h => absurd h (by decide), services := fun h => absurd h (by decide),
            aka := fun h => absurd h (by decide), other := fun _ => by decide }
  · exact { notId := by decide, keys := fun h => absurd h (by decide), services := fun h => absurd h (by decide),
            aka := fun _ => ⟨["did:x:y"], rfl, by simp⟩, other := fun h => absurd h (by decide) }
  · exact { notId := by decide, keys := fun _ => ⟨_, rfl, by simp, by intro x hx; simp at hx; subst hx; rfl⟩,
            services := fun h => absurd h (by decide), aka := fun h => absurd h (by decide), other := fun h => absurd h (by decide) }
  · exact { notId := by decide, keys := fun h => absurd h (by decide), services := fun h => absurd h (by decide),
            aka := fun h => absurd h (by decide), other := fun _ => by decide }

end Sidetree.Props.C14G
