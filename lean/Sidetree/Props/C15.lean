/-
  C15 — JWS signatures verify iff produced by the matching key over the same bytes.
  Framing half (proved): compact parse, signing input, fixed-width r‖s. The cryptographic half
  ("fails under any other key / after any change") is the primitive's unforgeability; the verdict
  is an oracle (`orc.verify`), checked against Go's standard library by the correspondence stream.
-/
import Sidetree.Props.C02
import Sidetree.Lemmas.KeyCodec

namespace Sidetree.Props.C15
open Sidetree

/-! ### fixed-width signatures -/

/-- r and s survive the fixed-width encoding -/
theorem rs_roundtrip (size r s : Nat) (hr : r < 256 ^ size) (hs : s < 256 ^ size) :
    decodeRS size (encodeRS size r s) = some (r, s) := by
  have hl : (encodeRS size r s).length = 2 * size := by
    simp [encodeRS, padBE_length]; omega
  have ht : (encodeRS size r s).take size = padBE r size := by
    simp [encodeRS, List.take_append_of_le_length, padBE_length]
  have hd : (encodeRS size r s).drop size = padBE s size := by
    simp [encodeRS, List.drop_append_of_le_length, padBE_length]
  simp [decodeRS, hl, ht, hd, fromBE_padBE, hr, hs]

/-- the encoding always has exactly twice the coordinate width (leading zero bytes kept) -/
theorem rs_fixed_width (size r s : Nat) : (encodeRS size r s).length = 2 * size := by
  simp [encodeRS, padBE_length]; omega

/-- signatures of any other length are rejected -/
theorem wrong_length_rejected (size : Nat) (sig : Bytes) (h : sig.length ≠ 2 * size) : decodeRS size sig = none := by
  simp [decodeRS, h]

/-! ### compact form -/

/-- malformed compact forms are rejected: not exactly three segments -/
theorem wrong_segment_count_rejected (s : String) (h : (Jws.splitDot s.toList).length ≠ 3) : Jws.parse s = none := by
  unfold Jws.parse
  split
  · rfl
  · split
    · rename_i h3
      rw [h3] at h
      simp at h
    · rfl

/-- JSON serialization is not supported -/
theorem json_serialization_rejected (s : String) (h : "{".toList.isPrefixOf s.toList = true) : Jws.parse s = none := by
  unfold Jws.parse
  rw [if_pos h]

/-- what a successful parse guarantees: three segments that decode, a JSON-object header with `alg`,
    non-empty payload and signature; the signature bytes are exactly the decoded third segment -/
theorem parse_ok (s : String) (p : Jws.Parsed) (h : Jws.parse s = some p) :
    ∃ hs ps sg, Jws.splitDot s.toList = [hs, ps, sg] ∧ b64Decode ps = some p.payload ∧ b64Decode sg = some p.signature ∧
      p.payload ≠ [] ∧ p.signature ≠ [] ∧ (Json.lookup "alg" p.headers).isSome = true := by
  unfold Jws.parse at h
  split at h
  · cases h
  · split at h
    · rename_i hs ps sg hsplit
      cases hh : b64Decode hs with
      | none => simp [hh] at h
      | some hb =>
        simp only [hh] at h
        split at h
        · rename_i hdrs hparse
          split at h
          · cases h
          · rename_i halg
            cases hp : b64Decode ps with
            | none => simp [hp] at h
            | some pb =>
              cases hg : b64Decode sg with
              | none => simp [hp, hg] at h
              | some sb =>
                simp only [hp, hg] at h
                split at h
                · cases h
                · rename_i hne
                  cases h
                  refine ⟨hs, ps, sg, hsplit, hp, hg, ?_, ?_, ?_⟩
                  · intro e; apply hne; left; have e' : pb = [] := e; simp [e']
                  · intro e; apply hne; right; have e' : sb = [] := e; simp [e']
                  · cases hl : Json.lookup "alg" hdrs with
                    | none => simp [hl] at halg
                    | some _ => rfl
        · cases h
    · cases h

/-- the verdict is the oracle's on exactly (key, decoded signature bytes, signing input) -/
theorem verify_reduces (orc : Oracles) (compact : String) (k : Jwk) (h : Jws.verify orc compact k = .ok) :
    ∃ p inp, Jws.parse compact = some p ∧ Jws.signingInput p = some inp ∧ orc.verify k p.signature inp = some true :=
  C02.verify_reduces orc compact k h

/-- and a rejected signature is never accepted -/
theorem oracle_rejects (orc : Oracles) (compact : String) (k : Jwk) (p : Jws.Parsed) (inp : Bytes)
    (hp : Jws.parse compact = some p) (hi : Jws.signingInput p = some inp)
    (ho : orc.verify k p.signature inp = some false) : Jws.verify orc compact k = .bad := by
  simp [Jws.verify, hp, hi, ho]

/-! ### the signing input determines header content and payload -/

theorem b64Encode_no_dot : ∀ (bs : Bytes), '.' ∉ b64Encode bs := by
  intro bs
  rw [b64Encode_eq_map]
  intro hm
  rcases List.mem_map.mp hm with ⟨v, hv, he⟩
  have hlt := encVals_lt bs v hv
  have := b64Val_b64Char v hlt
  rw [he] at this
  simp [b64Val?] at this

theorem append_dot_inj (a a' b b' : List Char) (ha : '.' ∉ a) (ha' : '.' ∉ a')
    (h : a ++ '.' :: b = a' ++ '.' :: b') : a = a' ∧ b = b' := by
  induction a generalizing a' with
  | nil =>
    cases a' with
    | nil => simpa using h
    | cons c cs =>
      simp only [List.nil_append, List.cons_append, List.cons.injEq] at h
      exact absurd (h.1 ▸ List.mem_cons_self ..) ha'
  | cons x xs ih =>
    cases a' with
    | nil =>
      simp only [List.nil_append, List.cons_append, List.cons.injEq] at h
      exact absurd (h.1 ▸ List.mem_cons_self ..) ha
    | cons c cs =>
      simp only [List.cons_append, List.cons.injEq] at h
      have := ih cs (fun hm => ha (List.mem_cons_of_mem _ hm)) (fun hm => ha' (List.mem_cons_of_mem _ hm)) h.2
      exact ⟨by rw [h.1, this.1], this.2⟩

/-- any change to the (re-marshalled) header bytes or to the payload bytes changes the signing input -/
theorem signingInput_injective (hb hb' pl pl' : Bytes)
    (h : b64Encode hb ++ '.' :: b64Encode pl = b64Encode hb' ++ '.' :: b64Encode pl') : hb = hb' ∧ pl = pl' := by
  obtain ⟨h1, h2⟩ := append_dot_inj _ _ _ _ (b64Encode_no_dot hb) (b64Encode_no_dot hb') h
  exact ⟨b64_encode_injective _ _ h1, b64_encode_injective _ _ h2⟩

end Sidetree.Props.C15
