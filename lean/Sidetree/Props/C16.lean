/-
  C16 — public keys survive the JWK encoding unchanged and at fixed width.
  The four Weierstrass curves are concrete (`Curve.onCurve` is the curve equation mod p); an
  Ed25519 key is its 32 bytes.
-/
import Sidetree.Lemmas.KeyCodec

namespace Sidetree.Props.C16
open Sidetree

/-- the four supported curves, their JWK names and coordinate widths -/
theorem curves_table :
    Curve.all.map (fun c => (c.name, c.size)) = [("P-256", 32), ("P-384", 48), ("P-521", 66), ("secp256k1", 32)] ∧
    (∀ c ∈ Curve.all, Curve.byName c.name = some c) := by
  constructor
  · rfl
  · intro c hc
    simp only [Curve.all, List.mem_cons, List.not_mem_nil, or_false] at hc
    rcases hc with rfl | rfl | rfl | rfl <;> rfl

/-- every field prime fits the coordinate width, so reduced coordinates always fit -/
theorem prime_fits_width : ∀ c ∈ Curve.all, c.p < 256 ^ c.size := by
  intro c hc
  simp only [Curve.all, List.mem_cons, List.not_mem_nil, or_false] at hc
  rcases hc with rfl | rfl | rfl | rfl <;> decide +kernel

/-- **round trip**: converting an EC public key to its JWK form and reading it back yields the
    same key; the JWK carries kty EC and the curve's name -/
theorem ec_roundtrip (c : Curve) (hc : c ∈ Curve.all) (x y : Nat) (h : c.onCurve x y = true) :
    ∃ k, ecToJwk c x y = some k ∧ k.kty = "EC" ∧ k.crv = c.name ∧ ecFromJwk k = some (c, x, y) := by
  have hp := prime_fits_width c hc
  simp only [Curve.onCurve, Bool.and_eq_true, decide_eq_true_eq] at h
  have hx : x < 256 ^ c.size := by omega
  have hy : y < 256 ^ c.size := by omega
  refine ⟨{ kty := "EC", crv := c.name, x := b64EncodeStr (padBE x c.size), y := b64EncodeStr (padBE y c.size) },
    by simp [ecToJwk, Curve.onCurve, h], rfl, rfl, ?_⟩
  have hname := (curves_table.2 c hc)
  have hxe : b64EncodeStr (padBE x c.size) ≠ "" := by
    intro e
    have := b64_decode_encode_str (padBE x c.size)
    rw [e] at this
    have hl := padBE_length c.size x
    have : padBE x c.size = [] := by
      simp [b64DecodeStr, b64Decode, mapM?, b64DecodeVals] at this
      exact this
    rw [this] at hl
    have hs : 0 < c.size := by
      simp only [Curve.all, List.mem_cons, List.not_mem_nil, or_false] at hc
      rcases hc with rfl | rfl | rfl | rfl <;> decide
    simp at hl; omega
  have hye : b64EncodeStr (padBE y c.size) ≠ "" := by
    intro e
    have := b64_decode_encode_str (padBE y c.size)
    rw [e] at this
    have hl := padBE_length c.size y
    have : padBE y c.size = [] := by
      simp [b64DecodeStr, b64Decode, mapM?, b64DecodeVals] at this
      exact this
    rw [this] at hl
    have hs : 0 < c.size := by
      simp only [Curve.all, List.mem_cons, List.not_mem_nil, or_false] at hc
      rcases hc with rfl | rfl | rfl | rfl <;> decide
    simp at hl; omega
  simp only [ecFromJwk, hname, ne_eq, not_true_eq_false, if_false, hxe, hye, or_self,
    b64_decode_encode_str, padBE_length, fromBE_padBE c.size x hx, fromBE_padBE c.size y hy]
  simp [Curve.onCurve, h]

/-- **fixed width**: coordinates are always encoded at the curve's full byte width, leading zero
    bytes preserved -/
theorem fixed_width (c : Curve) (x y : Nat) (k : Jwk) (h : ecToJwk c x y = some k) :
    ∃ xb yb, b64DecodeStr k.x = some xb ∧ b64DecodeStr k.y = some yb ∧ xb.length = c.size ∧ yb.length = c.size := by
  unfold ecToJwk at h
  split at h
  · cases h
    exact ⟨_, _, b64_decode_encode_str _, b64_decode_encode_str _, padBE_length _ _, padBE_length _ _⟩
  · cases h

/-- a key with leading zero bytes in a coordinate keeps them: the encoding of 1 on P-256 -/
example : padBE 1 32 = List.replicate 31 0 ++ [1] := by decide

/-- JWKs whose point is not on the named curve, or whose coordinates have the wrong width, are rejected -/
theorem reject_invalid (k : Jwk) (c : Curve) (x y : Nat) (h : ecFromJwk k = some (c, x, y)) :
    Curve.byName k.crv = some c ∧ c.onCurve x y = true ∧
    ∃ xb yb, b64DecodeStr k.x = some xb ∧ b64DecodeStr k.y = some yb ∧ xb.length = c.size ∧ yb.length = c.size ∧
      x = fromBE xb ∧ y = fromBE yb := by
  unfold ecFromJwk at h
  by_cases hk : k.kty ≠ "EC"
  · simp [hk] at h
  · simp only [hk, if_false] at h
    cases hc : Curve.byName k.crv with
    | none => simp [hc] at h
    | some c' =>
      simp only [hc] at h
      by_cases he : k.x = "" ∨ k.y = ""
      · simp [he] at h
      · simp only [he, if_false] at h
        cases hx : b64DecodeStr k.x with
        | none => simp [hx] at h
        | some xb =>
          cases hy : b64DecodeStr k.y with
          | none => simp [hx, hy] at h
          | some yb =>
            simp only [hx, hy] at h
            by_cases hl : xb.length ≠ c'.size ∨ yb.length ≠ c'.size
            · simp [hl] at h
            · simp only [hl, if_false] at h
              by_cases ho : c'.onCurve (fromBE xb) (fromBE yb) = true
              · simp only [ho, if_true, Option.some.injEq, Prod.mk.injEq] at h
                obtain ⟨e1, e2, e3⟩ := h
                subst e1; subst e2; subst e3
                have hl1 : xb.length = c'.size := by omega
                have hl2 : yb.length = c'.size := by omega
                exact ⟨rfl, ho, xb, yb, rfl, rfl, hl1, hl2, rfl, rfl⟩
              · simp [ho] at h

/-- Ed25519: round trip for every public key (32 bytes that encode a point of the curve), and only
    such `x` values are accepted: wrong widths and strings that are no point are refused -/
theorem ed_roundtrip (pub : Bytes) (h : pub.length = 32) (hp : Ed.isPoint pub = true) :
    edFromJwk (edToJwk pub) = some pub := by
  simp [edFromJwk, edToJwk, b64_decode_encode_str, h, hp]

theorem ed_reject_wrong_width (k : Jwk) (pub : Bytes) (h : edFromJwk k = some pub) :
    k.kty = "OKP" ∧ k.crv = "Ed25519" ∧ b64DecodeStr k.x = some pub ∧ pub.length = 32 ∧ Ed.isPoint pub = true := by
  unfold edFromJwk at h
  by_cases hk : k.kty ≠ "OKP" ∨ k.crv ≠ "Ed25519"
  · simp [hk] at h
  · simp only [hk, if_false] at h
    cases hx : b64DecodeStr k.x with
    | none => simp [hx] at h
    | some xb =>
      simp only [hx] at h
      by_cases hl : xb.length = 32 ∧ Ed.isPoint xb = true
      · simp only [hl, and_self, if_true, Option.some.injEq] at h
        subst h
        have h1 : k.kty = "OKP" := Classical.byContradiction fun hne => hk (Or.inl hne)
        have h2 : k.crv = "Ed25519" := Classical.byContradiction fun hne => hk (Or.inr hne)
        exact ⟨h1, h2, rfl, hl.1, hl.2⟩
      · simp [hl] at h

/-- same key ⇒ same JWK ⇒ same canonical JSON: the encoding is a function of the key alone, so
    reveal values and commitments computed from a key are the same wherever they are computed -/
theorem encoding_deterministic (c : Curve) (x y : Nat) (k1 k2 : Jwk)
    (h1 : ecToJwk c x y = some k1) (h2 : ecToJwk c x y = some k2) : k1.toJson = k2.toJson := by
  rw [h1] at h2; cases h2; rfl

/-- non-vacuity: the P-256 base point is on the curve -/
example : Curve.p256.onCurve
    0x6b17d1f2e12c4247f8bce6e563a440f277037d812deb33a0f4a13945d898c296
    0x4fe342e2fe1a7f9b8ee7eb4a7c0f9e162bce33576b315ececbb6406837bf51f5 = true := by decide

end Sidetree.Props.C16
