/-
  C17 — long-form DIDs resolve offline, only in their own namespace, to what was created.
-/
import Sidetree.Did
import Sidetree.Props.C03

namespace Sidetree.Props.C17
open Sidetree Sidetree.Did

variable (H : HashFam) (orc : Oracles)

/-- DIDs of another method — even one sharing a name prefix — are rejected: a handler resolves a
    DID only if it begins with its own namespace followed by a colon -/
theorem foreign_namespace_rejected (ns did : String)
    (h : (ns.toList ++ [':']).isPrefixOf did.toList = false) : resolve H orc ns did = none := by
  simp [resolve, h]

example : ("did:foo".toList ++ [':']).isPrefixOf "did:foobar:abc:def".toList = false := by decide

/-- short-form DIDs are rejected -/
theorem short_form_rejected (ns did : String) (h : ∀ a b c d, parseDID ns did ≠ .long a b c d) :
    resolve H orc ns did = none := by
  unfold resolve
  split
  · rfl
  · split
    · rename_i a b c d hp
      exact absurd hp (h a b c d)
    · rfl

/-- the initial state is the exact unpadded base64url encoding of the canonical JSON of the
    request it denotes — suffix data, delta and, optionally, the type `create`, nothing else:
    whitespace, member order, padding, non-zero trailing bits, line breaks, further members and
    any other type value are all refused because the re-encoding is compared with the string itself -/
theorem initial_state_canonical (initial : String) (c : Parser.CreateReq) (h : parseInitialState initial = some c) :
    ∃ j ty canon, Parser.decodeCreate j = some c ∧ transformValue (createRequestJson ty c) = some canon ∧
      initial = b64EncodeStr (bytesOfString (String.ofList canon)) ∧ (ty = "" ∨ ty = "create") := by
  unfold parseInitialState at h
  cases hb : b64DecodeStrictStr initial with
  | none => simp [hb] at h
  | some bs =>
    simp only [hb] at h
    cases hj : (stringOfBytes? bs).bind fun t => Parse.parse t.toList with
    | none => simp [hj] at h
    | some j =>
      simp only [hj] at h
      cases hd : Parser.decodeCreate j with
      | none => simp [hd] at h
      | some c' =>
        cases ht : (GoJson.topObject j).bind fun top => GoJson.str top "type" with
        | none => simp [hd, ht] at h
        | some ty =>
          simp only [hd, ht] at h
          cases hc : transformValue (createRequestJson ty c') with
          | none => simp [hc] at h
          | some canon =>
            simp only [hc] at h
            by_cases he : b64EncodeStr (bytesOfString (String.ofList canon)) = initial
            · by_cases hty : ty = "" ∨ ty = "create"
              · simp only [he, hty, if_true, Option.some.injEq] at h
                subst h
                exact ⟨j, ty, canon, hd, hc, he.symm, hty⟩
              · simp [he, hty] at h
            · simp [he] at h

/-- what every resolvable DID looks like: own namespace and a colon; a last segment that is the
    canonical initial state of a create request the parser accepts under the handler's protocol;
    and before it nothing but the namespace, a colon and that request's suffix (D49) -/
theorem resolve_shape (ns did : String) (r : Json) (h : resolve H orc ns did = some r) :
    (ns.toList ++ [':']).isPrefixOf did.toList = true ∧
    ∃ did' initial req size op, parseDID ns did = .long did' initial req size ∧
      Parser.parse H defaultCfg orc ns size (some req) = some op ∧
      (splitColon did'.toList).getLast? = some op.uniqueSuffix.toList ∧
      3 ≤ (splitColon did'.toList).length ∧
      did' = ns ++ ":" ++ op.uniqueSuffix := by
  unfold resolve at h
  by_cases hp : (ns.toList ++ [':']).isPrefixOf did.toList = true
  · refine ⟨hp, ?_⟩
    simp only [hp, Bool.not_true, Bool.false_eq_true, if_false] at h
    cases hd : parseDID ns did with
    | short => simp [hd] at h
    | error => simp [hd] at h
    | long did' initial req size =>
      simp only [hd] at h
      by_cases hl : (splitColon did'.toList).length < 3
      · simp [hl] at h
      · simp only [hl, if_false] at h
        cases hop : Parser.parse H defaultCfg orc ns size (some req) with
        | none => simp [hop] at h
        | some op =>
          simp only [hop] at h
          by_cases hs : String.ofList ((splitColon did'.toList).getLast?.getD []) = op.uniqueSuffix
          · have hdid : did' = ns ++ ":" ++ op.uniqueSuffix := by
              simp only [hs, ne_eq, not_true_eq_false, if_false] at h
              by_cases hd' : did' = ns ++ ":" ++ op.uniqueSuffix
              · exact hd'
              · simp [hd'] at h
            refine ⟨did', initial, req, size, op, rfl, hop, ?_, by omega, hdid⟩
            cases hg : (splitColon did'.toList).getLast? with
            | none =>
              have : (splitColon did'.toList).length = 0 := by
                cases hsc : splitColon did'.toList with
                | nil => rfl
                | cons a as => rw [hsc] at hg; simp [List.getLast?_cons] at hg
              omega
            | some last =>
              rw [hg] at hs
              simp only [Option.getD_some] at hs
              rw [← hs]; simp
          · simp [hs] at h
  · simp [hp] at h

/-- the suffix is the hash of the suffix data: a resolvable DID is self-certifying (C03) -/
theorem resolve_self_certifying (ns : String) (size : Nat) (c : Parser.CreateReq) (op : Parser.PublicOp)
    (h : Parser.parse H defaultCfg orc ns size (some (createRequestJson "create" c)) = some op) :
    ∃ c' alg, Parser.decodeCreate (createRequestJson "create" c) = some c' ∧ defaultCfg.multihashAlgorithms.head? = some alg ∧
      Hashing.calculateModelMultihash H (c'.suffixData.getD default).toJson alg = some op.uniqueSuffix ∧ alg = 18 := by
  have hty : Parser.requestType (some (createRequestJson "create" c)) = some .create := by
    simp [Parser.requestType, createRequestJson, GoJson.topObject, GoJson.str, Json.get?, Json.lookup, OpType.ofString?]
  obtain ⟨c', alg, h1, h2, h3, _, _⟩ := C03.create_self_certifying H defaultCfg orc ns size _ op hty h
  refine ⟨c', alg, h1, h2, h3, ?_⟩
  simp [defaultCfg] at h2
  exact h2.symm

/-- the resolved document's id is namespace:suffix:initial-state and the metadata names the
    short form as equivalent -/
theorem unpublished_info (ns suffix jcs : String) (hj : jcs ≠ "") :
    (unpublishedInfo ns suffix jcs).get? "id" = some (.str (ns ++ ":" ++ suffix ++ ":" ++ jcs)) ∧
    (unpublishedInfo ns suffix jcs).get? "equivalentId" = some (.arr [.str (ns ++ ":" ++ suffix)]) ∧
    (unpublishedInfo ns suffix jcs).get? "published" = some (.bool false) := by
  simp [unpublishedInfo, hj, Json.get?, Json.lookup]

/-- the handler's protocol: sha2-256 only, no ietf-json-patch, 2500-byte operations -/
theorem handler_protocol :
    defaultCfg.multihashAlgorithms = [18] ∧ ¬ ("ietf-json-patch" ∈ defaultCfg.patches) ∧
    defaultCfg.maxOperationSize = 2500 ∧ defaultCfg.maxDeltaSize = 1700 ∧ defaultOpts.includeBase = true := by decide


/-! the model's protocol value is the one written in config/protocol.go: rendered in Go syntax it
    equals the table that the obligation `C17_defaultProtocol` ties to the source -/

def goStrings (xs : List String) : String := "[]string{" ++ ", ".intercalate (xs.map fun x => "\"" ++ x ++ "\"") ++ "}"
def goUints (xs : List Nat) : String := "[]uint{" ++ ", ".intercalate (xs.map toString) ++ "}"

def renderProtocol (p : Protocol) : List (String × String) :=
  [("CompressionAlgorithm", "\"" ++ p.compressionAlgorithm ++ "\""), ("GenesisTime", toString p.genesisTime),
   ("KeyAlgorithms", goStrings p.keyAlgorithms), ("MaxCasURILength", toString p.maxCasURILength),
   ("MaxChunkFileSize", toString p.maxChunkFileSize), ("MaxCoreIndexFileSize", toString p.maxCoreIndexFileSize),
   ("MaxDeltaSize", toString p.maxDeltaSize), ("MaxMemoryDecompressionFactor", toString p.maxMemoryDecompressionFactor),
   ("MaxOperationCount", toString p.maxOperationCount), ("MaxOperationHashLength", toString p.maxOperationHashLength),
   ("MaxOperationSize", toString p.maxOperationSize), ("MaxProofFileSize", toString p.maxProofFileSize),
   ("MaxProvisionalIndexFileSize", toString p.maxProvisionalIndexFileSize), ("MultihashAlgorithms", goUints p.multihashAlgorithms),
   ("NonceSize", toString p.nonceSize), ("Patches", goStrings p.patches), ("SignatureAlgorithms", goStrings p.signatureAlgorithms)]

theorem defaultCfg_is_source_protocol :
    renderProtocol defaultCfg = Expected.defaultProtocol ∧ defaultCfg.maxOperationTimeDelta = 0 := by
  constructor
  · decide +kernel
  · rfl

end Sidetree.Props.C17
