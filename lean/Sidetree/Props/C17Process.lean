/-
  C17 — the constructive direction: the long-form DID that `ProcessOperation` returns resolves, on
  the same handler, to the very result that was returned (`process_result_resolves`), for every
  namespace containing a colon and every create request whose re-marshalled form has no numbers
  (the JSON reader round trip of `Lemmas/RoundTrip.lean` is proved for number-free values).
  Ingredients: `Lemmas/DidText.lean` (what `ns:suffix:initial-state` splits into; `resolve_long`),
  `Lemmas/Remarshal.lean` (decode ∘ normal form ∘ marshal is stable), base64url and UTF-8 round trips.
-/
import Sidetree.Lemmas.Remarshal
import Sidetree.Props.C17Reports
import Sidetree.Props.C07
import Sidetree.Vdr

namespace Sidetree.Props.C17P
open Sidetree Sidetree.Json Sidetree.Did Sidetree.Parser Sidetree.Framing Sidetree.Remarshal

theorem b64_no_colon (bs : Bytes) : ':' ∉ (b64EncodeStr bs).toList := by
  intro h
  have h' : ':' ∈ b64Encode bs := by simpa [b64EncodeStr] using h
  have := b64Encode_alphabet bs ':' h'
  simp [b64Val?] at this

theorem multihash_no_colon (H : HashFam) (v : Json) (alg : Nat) (s : String)
    (h : Hashing.calculateModelMultihash H v alg = some s) : ':' ∉ s.toList := by
  unfold Hashing.calculateModelMultihash at h
  cases ht : transformValue v with
  | none => simp [ht] at h
  | some canon =>
    simp only [ht, Option.bind_some, Hashing.multihashOfCanonical] at h
    cases hm : Hashing.computeMultihash H alg (bytesOfString (String.ofList canon)) with
    | none => simp [hm] at h
    | some bs =>
      simp only [hm, Option.map_some, Option.some.injEq] at h
      subst h
      exact b64_no_colon bs

theorem iface_ne_null (j : Json) (k : String) : GoJson.iface j k ≠ some .null := by
  unfold GoJson.iface
  split
  · simp
  · rename_i r hr
    intro e
    exact hr (e ▸ rfl) |> fun _ => by simp_all

theorem sd_ofJson_origin (j : Json) (sd : SuffixData) (h : SuffixData.ofJson? j = some sd) : sd.anchorOrigin ≠ some .null := by
  unfold SuffixData.ofJson? at h
  cases h1 : GoJson.str j "deltaHash" with
  | none => simp [h1] at h
  | some dh =>
    cases h2 : GoJson.str j "recoveryCommitment" with
    | none => simp [h1, h2] at h
    | some rc =>
      cases h3 : GoJson.str j "type" with
      | none => simp [h1, h2, h3] at h
      | some ty =>
        simp [h1, h2, h3] at h
        subst h
        exact iface_ne_null j "anchorOrigin"

theorem delta_ofJson_patches (j : Json) (d : Delta) (ps : List Json) (h : Delta.ofJson? j = some d) (hp : d.patches = some ps) :
    ps.all Patch.isObjOrNullB = true := by
  unfold Delta.ofJson? at h
  cases h1 : GoJson.str j "updateCommitment" with
  | none => simp [h1] at h
  | some uc =>
    simp only [h1, Option.bind_eq_bind, Option.bind_some] at h
    split at h
    · simp at h; subst h; simp at hp
    · simp at h; subst h; simp at hp
    · rename_i xs hx
      by_cases ha : xs.all Patch.isObjOrNullB = true
      · simp [ha] at h; subst h; simp at hp; subst hp; exact ha
      · simp [ha] at h
    · simp at h

theorem ptr_some {α} (j : Json) (k : String) (dec : Json → Option α) (a : α) (h : GoJson.ptr j k dec = some (some a)) :
    ∃ v, dec v = some a := by
  unfold GoJson.ptr at h
  split at h
  · cases h
  · cases h
  · rename_i kvs _
    cases hd : dec (.obj kvs) with
    | none => simp [hd] at h
    | some a' => simp [hd] at h; subst h; exact ⟨_, hd⟩
  · cases h

/-- what `decodeCreate` guarantees about its result -/
theorem decodeCreate_wf (j : Json) (c : CreateReq) (h : decodeCreate j = some c) : WF c := by
  unfold decodeCreate at h
  cases h0 : GoJson.topObject j with
  | none => simp [h0] at h
  | some top =>
    cases h1 : GoJson.str top "type" with
    | none => simp [h0, h1] at h
    | some ty =>
      cases h2 : GoJson.ptr top "suffixData" SuffixData.ofJson? with
      | none => simp [h0, h1, h2] at h
      | some sdo =>
        cases h3 : GoJson.ptr top "delta" Delta.ofJson? with
        | none => simp [h0, h1, h2, h3] at h
        | some dlo =>
          simp [h0, h1, h2, h3] at h
          subst h
          constructor
          · intro sd e
            simp only at e
            subst e
            obtain ⟨v, hv⟩ := ptr_some _ _ _ _ h2
            exact sd_ofJson_origin v sd hv
          · intro d ps e hp
            simp only at e
            subst e
            obtain ⟨v, hv⟩ := ptr_some _ _ _ _ h3
            exact delta_ofJson_patches v d ps hv hp

theorem transformValue_request (ty : String) (c : CreateReq) :
    transformValue (createRequestJson ty c) = (normalize (createRequestJson ty c)).map print := by
  simp [transformValue, createRequestJson, Json.isContainer, Json.jcs]

/-- **the initial state `ProcessOperation` hands out is one `parseInitialState` accepts**: the
    canonical text of a re-marshalled create request (without numbers), base64url-encoded, is read
    back, decodes, re-marshals to the very same text and so passes the comparison -/
theorem parseInitialState_canonical (ty : String) (c : CreateReq) (canon : List Char) (hwf : WF c)
    (htyc : ty = "" ∨ ty = "create") (hnf : RT.numFree (createRequestJson ty c) = true)
    (hc : transformValue (createRequestJson ty c) = some canon) :
    ∃ c' n, Parse.parse canon = some n ∧ decodeCreate n = some c' ∧
      ((GoJson.topObject n).bind fun top => GoJson.str top "type") = some ty ∧
      parseInitialState (b64EncodeStr (bytesOfString (String.ofList canon))) = some c' ∧
      transformValue (createRequestJson ty c') = some canon := by
  rw [transformValue_request] at hc
  cases hn : normalize (createRequestJson ty c) with
  | none => simp [hn] at hc
  | some n =>
    simp only [hn, Option.map_some, Option.some.injEq] at hc
    have hnfn : RT.numFree n = true := RT.normalize_numFree _ _ hnf hn
    have hparse : Parse.parse canon = some n := by rw [← hc]; exact RT.parse_print n hnfn
    obtain ⟨c', hd, hty, hre⟩ := request_remarshal ty c n hwf hnf hn
    have htv : transformValue (createRequestJson ty c') = some canon := by
      rw [transformValue_request, hre, Option.map_some, hc]
    refine ⟨c', n, hparse, hd, hty, ?_, htv⟩
    unfold parseInitialState
    simp only [b64_decode_strict_encode_str, utf8_roundtrip, Option.bind_some, String.toList_ofList, hparse, hd, hty, htv, htyc, if_true]

theorem ofString_create (s : String) (h : OpType.ofString? s = some .create) : s = "create" := by
  unfold OpType.ofString? at h
  split at h <;> first | rfl | cases h

/-- **the DID `ProcessOperation` returns resolves, to the very result it returned** — for every
    namespace containing a colon (as every `did:method` does) and every create request whose
    re-marshalled form contains no numbers -/
theorem process_result_resolves (H : HashFam) (orc : Oracles) (ns : String) (text : Option (List Char)) (size : Nat)
    (j r : Json) (hns : ':' ∈ ns.toList)
    (h : processOperation H orc ns text size (some j) = some r)
    (hnum : ∀ c ty, decodeCreate j = some c → ((GoJson.topObject j).bind fun top => GoJson.str top "type") = some ty →
      RT.numFree (createRequestJson ty c) = true) :
    ∃ suffix initial, resolve H orc ns (ns ++ ":" ++ suffix ++ ":" ++ initial) = some r ∧
      ':' ∉ suffix.toList ∧ ':' ∉ initial.toList := by
  unfold processOperation at h
  cases hp : Parser.parse H defaultCfg orc ns size (some j) with
  | none => simp [hp] at h
  | some op =>
    simp only [hp] at h
    by_cases hcreate : op.type = .create
    · simp only [hcreate, ne_eq, not_true_eq_false, if_false] at h
      unfold canonicalRequestOf at h
      cases hd : decodeCreate j with
      | none => simp [hd] at h
      | some c =>
        cases hty : (GoJson.topObject j).bind fun top => GoJson.str top "type" with
        | none => simp [hd, hty] at h
        | some ty =>
          simp only [hd, hty] at h
          cases hc : transformValue (createRequestJson ty c) with
          | none => simp [hc] at h
          | some canon =>
            simp only [hc] at h
            cases hcj : Parse.parse canon with
            | none => simp [hcj] at h
            | some cj =>
              simp only [hcj] at h
              cases hcop : Parser.parse H defaultCfg orc ns (utf8Len (String.ofList canon)) (some cj) with
              | none => simp [hcop] at h
              | some cop =>
                simp only [hcop] at h
                -- the request's type is "create"
                have hrt := (C07.parse_result H defaultCfg orc ns size (some j) op hp).2
                have htyc : ty = "create" := by
                  simp only [requestType, Option.bind_some] at hrt
                  rw [hty, hcreate] at hrt
                  exact ofString_create ty (by simpa using hrt)
                subst htyc
                obtain ⟨c', n, hparse, hd', htyn, hpi, htv⟩ :=
                  parseInitialState_canonical "create" c canon (decodeCreate_wf j c hd) (.inr rfl) (hnum c "create" hd hty) hc
                rw [hcj] at hparse
                cases hparse
                -- the suffix is a multihash, hence colon-free
                obtain ⟨c2, alg, _, _, hsuf, _, _⟩ := C03.create_self_certifying H defaultCfg orc ns _ cj cop
                  (by simp only [requestType, Option.bind_some, htyn]; rfl) hcop
                refine ⟨cop.uniqueSuffix, b64EncodeStr (bytesOfString (String.ofList canon)), ?_, multihash_no_colon H _ alg _ hsuf, b64_no_colon _⟩
                rw [← h]
                exact DidText.resolve_long H orc ns cop.uniqueSuffix _ c' canon cj cop hns (multihash_no_colon H _ alg _ hsuf)
                  (b64_no_colon _) hpi htv hcj hcop rfl
    · simp [hcreate] at h

/-- **the DID `VDR.Create` returns resolves (`VDR.Read` up to did-go's parsing), to the result
    `Create` returned** — for every method name and every document whose create request carries
    no numbers (services without numeric properties) -/
theorem vdr_create_resolves (H : HashFam) (orc : Oracles) (method : String) (ver : List Vdr.VerEntry)
    (services : List Client.DocService) (aka : List String) (updateKey recoveryKey : Jwk) (r : Json)
    (h : Vdr.create H orc method ver services aka updateKey recoveryKey = some r)
    (hnum : ∀ text j c ty, (Vdr.createRequest H ver services aka updateKey recoveryKey).bind Client.requestText = some text →
      Parse.parse text.toList = some j → decodeCreate j = some c →
      ((GoJson.topObject j).bind fun top => GoJson.str top "type") = some ty → RT.numFree (createRequestJson ty c) = true) :
    ∃ suffix initial, resolve H orc ("did:" ++ method) ("did:" ++ method ++ ":" ++ suffix ++ ":" ++ initial) = some r := by
  unfold Vdr.create at h
  cases ht : (Vdr.createRequest H ver services aka updateKey recoveryKey).bind Client.requestText with
  | none => simp [ht] at h
  | some text =>
    simp only [ht] at h
    cases hj : Parse.parse text.toList with
    | none => simp [hj, processOperation] at h
    | some j =>
      rw [hj] at h
      obtain ⟨suffix, initial, hr, _, _⟩ := process_result_resolves H orc ("did:" ++ method) _ _ j r
        (by simp [String.toList_append]) h (fun c ty => hnum text j c ty ht hj)
      exact ⟨suffix, initial, hr⟩

end Sidetree.Props.C17P
