/-
  C17 — the constructive direction with numbers: the long-form DID that `ProcessOperation` returns
  resolves to the very result that was returned, for every create request whose re-marshalled form
  has stable numbers only (`Json.numsStable`); in particular (`…_ints`) when its numbers are plain
  integers below 2^53 in magnitude (`Props.C05.intsOnly`, decidable).
-/
import Sidetree.Props.C17Process
import Sidetree.Lemmas.RemarshalNum
import Sidetree.Props.C05Num

namespace Sidetree.Props.C17P
open Sidetree Sidetree.Json Sidetree.Did Sidetree.Parser Sidetree.Framing Sidetree.Remarshal

/-- **the initial state `ProcessOperation` hands out is one `parseInitialState` accepts**: the
    canonical text of a re-marshalled create request (all of whose numbers are stable), base64url-encoded, is read
    back, decodes, re-marshals to the very same text and so passes the comparison -/
theorem parseInitialState_canonical_num (ty : String) (c : CreateReq) (canon : List Char) (hwf : WF c)
    (htyc : ty = "" ∨ ty = "create") (hst : (createRequestJson ty c).numsStable)
    (hc : transformValue (createRequestJson ty c) = some canon) :
    ∃ c' n, Parse.parse canon = some n ∧ decodeCreate n = some c' ∧
      ((GoJson.topObject n).bind fun top => GoJson.str top "type") = some ty ∧
      parseInitialState (b64EncodeStr (bytesOfString (String.ofList canon))) = some c' ∧
      transformValue (createRequestJson ty c') = some canon := by
  rw [transformValue_request] at hc
  cases hn : normalize (createRequestJson ty c) with
  | none => simp [hn] at hc
  | some n =>
    simp only [hn, Option.map_some, Option.some.injEq] at hc
    have hnfn : n.numsStable := RT.normalize_numsStable _ _ hst hn
    have hparse : Parse.parse canon = some n := by rw [← hc]; exact RT.parse_print_num n hnfn
    obtain ⟨c', hd, hty, hre⟩ := request_remarshal_num ty c n hwf hst hn
    have htv : transformValue (createRequestJson ty c') = some canon := by
      rw [transformValue_request, hre, Option.map_some, hc]
    refine ⟨c', n, hparse, hd, hty, ?_, htv⟩
    unfold parseInitialState
    simp only [b64_decode_strict_encode_str, utf8_roundtrip, Option.bind_some, String.toList_ofList, hparse, hd, hty, htv, htyc, if_true]

/-- **the DID `ProcessOperation` returns resolves, to the very result it returned** — for every
    namespace containing a colon (as every `did:method` does) and every create request whose
    re-marshalled form has stable numbers only -/
theorem process_result_resolves_num (H : HashFam) (orc : Oracles) (ns : String) (text : Option (List Char)) (size : Nat)
    (j r : Json) (hns : ':' ∈ ns.toList)
    (h : processOperation H orc ns text size (some j) = some r)
    (hnum : ∀ c ty, decodeCreate j = some c → ((GoJson.topObject j).bind fun top => GoJson.str top "type") = some ty →
      (createRequestJson ty c).numsStable) :
    ∃ suffix initial, resolve H orc ns (ns ++ ":" ++ suffix ++ ":" ++ initial) = some r ∧
      ':' ∉ suffix.toList ∧ ':' ∉ initial.toList := by
  unfold processOperation at h
  cases hp : Parser.parse H defaultCfg orc ns size (some j) with
  | none => simp [hp] at h
  | some op =>
    simp only [hp] at h
    by_cases hcreate : op.type = .create
    · simp only [hcreate, ne_eq, not_true_eq_false, if_false] at h
      unfold canonicalRequestOf at h
      cases hd : decodeCreate j with
      | none => simp [hd] at h
      | some c =>
        cases hty : (GoJson.topObject j).bind fun top => GoJson.str top "type" with
        | none => simp [hd, hty] at h
        | some ty =>
          simp only [hd, hty] at h
          cases hc : transformValue (createRequestJson ty c) with
          | none => simp [hc] at h
          | some canon =>
            simp only [hc] at h
            cases hcj : Parse.parse canon with
            | none => simp [hcj] at h
            | some cj =>
              simp only [hcj] at h
              cases hcop : Parser.parse H defaultCfg orc ns (utf8Len (String.ofList canon)) (some cj) with
              | none => simp [hcop] at h
              | some cop =>
                simp only [hcop] at h
                -- the request's type is "create"
                have hrt := (C07.parse_result H defaultCfg orc ns size (some j) op hp).2
                have htyc : ty = "create" := by
                  simp only [requestType, Option.bind_some] at hrt
                  rw [hty, hcreate] at hrt
                  exact ofString_create ty (by simpa using hrt)
                subst htyc
                obtain ⟨c', n, hparse, hd', htyn, hpi, htv⟩ :=
                  parseInitialState_canonical_num "create" c canon (decodeCreate_wf j c hd) (.inr rfl) (hnum c "create" hd hty) hc
                rw [hcj] at hparse
                cases hparse
                -- the suffix is a multihash, hence colon-free
                obtain ⟨c2, alg, _, _, hsuf, _, _⟩ := C03.create_self_certifying H defaultCfg orc ns _ cj cop
                  (by simp only [requestType, Option.bind_some, htyn]; rfl) hcop
                refine ⟨cop.uniqueSuffix, b64EncodeStr (bytesOfString (String.ofList canon)), ?_, multihash_no_colon H _ alg _ hsuf, b64_no_colon _⟩
                rw [← h]
                exact DidText.resolve_long H orc ns cop.uniqueSuffix _ c' canon cj cop hns (multihash_no_colon H _ alg _ hsuf)
                  (b64_no_colon _) hpi htv hcj hcop rfl
    · simp [hcreate] at h

/-- **the DID `VDR.Create` returns resolves (`VDR.Read` up to did-go's parsing), to the result
    `Create` returned** — for every method name and every document whose create request has
    stable numbers only -/
theorem vdr_create_resolves_num (H : HashFam) (orc : Oracles) (method : String) (ver : List Vdr.VerEntry)
    (services : List Client.DocService) (aka : List String) (updateKey recoveryKey : Jwk) (r : Json)
    (h : Vdr.create H orc method ver services aka updateKey recoveryKey = some r)
    (hnum : ∀ text j c ty, (Vdr.createRequest H ver services aka updateKey recoveryKey).bind Client.requestText = some text →
      Parse.parse text.toList = some j → decodeCreate j = some c →
      ((GoJson.topObject j).bind fun top => GoJson.str top "type") = some ty → (createRequestJson ty c).numsStable) :
    ∃ suffix initial, resolve H orc ("did:" ++ method) ("did:" ++ method ++ ":" ++ suffix ++ ":" ++ initial) = some r := by
  unfold Vdr.create at h
  cases ht : (Vdr.createRequest H ver services aka updateKey recoveryKey).bind Client.requestText with
  | none => simp [ht] at h
  | some text =>
    simp only [ht] at h
    cases hj : Parse.parse text.toList with
    | none => simp [hj, processOperation] at h
    | some j =>
      rw [hj] at h
      obtain ⟨suffix, initial, hr, _, _⟩ := process_result_resolves_num H orc ("did:" ++ method) _ _ j r
        (by simp [String.toList_append]) h (fun c ty => hnum text j c ty ht hj)
      exact ⟨suffix, initial, hr⟩

/-- … in particular for every create request whose re-marshalled form carries only plain integers
    below 2^53 in magnitude (a decidable condition) -/
theorem process_result_resolves_ints (H : HashFam) (orc : Oracles) (ns : String) (text : Option (List Char)) (size : Nat)
    (j r : Json) (hns : ':' ∈ ns.toList)
    (h : processOperation H orc ns text size (some j) = some r)
    (hnum : ∀ c ty, decodeCreate j = some c → ((GoJson.topObject j).bind fun top => GoJson.str top "type") = some ty →
      Props.C05.intsOnly (createRequestJson ty c) = true) :
    ∃ suffix initial, resolve H orc ns (ns ++ ":" ++ suffix ++ ":" ++ initial) = some r ∧
      ':' ∉ suffix.toList ∧ ':' ∉ initial.toList :=
  process_result_resolves_num H orc ns text size j r hns h
    (fun c ty hd hty => Props.C05.intsOnly_numsStable _ (hnum c ty hd hty))

theorem vdr_create_resolves_ints (H : HashFam) (orc : Oracles) (method : String) (ver : List Vdr.VerEntry)
    (services : List Client.DocService) (aka : List String) (updateKey recoveryKey : Jwk) (r : Json)
    (h : Vdr.create H orc method ver services aka updateKey recoveryKey = some r)
    (hnum : ∀ text j c ty, (Vdr.createRequest H ver services aka updateKey recoveryKey).bind Client.requestText = some text →
      Parse.parse text.toList = some j → decodeCreate j = some c →
      ((GoJson.topObject j).bind fun top => GoJson.str top "type") = some ty → Props.C05.intsOnly (createRequestJson ty c) = true) :
    ∃ suffix initial, resolve H orc ("did:" ++ method) ("did:" ++ method ++ ":" ++ suffix ++ ":" ++ initial) = some r :=
  vdr_create_resolves_num H orc method ver services aka updateKey recoveryKey r h
    (fun text j c ty ht hj hd hty => Props.C05.intsOnly_numsStable _ (hnum text j c ty ht hj hd hty))

/-- the number-free theorems are instances: a value without numbers has stable numbers only -/
theorem process_result_resolves_of_num (H : HashFam) (orc : Oracles) (ns : String) (text : Option (List Char)) (size : Nat)
    (j r : Json) (hns : ':' ∈ ns.toList)
    (h : processOperation H orc ns text size (some j) = some r)
    (hnum : ∀ c ty, decodeCreate j = some c → ((GoJson.topObject j).bind fun top => GoJson.str top "type") = some ty →
      RT.numFree (createRequestJson ty c) = true) :
    ∃ suffix initial, resolve H orc ns (ns ++ ":" ++ suffix ++ ":" ++ initial) = some r ∧
      ':' ∉ suffix.toList ∧ ':' ∉ initial.toList :=
  process_result_resolves_num H orc ns text size j r hns h
    (fun c ty hd hty => RT.numFree_numsStable _ (hnum c ty hd hty))

end Sidetree.Props.C17P
