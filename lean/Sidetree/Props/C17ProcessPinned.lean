/-
  C17 — the constructive direction, pinned: the long-form DID that resolves to the result
  `ProcessOperation` returned is the very DID that result carries — the `id` of its `didDocument`.
  (`process_result_resolves` and its `_num` / `_ints` forms only said that *some* DID of the shape
  `ns:suffix:initial` resolves to the result.)
-/
import Sidetree.Props.C17ProcessNum

namespace Sidetree.Props.C17P
open Sidetree Sidetree.Json Sidetree.Did Sidetree.Parser Sidetree.Framing Sidetree.Remarshal

theorem result_shape_doc (ctx md : Json) (document : List (String × Json)) :
    (Json.obj [("@context", ctx), ("didDocument", .obj document), ("didDocumentMetadata", md)]).get? "didDocument" =
      some (.obj document) := by
  simp [Json.get?, Json.lookup]

theorem result_shape_md (ctx md : Json) (document : List (String × Json)) :
    (Json.obj [("@context", ctx), ("didDocument", .obj document), ("didDocumentMetadata", md)]).get? "didDocumentMetadata" =
      some md := by
  simp [Json.get?, Json.lookup]

theorem document_id (a r1 r2 r3 : List (String × Json)) (c d : Json) (ha : a = [] ∨ ∃ v, a = [("alsoKnownAs", v)]) :
    (Json.obj (a ++ [("@context", c), ("id", d)] ++ r1 ++ r2 ++ r3)).get? "id" = some d := by
  rcases ha with rfl | ⟨v, rfl⟩ <;> simp [Json.get?, Json.lookup]

/-- **the DID transformer writes the id of the transformation info into the document**: the result
    is `{"@context", "didDocument", "didDocumentMetadata"}` and `didDocument.id` is `info.id` -/
theorem transform_id (o : TransformOpts) (rm : RM) (info : Json) (pub unpub : List OpRef) (r : Json)
    (h : Transformer.transform o rm info pub unpub = some r) :
    ∃ did doc md, info.get? "id" = some (.str did) ∧ r.get? "didDocument" = some doc ∧
      doc.get? "id" = some (.str did) ∧ r.get? "didDocumentMetadata" = some md := by
  unfold Transformer.transform at h
  split at h
  · rename_i md did doc hmd hid hdoc
    simp only at h
    split at h
    · cases h
    · rename_i vms _
      simp only [Option.some.injEq] at h
      subst h
      refine ⟨did, _, md, hid, result_shape_doc _ _ _, ?_, result_shape_md _ _ _⟩
      apply document_id
      split
      · exact .inl rfl
      · exact .inr ⟨_, rfl⟩
  · cases h

theorem createResponse_id (H : HashFam) (orc : Oracles) (suffix : String) (req : Json) (size : Nat) (info r : Json)
    (h : createResponse H orc suffix req size info = some r) :
    ∃ did doc md, info.get? "id" = some (.str did) ∧ r.get? "didDocument" = some doc ∧
      doc.get? "id" = some (.str did) ∧ r.get? "didDocumentMetadata" = some md := by
  unfold createResponse at h
  simp only at h
  split at h
  · split at h
    · cases h
    · exact transform_id _ _ _ _ _ r h
    · cases h
  · cases h

theorem unpublishedInfo_id (ns suffix jcs : String) (h : jcs ≠ "") :
    (unpublishedInfo ns suffix jcs).get? "id" = some (.str (ns ++ ":" ++ suffix ++ ":" ++ jcs)) := by
  simp [unpublishedInfo, Json.get?, Json.lookup, h]

theorem parseInitialState_empty : parseInitialState "" = none := by rfl

/-- **the DID `ProcessOperation` returns — the `id` of the `didDocument` in its result — resolves,
    on the same handler, to the very result that was returned** (numbers stable). The result also
    carries its `didDocumentMetadata` (whose `equivalentId` holds the short form `ns:suffix`; that
    one is not pinned here). -/
theorem process_result_resolves_pinned (H : HashFam) (orc : Oracles) (ns : String) (text : Option (List Char)) (size : Nat)
    (j r : Json) (hns : ':' ∈ ns.toList)
    (h : processOperation H orc ns text size (some j) = some r)
    (hnum : ∀ c ty, decodeCreate j = some c → ((GoJson.topObject j).bind fun top => GoJson.str top "type") = some ty →
      (createRequestJson ty c).numsStable) :
    ∃ suffix initial, resolve H orc ns (ns ++ ":" ++ suffix ++ ":" ++ initial) = some r ∧
      ':' ∉ suffix.toList ∧ ':' ∉ initial.toList ∧
      (∃ doc, r.get? "didDocument" = some doc ∧ doc.get? "id" = some (.str (ns ++ ":" ++ suffix ++ ":" ++ initial))) ∧
      (∃ md, r.get? "didDocumentMetadata" = some md) := by
  unfold processOperation at h
  cases hp : Parser.parse H defaultCfg orc ns size (some j) with
  | none => simp [hp] at h
  | some op =>
    simp only [hp] at h
    by_cases hcreate : op.type = .create
    · simp only [hcreate, ne_eq, not_true_eq_false, if_false] at h
      unfold canonicalRequestOf at h
      cases hd : decodeCreate j with
      | none => simp [hd] at h
      | some c =>
        cases hty : (GoJson.topObject j).bind fun top => GoJson.str top "type" with
        | none => simp [hd, hty] at h
        | some ty =>
          simp only [hd, hty] at h
          cases hc : transformValue (createRequestJson ty c) with
          | none => simp [hc] at h
          | some canon =>
            simp only [hc] at h
            cases hcj : Parse.parse canon with
            | none => simp [hcj] at h
            | some cj =>
              simp only [hcj] at h
              cases hcop : Parser.parse H defaultCfg orc ns (utf8Len (String.ofList canon)) (some cj) with
              | none => simp [hcop] at h
              | some cop =>
                simp only [hcop] at h
                -- the request's type is "create"
                have hrt := (C07.parse_result H defaultCfg orc ns size (some j) op hp).2
                have htyc : ty = "create" := by
                  simp only [requestType, Option.bind_some] at hrt
                  rw [hty, hcreate] at hrt
                  exact ofString_create ty (by simpa using hrt)
                subst htyc
                obtain ⟨c', n, hparse, hd', htyn, hpi, htv⟩ :=
                  parseInitialState_canonical_num "create" c canon (decodeCreate_wf j c hd) (.inr rfl) (hnum c "create" hd hty) hc
                rw [hcj] at hparse
                cases hparse
                -- the suffix is a multihash, hence colon-free
                obtain ⟨c2, alg, _, _, hsuf, _, _⟩ := C03.create_self_certifying H defaultCfg orc ns _ cj cop
                  (by simp only [requestType, Option.bind_some, htyn]; rfl) hcop
                have hini : b64EncodeStr (bytesOfString (String.ofList canon)) ≠ "" := by
                  intro e; rw [e, parseInitialState_empty] at hpi; cases hpi
                obtain ⟨did, doc, md, hid, hdoc, hdid, hmd⟩ := createResponse_id H orc _ _ _ _ r h
                rw [unpublishedInfo_id ns cop.uniqueSuffix _ hini] at hid
                cases hid
                refine ⟨cop.uniqueSuffix, b64EncodeStr (bytesOfString (String.ofList canon)), ?_, multihash_no_colon H _ alg _ hsuf, b64_no_colon _,
                  ⟨doc, hdoc, hdid⟩, ⟨md, hmd⟩⟩
                rw [← h]
                exact DidText.resolve_long H orc ns cop.uniqueSuffix _ c' canon cj cop hns (multihash_no_colon H _ alg _ hsuf)
                  (b64_no_colon _) hpi htv hcj hcop rfl
    · simp [hcreate] at h


/-- … in particular when the numbers of the re-marshalled request are plain integers below 2^53 -/
theorem process_result_resolves_pinned_ints (H : HashFam) (orc : Oracles) (ns : String) (text : Option (List Char)) (size : Nat)
    (j r : Json) (hns : ':' ∈ ns.toList)
    (h : processOperation H orc ns text size (some j) = some r)
    (hnum : ∀ c ty, decodeCreate j = some c → ((GoJson.topObject j).bind fun top => GoJson.str top "type") = some ty →
      Props.C05.intsOnly (createRequestJson ty c) = true) :
    ∃ suffix initial, resolve H orc ns (ns ++ ":" ++ suffix ++ ":" ++ initial) = some r ∧
      ':' ∉ suffix.toList ∧ ':' ∉ initial.toList ∧
      (∃ doc, r.get? "didDocument" = some doc ∧ doc.get? "id" = some (.str (ns ++ ":" ++ suffix ++ ":" ++ initial))) ∧
      (∃ md, r.get? "didDocumentMetadata" = some md) :=
  process_result_resolves_pinned H orc ns text size j r hns h
    (fun c ty hd hty => Props.C05.intsOnly_numsStable _ (hnum c ty hd hty))

/-- the DID is determined by the result: whatever string resolves this way is read off `r` -/
theorem process_result_did_unique (doc : Json) (d1 d2 : String)
    (h1 : doc.get? "id" = some (.str d1)) (h2 : doc.get? "id" = some (.str d2)) :
    d1 = d2 := by
  rw [h1] at h2; cases h2; rfl

end Sidetree.Props.C17P
