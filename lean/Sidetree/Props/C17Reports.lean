/-
  C17 — what an offline resolution reports: published = false, the short form as equivalent id,
  the recovery commitment and anchor origin of the suffix data embedded in the DID, the update
  commitment of the embedded delta, and a document that is the composer's result for the embedded
  delta's patches on the empty document (`resolve_is_what_was_created`).
-/
import Sidetree.Props.C17
import Sidetree.Props.C18

namespace Sidetree.Props.C17R
open Sidetree Sidetree.Did Sidetree.Applier

variable (H : HashFam) (orc : Oracles)

/-- the state a create produces carries the recovery commitment and anchor origin of the request's
    suffix data, whatever happens to the delta -/
theorem applyCreate_carries (cfg : Protocol) (op : AnchoredOp) (rm rm' : RM) (p : ParsedOp)
    (h : applyCreate H cfg orc op rm p = .ok rm') :
    rm'.recoveryCommitment = (p.suffixData.getD default).recoveryCommitment ∧
    rm'.anchorOrigin = (p.suffixData.getD default).anchorOrigin ∧ rm'.deactivated = false ∧
    (rm'.updateCommitment = "" ∨ rm'.updateCommitment = (p.delta.getD default).updateCommitment) := by
  unfold applyCreate at h
  simp only at h
  split at h
  · cases h; simp
  · split at h
    · cases h; simp
    · split at h
      · cases h; simp
      · cases h; simp
      · cases h

/-- a create that leaves a non-empty document behind applied its delta: the delta is hash-bound and
    valid, the document is the composer's result for the delta's patches on the empty document, and
    the update commitment is the delta's -/
theorem applyCreate_nonempty (cfg : Protocol) (op : AnchoredOp) (rm rm' : RM) (p : ParsedOp) (kv : String × Json) (rest : List (String × Json))
    (h : applyCreate H cfg orc op rm p = .ok rm') (hdoc : rm'.doc = some (.obj (kv :: rest))) :
    Hashing.isValidModelMultihash H (deltaJson p.delta) (p.suffixData.getD default).deltaHash = true ∧
    Parser.validateDelta cfg orc p.delta = true ∧
    Composer.applyPatches (.obj []) ((p.delta.bind (·.patches)).getD []) = .ok (.obj (kv :: rest)) ∧
    rm'.updateCommitment = (p.delta.getD default).updateCommitment := by
  unfold applyCreate at h
  simp only at h
  split at h
  · cases h; simp [emptyDoc] at hdoc
  · rename_i h1
    split at h
    · cases h; simp [emptyDoc] at hdoc
    · rename_i h2
      simp only [patched, emptyDoc] at h
      cases hc : Composer.applyPatches (.obj []) ((p.delta.bind (·.patches)).getD []) with
      | ok d =>
        simp only [hc] at h
        cases h
        simp only [Option.some.injEq] at hdoc
        subst hdoc
        exact ⟨by simpa using h1, by simpa using h2, rfl, rfl⟩
      | err => simp only [hc] at h; cases h; simp at hdoc
      | blowup => simp only [hc] at h; cases h

/-- a transformation result exposes the metadata it was built with -/
theorem transform_metadata (o : TransformOpts) (rm : RM) (info : Json) (pub unpub : List OpRef) (r : Json)
    (h : Transformer.transform o rm info pub unpub = some r) :
    ∃ md, Transformer.metadata o rm info pub unpub = some md ∧ r.get? "didDocumentMetadata" = some md := by
  unfold Transformer.transform at h
  cases hm : Transformer.metadata o rm info pub unpub with
  | none => simp [hm] at h
  | some md =>
    cases hid : info.get? "id" with
    | none => simp [hm, hid] at h
    | some idv =>
      cases idv with
      | str did =>
        cases hdoc : rm.doc with
        | none => simp [hm, hid, hdoc] at h
        | some doc =>
          simp only [hm, hid, hdoc] at h
          cases hk : mapM? (Transformer.externalKey o did) (Patch.objectEntries (doc.get? "publicKey")) with
          | none => simp [hk] at h
          | some vms =>
            simp only [hk, Option.some.injEq] at h
            subst h
            exact ⟨md, rfl, by simp [Json.get?, Json.lookup]⟩
      | _ => simp [hm, hid] at h

theorem parseInitialState_empty : parseInitialState "" = none := by decide

theorem long_initial_ne_empty (ns did did' initial : String) (req : Json) (size : Nat)
    (h : parseDID ns did = .long did' initial req size) : initial ≠ "" := by
  intro e
  unfold parseDID at h
  simp only at h
  split at h
  · cases h
  · split at h
    · cases h
    · rename_i idx hidx
      split at h
      · cases h
      · rename_i c hc
        split at h
        · split at h
          · simp only [ParsedDID.long.injEq] at h
            obtain ⟨_, hi, _, _⟩ := h
            rw [hi, e] at hc
            rw [parseInitialState_empty] at hc
            cases hc
          · cases h
        · cases h

/-- **what offline resolution reports**: the result's method metadata carries the recovery
    commitment of the suffix data embedded in the DID, `published = false`, the equivalent id is
    the short form, and the document id is the long-form DID that was asked for -/
theorem resolve_reports (ns did : String) (r : Json) (h : Did.resolve H orc ns did = some r) :
    ∃ did' initial req size op md method,
      parseDID ns did = .long did' initial req size ∧
      Parser.parse H defaultCfg orc ns size (some req) = some op ∧
      r.get? "didDocumentMetadata" = some md ∧ md.get? "method" = some method ∧
      method.get? "published" = some (.bool false) ∧
      md.get? "equivalentId" = some (.arr [.str (ns ++ ":" ++ op.uniqueSuffix)]) ∧
      (∃ rm, Applier.apply H defaultCfg orc
          { type := "create", uniqueSuffix := op.uniqueSuffix, size := size, request := some req, transactionTime := 0,
            transactionNumber := 0, protocolVersion := defaultCfg.genesisTime, canonicalReference := "", equivalentReferences := none } {} = .ok rm ∧
        method.get? "recoveryCommitment" = (if rm.recoveryCommitment = "" then none else some (.str rm.recoveryCommitment)) ∧
        method.get? "updateCommitment" = (if rm.updateCommitment = "" then none else some (.str rm.updateCommitment)) ∧
        method.get? "anchorOrigin" = rm.anchorOrigin ∧
        (∃ kv rest, rm.doc = some (.obj (kv :: rest))) ∧
        Transformer.transform defaultOpts rm (unpublishedInfo ns op.uniqueSuffix initial) [] [] = some r) := by
  obtain ⟨hpre, did', initial, req, size, op, hp, hparse, hlast, hlen, hdid⟩ := C17.resolve_shape H orc ns did r h
  have hsuffix : String.ofList ((splitColon did'.toList).getLast?.getD []) = op.uniqueSuffix := by
    rw [hlast]; simp
  have hlen' : ¬ (splitColon did'.toList).length < 3 := by omega
  simp only [Did.resolve, hpre, Bool.not_true, Bool.false_eq_true, if_false, hp, hlen', hparse, hsuffix, ne_eq,
    not_true_eq_false] at h
  have hnot : ¬ (¬ did' = ns ++ ":" ++ op.uniqueSuffix) := fun hc => hc hdid
  rw [if_neg hnot] at h
  unfold createResponse at h
  simp only at h
  cases happ : Applier.apply H defaultCfg orc
      { type := "create", uniqueSuffix := op.uniqueSuffix, size := size, request := some req, transactionTime := 0,
        transactionNumber := 0, protocolVersion := defaultCfg.genesisTime, canonicalReference := "", equivalentReferences := none } {} with
  | ok rm =>
    simp only [happ] at h
    cases hdoc : rm.doc with
    | none => simp [hdoc] at h
    | some doc =>
      simp only [hdoc] at h
      cases doc with
      | obj kvs =>
        cases kvs with
        | nil => simp at h
        | cons kv rest =>
          simp only at h
          obtain ⟨md, hmd, hget⟩ := transform_metadata _ _ _ _ _ _ h
          obtain ⟨published, method, hpub, hmeth, hmp, hrc, huc, hao, _⟩ := C18.metadata_method_fields _ _ _ _ _ _ hmd
          obtain ⟨_, _, _, _, heq, _⟩ := C18.metadata_fields _ _ _ _ _ _ hmd
          refine ⟨did', initial, req, size, op, md, method, hp, hparse, hget, hmeth, ?_, ?_, rm, happ, hrc, huc, hao,
            ⟨kv, rest, hdoc⟩, h⟩
          · have : published = false := by
              have h1 : (unpublishedInfo ns op.uniqueSuffix initial).get? "published" = some (.bool false) := by
                simp [unpublishedInfo, Json.get?, Json.lookup]
              rw [h1] at hpub
              cases hpub; rfl
            rw [this] at hmp; exact hmp
          · rw [heq]
            exact (C17.unpublished_info ns op.uniqueSuffix initial (long_initial_ne_empty ns did did' initial req size hp)).2.1
      | _ => simp at h
  | refused => simp [happ] at h
  | outOfDomain => simp [happ] at h
  | blowup => simp [happ] at h

/-- applying a create to the empty state: the new state's recovery commitment and anchor origin
    are those of the suffix data the request decodes to -/
theorem apply_create_carries (cfg : Protocol) (op : AnchoredOp) (req : Json) (rm : RM)
    (hty : op.type = "create") (hreq : op.request = some req)
    (h : Applier.apply H cfg orc op {} = .ok rm) :
    ∃ c, Parser.decodeCreate req = some c ∧ Parser.validateSuffixData cfg c.suffixData = true ∧
      rm.recoveryCommitment = (c.suffixData.getD default).recoveryCommitment ∧
      rm.anchorOrigin = (c.suffixData.getD default).anchorOrigin ∧ rm.deactivated = false := by
  unfold Applier.apply at h
  simp only [hty, OpType.ofString?] at h
  split at h
  · cases h
  · cases hp : Applier.parseAs H cfg orc .create op with
    | none => simp [hp] at h
    | some p =>
      simp only [hp] at h
      obtain ⟨h1, h2, h3, _⟩ := applyCreate_carries H orc cfg op {} rm p h
      simp only [Applier.parseAs, hreq] at hp
      obtain ⟨c, alg, suffix, hc, hvs, _, _, _, rfl⟩ := Parser.parseCreate_inv H cfg orc req true p hp
      exact ⟨c, hc, hvs, h1, h2, h3⟩

theorem multihashOK_ne_empty (cfg : Protocol) (mh : String) (h : Parser.multihashOK cfg mh = true) : mh ≠ "" := by
  intro e
  subst e
  have e : Hashing.getMultihashCode "" = none := by decide
  simp [Parser.multihashOK, Hashing.isComputedUsing, e] at h

/-- **the long-form DID's own commitments are reported**: the recovery commitment in the method
    metadata of an offline resolution is the one in the suffix data embedded in the DID -/
theorem resolve_reports_recovery_commitment (ns did : String) (r : Json) (h : Did.resolve H orc ns did = some r) :
    ∃ did' initial req size c sd md method,
      parseDID ns did = .long did' initial req size ∧ Parser.decodeCreate req = some c ∧ c.suffixData = some sd ∧
      r.get? "didDocumentMetadata" = some md ∧ md.get? "method" = some method ∧
      method.get? "recoveryCommitment" = some (.str sd.recoveryCommitment) ∧
      method.get? "anchorOrigin" = sd.anchorOrigin := by
  obtain ⟨did', initial, req, size, op, md, method, hp, _, hget, hmeth, _, _, rm, happ, hrc, _, hao, _, _⟩ := resolve_reports H orc ns did r h
  obtain ⟨c, hc, hvs, h1, h2, _⟩ := apply_create_carries H orc defaultCfg _ req rm rfl rfl happ
  cases hsd : c.suffixData with
  | none => simp [hsd, Parser.validateSuffixData] at hvs
  | some sd =>
    simp only [hsd, Option.getD_some] at h1 h2
    simp only [hsd, Parser.validateSuffixData, Bool.and_eq_true] at hvs
    have hne := multihashOK_ne_empty defaultCfg _ hvs.1
    rw [h1] at hrc
    simp only [hne, if_false] at hrc
    rw [h2] at hao
    exact ⟨did', initial, req, size, c, sd, md, method, hp, hc, hsd, hget, hmeth, hrc, hao⟩

/-- applying a create to the empty state and getting a non-empty document: the document is the
    composer's result for the patches of the delta the request decodes to -/
theorem apply_create_document (cfg : Protocol) (op : AnchoredOp) (req : Json) (rm : RM) (kv : String × Json) (rest : List (String × Json))
    (hty : op.type = "create") (hreq : op.request = some req)
    (h : Applier.apply H cfg orc op {} = .ok rm) (hdoc : rm.doc = some (.obj (kv :: rest))) :
    ∃ c d, Parser.decodeCreate req = some c ∧ c.delta = some d ∧ Parser.validateDelta cfg orc (some d) = true ∧
      Hashing.isValidModelMultihash H d.toJson (c.suffixData.getD default).deltaHash = true ∧
      Composer.applyPatches (.obj []) (d.patches.getD []) = .ok (.obj (kv :: rest)) ∧
      rm.updateCommitment = d.updateCommitment := by
  unfold Applier.apply at h
  simp only [hty, OpType.ofString?] at h
  split at h
  · cases h
  · cases hp : Applier.parseAs H cfg orc .create op with
    | none => simp [hp] at h
    | some p =>
      simp only [hp] at h
      obtain ⟨h1, h2, h3, h4⟩ := applyCreate_nonempty H orc cfg op {} rm p kv rest h hdoc
      simp only [Applier.parseAs, hreq] at hp
      obtain ⟨c, alg, suffix, hc, _, _, _, _, rfl⟩ := Parser.parseCreate_inv H cfg orc req true p hp
      simp only at h1 h2 h3 h4
      cases hd : c.delta with
      | none => simp [hd, Parser.validateDelta] at h2
      | some d =>
        simp only [hd, Option.bind_some, Option.getD_some, deltaJson] at h1 h2 h3 h4
        exact ⟨c, d, hc, hd, h2, h1, h3, h4⟩

theorem validateDelta_commitment (cfg : Protocol) (d : Delta) (h : Parser.validateDelta cfg orc (some d) = true) :
    Parser.multihashOK cfg d.updateCommitment = true := by
  simp only [Parser.validateDelta] at h
  split at h
  · cases h
  · cases h
  · simp only [Bool.and_eq_true] at h
    exact h.1.2

/-- **a long-form DID resolves to what was created**: the result is the transformation of a state
    whose document is the composer's result for the patches of the delta embedded in the DID on the
    empty document; that delta is valid and hashes to the delta hash of the embedded suffix data;
    and the method metadata reports the embedded request's update and recovery commitments -/
theorem resolve_is_what_was_created (ns did : String) (r : Json) (h : Did.resolve H orc ns did = some r) :
    ∃ did' initial req size c sd d doc rm md method suffix,
      parseDID ns did = .long did' initial req size ∧ Parser.decodeCreate req = some c ∧
      c.suffixData = some sd ∧ c.delta = some d ∧
      Hashing.isValidModelMultihash H d.toJson sd.deltaHash = true ∧
      Composer.applyPatches (.obj []) (d.patches.getD []) = .ok doc ∧ rm.doc = some doc ∧
      Transformer.transform defaultOpts rm (unpublishedInfo ns suffix initial) [] [] = some r ∧
      r.get? "didDocumentMetadata" = some md ∧ md.get? "method" = some method ∧
      method.get? "updateCommitment" = some (.str d.updateCommitment) ∧
      method.get? "recoveryCommitment" = some (.str sd.recoveryCommitment) := by
  obtain ⟨did', initial, req, size, op, md, method, hp, _, hget, hmeth, _, _, rm, happ, hrc, huc, _, ⟨kv, rest, hdoc⟩, htr⟩ :=
    resolve_reports H orc ns did r h
  obtain ⟨c, d, hc, hd, hvd, hdh, hcomp, hucd⟩ := apply_create_document H orc defaultCfg _ req rm kv rest rfl rfl happ hdoc
  obtain ⟨c', hc', hvs, h1, _, _⟩ := apply_create_carries H orc defaultCfg _ req rm rfl rfl happ
  rw [hc] at hc'
  cases hc'
  cases hsd : c.suffixData with
  | none => simp [hsd, Parser.validateSuffixData] at hvs
  | some sd =>
    simp only [hsd, Option.getD_some] at h1
    simp only [hsd, Option.getD_some] at hdh
    simp only [hsd, Parser.validateSuffixData, Bool.and_eq_true] at hvs
    have hne := multihashOK_ne_empty defaultCfg _ hvs.1
    have hne2 := multihashOK_ne_empty defaultCfg _ (validateDelta_commitment orc defaultCfg d hvd)
    rw [h1] at hrc
    simp only [hne, if_false] at hrc
    rw [hucd] at huc
    simp only [hne2, if_false] at huc
    exact ⟨did', initial, req, size, c, sd, d, _, rm, md, method, op.uniqueSuffix, hp, hc, hsd, hd, hdh, hcomp, hdoc, htr, hget, hmeth, huc, hrc⟩

end Sidetree.Props.C17R
