/-
  C17 (VDR half): the keys `VDR.Create` collects from a did-go document — every key once, with
  exactly the purposes of the relationships that list it, whatever spelling of the id each
  reference uses.
-/
import Sidetree.Vdr
namespace Sidetree.Props.C17Vdr
open Sidetree Sidetree.Client Sidetree.Vdr

/-- purposes recorded for key `kid` in a key list -/
def purposesFor (ks : List DocKey) (kid : String) : List String :=
  ks.flatMap fun k => if k.id = kid then k.purposes.getD [] else []

/-- purposes the document's relationship lists give key `kid` -/
def listedFor (ver : List VerEntry) (kid : String) : List String :=
  (ver.filter fun v => fragment v.id = kid).map (·.purpose)

@[simp] theorem addPurpose_id (k : DocKey) (p : String) : (addPurpose k p).id = k.id := rfl

theorem purposesFor_append (a b : List DocKey) (kid : String) : purposesFor (a ++ b) kid = purposesFor a kid ++ purposesFor b kid := by
  simp [purposesFor]

theorem purposesFor_absent (acc : List DocKey) (kid : String) (h : acc.any (·.id = kid) = false) : purposesFor acc kid = [] := by
  induction acc with
  | nil => rfl
  | cons k ks ih =>
    simp only [List.any_cons, Bool.or_eq_false_iff, decide_eq_false_iff_not] at h
    simp [purposesFor, h.1] 
    have := ih h.2
    simpa [purposesFor] using this

theorem purposesFor_addPurpose (acc : List DocKey) (kid id' p : String) (hn : (acc.map (·.id)).Nodup) (hin : acc.any (·.id = id') = true) :
    purposesFor (acc.map fun k => if k.id = id' then addPurpose k p else k) kid =
      purposesFor acc kid ++ (if kid = id' then [p] else []) := by
  induction acc with
  | nil => simp at hin
  | cons k ks ih =>
    simp only [List.map_cons, List.nodup_cons, List.mem_map, not_exists, not_and] at hn
    by_cases hk : k.id = id'
    · have habs : ks.any (·.id = id') = false := by
        rw [List.any_eq_false]
        intro x hx
        simp only [decide_eq_true_eq]
        intro e
        exact hn.1 x hx (by rw [e, hk])
      have hmap : (ks.map fun k => if k.id = id' then addPurpose k p else k) = ks := by
        have hc : ∀ x ∈ ks, (fun k => if k.id = id' then addPurpose k p else k) x = id x := by
          intro x hx
          have := (List.any_eq_false.mp habs) x hx
          simp only [decide_eq_true_eq] at this
          simp [this]
        rw [List.map_congr_left hc, List.map_id]
      simp only [List.map_cons, hk, if_true, hmap]
      by_cases hid : kid = id'
      · subst hid
        have : purposesFor ks kid = [] := purposesFor_absent ks kid habs
        simp only [purposesFor] at this
        simp [purposesFor, addPurpose, hk, this]
      · have hne : ¬ k.id = kid := fun e => hid (by rw [← e, hk])
        simp [purposesFor, hk, hid, Ne.symm hid]
    · have hin' : ks.any (·.id = id') = true := by
        simp only [List.any_cons, hk, decide_false, Bool.false_or] at hin
        exact hin
      have := ih hn.2 hin'
      simp only [List.map_cons, hk, if_false]
      simp only [purposesFor, List.flatMap_cons] at this ⊢
      rw [this]
      simp [List.append_assoc]

theorem ids_addPurpose (acc : List DocKey) (id' p : String) :
    (acc.map fun k => if k.id = id' then addPurpose k p else k).map (·.id) = acc.map (·.id) := by
  induction acc with
  | nil => rfl
  | cons k ks ih =>
    simp only [List.map_cons, List.map_map] at ih ⊢
    by_cases hk : k.id = id' <;> simp [hk, ih]

/-- **every key once**: the keys collected from the relationship lists have pairwise distinct ids -/
theorem collect_nodup : ∀ (ver : List VerEntry) (acc ks : List DocKey),
    (acc.map (·.id)).Nodup → collect ver acc = some ks → (ks.map (·.id)).Nodup
  | [], acc, ks, hn, h => by simp [collect] at h; subst h; exact hn
  | v :: rest, acc, ks, hn, h => by
    unfold collect at h
    simp only at h
    by_cases hin : acc.any (·.id = fragment v.id) = true
    · rw [if_pos hin] at h
      exact collect_nodup rest _ ks (by rw [ids_addPurpose]; exact hn) h
    · rw [if_neg hin] at h
      have hnot : fragment v.id ∉ acc.map (·.id) := by
        intro hm
        apply hin
        obtain ⟨x, hx, e⟩ := List.mem_map.mp hm
        exact List.any_eq_true.mpr ⟨x, hx, by simpa using e⟩
      cases hj : v.jwk with
      | some j =>
        simp only [hj] at h
        refine collect_nodup rest _ ks ?_ h
        simp only [List.map_append, List.map_cons, List.map_nil]
        exact List.nodup_append.mpr ⟨hn, by simp, by simpa using hnot⟩
      | none =>
        cases hv : v.value with
        | none => simp [hj, hv] at h
        | some bs =>
          simp only [hj, hv] at h
          refine collect_nodup rest _ ks ?_ h
          simp only [List.map_append, List.map_cons, List.map_nil]
          exact List.nodup_append.mpr ⟨hn, by simp, by simpa using hnot⟩

/-- **with exactly its purposes**: the purposes recorded for a key are the ones the relationship
    lists give it, in list order, one per reference -/
theorem collect_purposes : ∀ (ver : List VerEntry) (acc ks : List DocKey) (kid : String),
    (acc.map (·.id)).Nodup → collect ver acc = some ks →
    purposesFor ks kid = purposesFor acc kid ++ listedFor ver kid
  | [], acc, ks, kid, _, h => by simp [collect] at h; subst h; simp [listedFor]
  | v :: rest, acc, ks, kid, hn, h => by
    unfold collect at h
    simp only at h
    have hl : listedFor (v :: rest) kid = (if kid = fragment v.id then [v.purpose] else []) ++ listedFor rest kid := by
      by_cases e : fragment v.id = kid
      · simp [listedFor, e]
      · have e' : ¬ kid = fragment v.id := fun x => e x.symm
        simp [listedFor, e, e']
    by_cases hin : acc.any (·.id = fragment v.id) = true
    · rw [if_pos hin] at h
      have := collect_purposes rest _ ks kid (by rw [ids_addPurpose]; exact hn) h
      rw [this, purposesFor_addPurpose acc kid (fragment v.id) v.purpose hn hin, hl, List.append_assoc]
    · rw [if_neg hin] at h
      have habs : acc.any (·.id = fragment v.id) = false := by simpa using hin
      have hnot : fragment v.id ∉ acc.map (·.id) := by
        intro hm
        apply hin
        obtain ⟨x, hx, e⟩ := List.mem_map.mp hm
        exact List.any_eq_true.mpr ⟨x, hx, by simpa using e⟩
      have hnew : ∀ k : DocKey, k.id = fragment v.id → k.purposes = some [v.purpose] →
          (acc.map (·.id) ++ [k.id]).Nodup → collect rest (acc ++ [k]) = some ks →
          purposesFor ks kid = purposesFor acc kid ++ listedFor (v :: rest) kid := by
        intro k hk hp hnd hc
        have := collect_purposes rest (acc ++ [k]) ks kid (by simpa using hnd) hc
        rw [this, purposesFor_append, hl, List.append_assoc]
        congr 1
        by_cases e : kid = fragment v.id
        · simp [purposesFor, hk, hp, e]
        · have e' : ¬ fragment v.id = kid := fun x => e x.symm
          simp [purposesFor, hk, e, e']
      have hnd : (acc.map (·.id) ++ [fragment v.id]).Nodup := List.nodup_append.mpr ⟨hn, by simp, by simpa using hnot⟩
      cases hj : v.jwk with
      | some j =>
        simp only [hj] at h
        exact hnew _ rfl rfl hnd h
      | none =>
        cases hv : v.value with
        | none => simp [hj, hv] at h
        | some bs =>
          simp only [hj, hv] at h
          exact hnew _ rfl rfl hnd h

/-- from an empty map: each key id appears once, carrying exactly the listed purposes -/
theorem getSidetreePublicKeys_exact (ver : List VerEntry) (ks : List DocKey) (h : collect ver [] = some ks) :
    (ks.map (·.id)).Nodup ∧ ∀ kid, purposesFor ks kid = listedFor ver kid := by
  refine ⟨collect_nodup ver [] ks (by simp) h, fun kid => ?_⟩
  have := collect_purposes ver [] ks kid (by simp) h
  simpa [purposesFor] using this

end Sidetree.Props.C17Vdr
