/-
  C18 — resolution results expose every key, service and metadata item correctly.
-/
import Sidetree.Transformer
import Sidetree.Did

namespace Sidetree.Props.C18
open Sidetree Sidetree.Transformer Sidetree.Patch

/-! ### anchoring order -/

theorem opLe_total (a b : OpRef) : (opLe a b || opLe b a) = true := by
  simp only [opLe, Bool.or_eq_true, Bool.and_eq_true, decide_eq_true_eq, beq_iff_eq]
  omega

theorem opLe_trans (a b c : OpRef) (h1 : opLe a b = true) (h2 : opLe b c = true) : opLe a c = true := by
  simp only [opLe, Bool.or_eq_true, Bool.and_eq_true, decide_eq_true_eq, beq_iff_eq] at *
  omega

/-- `opLe` is the lexicographic order on (transaction time, transaction number) -/
theorem opLe_iff (a b : OpRef) :
    opLe a b = true ↔ (a.time < b.time ∨ (a.time = b.time ∧ a.number ≤ b.number)) := by
  simp [opLe]

/-- operations are listed in anchoring order: a permutation of the input, sorted by transaction
    time and then transaction number -/
theorem sorted_perm (ops : List OpRef) :
    (sortOps ops).Perm ops ∧ (sortOps ops).Pairwise (fun a b => opLe a b = true) :=
  ⟨List.mergeSort_perm ops opLe, List.pairwise_mergeSort (le := opLe) opLe_trans opLe_total ops⟩

/-- unpublished operations: all of them, in anchoring order -/
theorem unpublished_all (ops : List OpRef) :
    (unpublishedOps ops).Perm ops ∧ (unpublishedOps ops).Pairwise (fun a b => opLe a b = true) := sorted_perm ops

theorem dedup_sublist : ∀ (ops : List OpRef) (seen : List String), (dedupByRef ops seen).Sublist ops
  | [], _ => List.Sublist.slnil
  | o :: rest, seen => by
    simp only [dedupByRef]
    split
    · exact (dedup_sublist rest seen).cons _
    · exact (dedup_sublist rest _).cons₂ _

theorem dedup_refs_fresh : ∀ (ops : List OpRef) (seen : List String),
    (∀ o ∈ dedupByRef ops seen, o.canonicalReference ∉ seen) ∧ ((dedupByRef ops seen).map (·.canonicalReference)).Nodup
  | [], _ => by simp [dedupByRef]
  | o :: rest, seen => by
    by_cases h : seen.contains o.canonicalReference = true
    · rw [dedupByRef, if_pos h]
      exact dedup_refs_fresh rest seen
    · rw [dedupByRef, if_neg h]
      have ih := dedup_refs_fresh rest (o.canonicalReference :: seen)
      constructor
      · intro x hx
        rcases List.mem_cons.mp hx with rfl | hx
        · intro hm; exact h (List.contains_iff_mem.mpr hm)
        · intro hm
          exact ih.1 x hx (List.mem_cons_of_mem _ hm)
      · simp only [List.map_cons, List.nodup_cons]
        refine ⟨?_, ih.2⟩
        intro hm
        rcases List.mem_map.mp hm with ⟨x, hx, he⟩
        exact ih.1 x hx (by rw [he]; exact List.mem_cons_self ..)

/-- every canonical reference that occurs in the input occurs in the de-duplicated list -/
theorem dedup_complete : ∀ (ops : List OpRef) (seen : List String) (o : OpRef), o ∈ ops →
    o.canonicalReference ∈ seen ∨ o.canonicalReference ∈ (dedupByRef ops seen).map (·.canonicalReference)
  | [], _, _, h => by cases h
  | x :: rest, seen, o, h => by
    by_cases hs : seen.contains x.canonicalReference = true
    · rw [dedupByRef, if_pos hs]
      rcases List.mem_cons.mp h with rfl | h
      · left; exact List.contains_iff_mem.mp hs
      · exact dedup_complete rest seen o h
    · rw [dedupByRef, if_neg hs]
      simp only [List.map_cons, List.mem_cons]
      rcases List.mem_cons.mp h with rfl | h
      · right; left; rfl
      · rcases dedup_complete rest (x.canonicalReference :: seen) o h with h' | h'
        · rcases List.mem_cons.mp h' with e | h''
          · right; left; exact e
          · left; exact h''
        · right; right; exact h'

/-- published operations: in anchoring order, de-duplicated by canonical reference (no reference
    twice, none lost, every entry is one of the input operations) -/
theorem published_dedup (ops : List OpRef) :
    ((publishedOps ops).map (·.canonicalReference)).Nodup ∧
    (publishedOps ops).Sublist (sortOps ops) ∧
    (publishedOps ops).Pairwise (fun a b => opLe a b = true) ∧
    (∀ o ∈ ops, o.canonicalReference ∈ (publishedOps ops).map (·.canonicalReference)) := by
  refine ⟨(dedup_refs_fresh _ []).2, dedup_sublist _ [], (sorted_perm ops).2.sublist (dedup_sublist _ []), ?_⟩
  intro o ho
  have hm : o ∈ sortOps ops := (sorted_perm ops).1.symm.subset ho
  rcases dedup_complete (sortOps ops) [] o hm with h | h
  · cases h
  · exact h

/-! ### keys -/

theorem mapM?_length {α β} (f : α → Option β) : ∀ (xs : List α) (ys : List β), mapM? f xs = some ys → ys.length = xs.length
  | [], ys, h => by simp [mapM?] at h; subst h; rfl
  | x :: xs, ys, h => by
    simp only [mapM?] at h
    cases hx : f x with
    | none => simp [hx] at h
    | some y =>
      cases hr : mapM? f xs with
      | none => simp [hx, hr] at h
      | some rest =>
        simp only [hx, hr, Option.some.injEq] at h
        subst h
        simp [mapM?_length f xs rest hr]

theorem mapM?_mem {α β} (f : α → Option β) : ∀ (xs : List α) (ys : List β), mapM? f xs = some ys →
    ∀ y ∈ ys, ∃ x ∈ xs, f x = some y
  | [], ys, h, y, hy => by simp [mapM?] at h; subst h; cases hy
  | x :: xs, ys, h, y, hy => by
    simp only [mapM?] at h
    cases hx : f x with
    | none => simp [hx] at h
    | some y0 =>
      cases hr : mapM? f xs with
      | none => simp [hx, hr] at h
      | some rest =>
        simp only [hx, hr, Option.some.injEq] at h
        subst h
        rcases List.mem_cons.mp hy with rfl | hy
        · exact ⟨x, List.mem_cons_self .., hx⟩
        · obtain ⟨x', hx', hf⟩ := mapM?_mem f xs rest hr y hy
          exact ⟨x', List.mem_cons_of_mem _ hx', hf⟩

/-- every internal key is emitted exactly once as a verification method: as many methods as keys -/
theorem every_key_once (o : TransformOpts) (did : String) (keys vms : List Json)
    (h : mapM? (externalKey o did) keys = some vms) : vms.length = keys.length :=
  mapM?_length _ keys vms h

/-- each verification method has id = DID#key-id (or the relative #key-id under an @base
    context), the key's type, and controller = DID -/
theorem key_fields (o : TransformOpts) (did : String) (pk vm : Json) (h : externalKey o did pk = some vm) :
    vm.get? "id" = some (.str (objectID o did (stringEntry (pk.get? "id")))) ∧
    vm.get? "type" = some (.str (stringEntry (pk.get? "type"))) ∧
    vm.get? "controller" = some (.str did) := by
  unfold externalKey at h
  simp only at h
  split at h
  · cases h
    simp [Json.get?, Json.lookup]
  · cases h

theorem objectID_forms (o : TransformOpts) (did id : String) :
    objectID o did id = if o.includeBase then "#" ++ id else did ++ "#" ++ id := rfl

/-- key material is preserved, or converted to base58 / multibase for the Ed25519 2018 / 2020 types -/
theorem key_material_jwk_preserved (o : TransformOpts) (did : String) (pk vm : Json) (jwk : List (String × Json))
    (hj : pk.get? "publicKeyJwk" = some (.obj jwk))
    (hty : stringEntry (pk.get? "type") ≠ "Ed25519VerificationKey2018" ∧ stringEntry (pk.get? "type") ≠ "Ed25519VerificationKey2020")
    (h : externalKey o did pk = some vm) : vm.get? "publicKeyJwk" = some (.obj jwk) := by
  unfold externalKey at h
  simp only [hj, hty.1, hty.2, if_false] at h
  cases hl : o.keyCtx.lookup (stringEntry (pk.get? "type")) with
  | none => simp [hl] at h
  | some c =>
    simp only [hl, Option.some.injEq] at h
    subst h
    simp [Json.get?, Json.lookup]

theorem key_material_ed2018 (o : TransformOpts) (did : String) (pk vm : Json) (jwk : List (String × Json))
    (hj : pk.get? "publicKeyJwk" = some (.obj jwk)) (hty : stringEntry (pk.get? "type") = "Ed25519VerificationKey2018")
    (h : externalKey o did pk = some vm) :
    ∃ k, edKeyOf (.obj jwk) = some k ∧ vm.get? "publicKeyBase58" = some (.str (base58Encode k)) := by
  unfold externalKey at h
  simp only [hj, hty, if_true] at h
  cases hk : edKeyOf (.obj jwk) with
  | none => simp [hk] at h
  | some k =>
    simp only [hk, Option.map_some] at h
    cases hl : o.keyCtx.lookup "Ed25519VerificationKey2018" with
    | none => simp [hl] at h
    | some c =>
      simp only [hl, Option.some.injEq] at h
      subst h
      exact ⟨k, rfl, by simp [Json.get?, Json.lookup]⟩

theorem key_material_ed2020 (o : TransformOpts) (did : String) (pk vm : Json) (jwk : List (String × Json))
    (hj : pk.get? "publicKeyJwk" = some (.obj jwk)) (hty : stringEntry (pk.get? "type") = "Ed25519VerificationKey2020")
    (h : externalKey o did pk = some vm) :
    ∃ k, edKeyOf (.obj jwk) = some k ∧ vm.get? "publicKeyMultibase" = some (.str ("z" ++ base58Encode k)) := by
  unfold externalKey at h
  have hne : ¬ ("Ed25519VerificationKey2020" = "Ed25519VerificationKey2018") := by decide
  simp only [hj, hty, hne, if_false, if_true] at h
  cases hk : edKeyOf (.obj jwk) with
  | none => simp [hk] at h
  | some k =>
    simp only [hk, Option.map_some] at h
    cases hl : o.keyCtx.lookup "Ed25519VerificationKey2020" with
    | none => simp [hl] at h
    | some c =>
      simp only [hl, Option.some.injEq] at h
      subst h
      exact ⟨k, rfl, by simp [Json.get?, Json.lookup]⟩

/-! ### relationships -/

/-- a key is referenced from exactly the relationships named by its purposes -/
theorem relationships_exact (o : TransformOpts) (did : String) (keys : List Json) (rel : String) (ref : Json) :
    ref ∈ refs o did keys rel ↔
      ∃ pk ∈ keys, ref = .str (objectID o did (stringEntry (pk.get? "id"))) ∧
        ∃ p ∈ stringArray (pk.get? "purposes"), relationshipOf p = some rel := by
  unfold refs
  simp only [List.mem_flatMap, List.mem_map, List.mem_filter, decide_eq_true_eq]
  constructor
  · rintro ⟨pk, hpk, p, ⟨hp, hr⟩, rfl⟩
    exact ⟨pk, hpk, rfl, p, hp, hr⟩
  · rintro ⟨pk, hpk, rfl, p, hp, hr⟩
    exact ⟨pk, hpk, p, ⟨hp, hr⟩, rfl⟩

/-- the purpose ↦ relationship table is the identity on the five purposes and nothing else -/
theorem relationship_table : ∀ p, relationshipOf p = (if p ∈ relationships then some p else none) := by
  intro p
  unfold relationshipOf relationships
  split <;> simp_all

/-! ### contexts -/

theorem keyContexts_nodup_aux (o : TransformOpts) : ∀ (keys : List Json) (acc : List String), acc.Nodup →
    (keys.foldl (fun acc pk =>
      match o.keyCtx.lookup (stringEntry (pk.get? "type")) with
      | some c => if acc.contains c then acc else acc ++ [c]
      | none => acc) acc).Nodup
  | [], acc, h => h
  | pk :: rest, acc, h => by
    simp only [List.foldl_cons]
    apply keyContexts_nodup_aux o rest
    cases hl : o.keyCtx.lookup (stringEntry (pk.get? "type")) with
    | none => exact h
    | some c =>
      simp only
      by_cases hc : acc.contains c = true
      · rw [if_pos hc]; exact h
      · rw [if_neg hc]
        refine List.nodup_append.mpr ⟨h, by simp, ?_⟩
        intro a ha b hb hab
        simp only [List.mem_singleton] at hb
        subst hab; subst hb
        exact hc (List.contains_iff_mem.mpr ha)

/-- one context per key type used, no duplicates -/
theorem contexts_nodup (o : TransformOpts) (keys : List Json) : (keyContexts o keys).Nodup :=
  keyContexts_nodup_aux o keys [] List.nodup_nil

/-- the six key types and their contexts (table tied to the source by an obligation) -/
theorem key_context_table : Expected.keyContexts.length = 6 ∧ (Expected.keyContexts.map (·.1)).Nodup ∧
    (Expected.keyContexts.map (·.2)).Nodup := by decide

/-! ### services -/

/-- every service is emitted with a qualified id, its type and endpoint, and all its other members -/
theorem service_members (o : TransformOpts) (did : String) (sv : Json) :
    (externalService o did sv).get? "id" = some (.str (objectID o did (stringEntry (sv.get? "id")))) ∧
    (externalService o did sv).get? "type" = some (.str (stringEntry (sv.get? "type"))) ∧
    (externalService o did sv).get? "serviceEndpoint" = some ((sv.get? "serviceEndpoint").getD .null) := by
  simp [externalService, Json.get?, Json.lookup]

/-! ### metadata -/

/-- the metadata table -/
theorem metadata_fields (o : TransformOpts) (rm : RM) (info md : Json) (pub unpub : List OpRef)
    (h : metadata o rm info pub unpub = some md) :
    ∃ published, info.get? "published" = some (.bool published) ∧
      ((md.get? "deactivated").isSome = rm.deactivated) ∧
      (md.get? "canonicalId" = info.get? "canonicalId") ∧ (md.get? "equivalentId" = info.get? "equivalentId") ∧
      ((md.get? "created").isSome = published) ∧
      ((md.get? "versionId").isSome = decide (rm.versionID ≠ "")) ∧
      ((md.get? "updated").isSome = (decide (rm.versionID ≠ "") && decide (rm.updatedTime > 0))) := by
  unfold metadata at h
  cases hd : rm.doc with
  | none => simp [hd] at h
  | some d =>
    cases hp : info.get? "published" with
    | none => simp [hd, hp] at h
    | some pj =>
      cases pj with
      | bool published =>
        simp only [hd, hp, Option.some.injEq] at h
        subst h
        refine ⟨published, rfl, ?_⟩
        cases hdeact : rm.deactivated <;> cases published <;>
          cases hc : info.get? "canonicalId" <;> cases he : info.get? "equivalentId" <;>
          by_cases hv : rm.versionID = "" <;> by_cases hu : rm.updatedTime > 0 <;>
          simp [Json.get?, Json.lookup, hv, hu]
      | null => simp [hd, hp] at h
      | num n => simp [hd, hp] at h
      | str s => simp [hd, hp] at h
      | arr a => simp [hd, hp] at h
      | obj ob => simp [hd, hp] at h

/-- times are reported in RFC 3339 UTC; two fixed points of the calendar arithmetic -/
example : rfc3339 0 = "1970-01-01T00:00:00Z" ∧ rfc3339 1700000000 = "2023-11-14T22:13:20Z" ∧
    rfc3339 951782400 = "2000-02-29T00:00:00Z" := by decide


/-- **the method metadata**: the `published` flag as given; the state's recovery and update
    commitments, each present exactly when non-empty; the state's anchor origin; the operation
    lists exactly when asked for and non-empty, in anchoring order (published ones de-duplicated) -/
theorem metadata_method_fields (o : TransformOpts) (rm : RM) (info md : Json) (pub unpub : List OpRef)
    (h : metadata o rm info pub unpub = some md) :
    ∃ published method, info.get? "published" = some (.bool published) ∧ md.get? "method" = some method ∧
      method.get? "published" = some (.bool published) ∧
      method.get? "recoveryCommitment" = (if rm.recoveryCommitment = "" then none else some (.str rm.recoveryCommitment)) ∧
      method.get? "updateCommitment" = (if rm.updateCommitment = "" then none else some (.str rm.updateCommitment)) ∧
      method.get? "anchorOrigin" = rm.anchorOrigin ∧
      method.get? "unpublishedOperations" =
        (if o.includeUnpublished ∧ !unpub.isEmpty then some (.arr ((unpublishedOps unpub).map (opRefJson false))) else none) ∧
      method.get? "publishedOperations" =
        (if o.includePublished ∧ !pub.isEmpty then some (.arr ((publishedOps pub).map (opRefJson true))) else none) := by
  unfold metadata at h
  cases hd : rm.doc with
  | none => simp [hd] at h
  | some d =>
    cases hp : info.get? "published" with
    | none => simp [hd, hp] at h
    | some pj =>
      cases pj with
      | bool published =>
        simp only [hd, hp, Option.some.injEq] at h
        subst h
        refine ⟨published, _, rfl, by simp only [Json.get?, Json.lookup, List.cons_append, List.nil_append, if_true]; rfl, ?_⟩
        by_cases h1 : rm.recoveryCommitment = "" <;> by_cases h2 : rm.updateCommitment = "" <;>
          cases h3 : rm.anchorOrigin <;>
          by_cases h4 : (o.includeUnpublished = true ∧ ¬ unpub = []) <;>
          by_cases h5 : (o.includePublished = true ∧ ¬ pub = []) <;>
          simp [Json.get?, Json.lookup, h1, h2, h3, h4, h5]
      | null => simp [hd, hp] at h
      | num n => simp [hd, hp] at h
      | str s => simp [hd, hp] at h
      | arr a => simp [hd, hp] at h
      | obj ob => simp [hd, hp] at h

/-- **canonical and equivalent ids as given**: the transformation info `docutil` builds for a
    published state names the canonical id (with the canonical reference when there is one) and,
    after it, one equivalent id per equivalent reference of the state, in order -/
theorem publishedInfo_ids (ns id suffix cr : String) (er : List String) :
    let canonical := ns ++ (if cr = "" then "" else ":" ++ cr) ++ ":" ++ suffix
    (Did.publishedInfo ns id suffix cr er).get? "id" = some (.str id) ∧
    (Did.publishedInfo ns id suffix cr er).get? "published" = some (.bool true) ∧
    (Did.publishedInfo ns id suffix cr er).get? "canonicalId" = some (.str canonical) ∧
    (Did.publishedInfo ns id suffix cr er).get? "equivalentId" =
      some (.arr (.str canonical :: er.map fun r => .str (ns ++ ":" ++ r ++ ":" ++ suffix))) := by
  simp [Did.publishedInfo, Json.get?, Json.lookup]

end Sidetree.Props.C18
