/-
  C18, key material: what the transformer writes for an Ed25519 key of type 2018 / 2020 — the
  base58 text, or `z` + base58 — determines the key bytes: base58 is lossless
  (`Lemmas/Base58.lean`: `base58_roundtrip` against a decoder that mirrors btcutil's, for byte
  strings of every length, leading zero bytes included). So two documents that expose the same
  `publicKeyBase58` / `publicKeyMultibase` were made from the same key.
-/
import Sidetree.Props.C18
import Sidetree.Lemmas.Base58

namespace Sidetree.Props.C18
open Sidetree Sidetree.Patch Sidetree.Transformer

/-- the exposed base58 text can be decoded back to the key -/
theorem ed2018_key_recoverable (o : TransformOpts) (did : String) (pk vm : Json) (jwk : List (String × Json))
    (hj : pk.get? "publicKeyJwk" = some (.obj jwk)) (hty : stringEntry (pk.get? "type") = "Ed25519VerificationKey2018")
    (h : externalKey o did pk = some vm) :
    ∃ k text, edKeyOf (.obj jwk) = some k ∧ vm.get? "publicKeyBase58" = some (.str text) ∧
      B58.base58Decode text = some k := by
  obtain ⟨k, hk, hv⟩ := key_material_ed2018 o did pk vm jwk hj hty h
  exact ⟨k, _, hk, hv, B58.base58_roundtrip k⟩

/-- **the same exposed key text means the same key** (type 2018) -/
theorem ed2018_same_text_same_key (o : TransformOpts) (did did' : String) (pk pk' vm vm' : Json)
    (jwk jwk' : List (String × Json))
    (hj : pk.get? "publicKeyJwk" = some (.obj jwk)) (hj' : pk'.get? "publicKeyJwk" = some (.obj jwk'))
    (hty : stringEntry (pk.get? "type") = "Ed25519VerificationKey2018")
    (hty' : stringEntry (pk'.get? "type") = "Ed25519VerificationKey2018")
    (h : externalKey o did pk = some vm) (h' : externalKey o did' pk' = some vm')
    (hsame : vm.get? "publicKeyBase58" = vm'.get? "publicKeyBase58") :
    edKeyOf (.obj jwk) = edKeyOf (.obj jwk') := by
  obtain ⟨k, hk, hv⟩ := key_material_ed2018 o did pk vm jwk hj hty h
  obtain ⟨k', hk', hv'⟩ := key_material_ed2018 o did' pk' vm' jwk' hj' hty' h'
  rw [hv, hv'] at hsame
  have : base58Encode k = base58Encode k' := by
    have := Option.some.inj hsame
    exact Json.str.inj this
  rw [hk, hk', B58.base58Encode_injective k k' this]

/-- … and for the multibase form (type 2020) -/
theorem ed2020_same_text_same_key (o : TransformOpts) (did did' : String) (pk pk' vm vm' : Json)
    (jwk jwk' : List (String × Json))
    (hj : pk.get? "publicKeyJwk" = some (.obj jwk)) (hj' : pk'.get? "publicKeyJwk" = some (.obj jwk'))
    (hty : stringEntry (pk.get? "type") = "Ed25519VerificationKey2020")
    (hty' : stringEntry (pk'.get? "type") = "Ed25519VerificationKey2020")
    (h : externalKey o did pk = some vm) (h' : externalKey o did' pk' = some vm')
    (hsame : vm.get? "publicKeyMultibase" = vm'.get? "publicKeyMultibase") :
    edKeyOf (.obj jwk) = edKeyOf (.obj jwk') := by
  obtain ⟨k, hk, hv⟩ := key_material_ed2020 o did pk vm jwk hj hty h
  obtain ⟨k', hk', hv'⟩ := key_material_ed2020 o did' pk' vm' jwk' hj' hty' h'
  rw [hv, hv'] at hsame
  have : "z" ++ base58Encode k = "z" ++ base58Encode k' := by
    have := Option.some.inj hsame
    exact Json.str.inj this
  rw [hk, hk', B58.multibase_injective k k' this]

end Sidetree.Props.C18
