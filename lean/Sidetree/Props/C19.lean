/-
  C19 — untrusted input is answered with an error, never a panic.

  Every model entry point is a total Lean function (structural recursion or explicit fuel), so
  "the model answers every input" holds by construction; what a theorem can add is *which* inputs
  reach the hazard outcomes the library model makes explicit (`R.panic`, `R.blowup`). This file
  proves that the composer's guard (`targetsOwnSource`) excludes the one unrecoverable hazard that
  is not an allocation: a `copy` that links a node into its own subtree.
-/
import Sidetree.Composer

namespace Sidetree.Props.C19
open Sidetree Sidetree.JsonPatch Sidetree.JsonPatch.Lib

theorem int_eq_of_toNat {i j : Int} (hi : 0 ≤ i) (hj : 0 ≤ j) (h : i.toNat = j.toNat) : i = j := by omega

/-- **resolution is what matters**: if the nodes visited along `ft` are an initial segment of the
    nodes visited along `pt`, the composer's walk along `ft` (`belowIn`) goes all the way -/
theorem below_of_prefix : ∀ (ft pt : List String) (d : Json) (src dst : List Step),
    resolveSteps d ft = some src → resolveSteps d pt = some dst → src.isPrefixOf dst = true →
    ft.length ≤ pt.length ∧ belowIn (some d) (ft.zip pt) = true
  | [], pt, _, _, _, _, _, _ => by simp [belowIn]
  | a :: as, [], d, src, dst, hs, hd, hp => by
    exfalso
    simp only [resolveSteps, Option.some.injEq] at hd
    subst hd
    cases d with
    | obj kvs =>
      simp only [resolveSteps] at hs
      cases hl : Json.lookup a kvs with
      | none => simp [hl] at hs
      | some n =>
        cases hr : resolveSteps n as with
        | none => simp [hl, hr] at hs
        | some ss => simp [hl, hr] at hs; subst hs; simp at hp
    | arr xs =>
      simp only [resolveSteps] at hs
      cases ha : atoi? a with
      | none => simp [ha] at hs
      | some i =>
        simp only [ha] at hs
        split at hs
        · cases hx : xs[i.toNat]? with
          | none => simp [hx] at hs
          | some n =>
            cases hr : resolveSteps n as with
            | none => simp [hx, hr] at hs
            | some ss => simp [hx, hr] at hs; subst hs; simp at hp
        · cases hs
    | null => simp [resolveSteps] at hs
    | bool _ => simp [resolveSteps] at hs
    | num _ => simp [resolveSteps] at hs
    | str _ => simp [resolveSteps] at hs
  | a :: as, b :: bs, d, src, dst, hs, hd, hp => by
    cases d with
    | obj kvs =>
      simp only [resolveSteps] at hs hd
      cases hl : Json.lookup a kvs with
      | none => simp [hl] at hs
      | some n =>
        cases hr : resolveSteps n as with
        | none => simp [hl, hr] at hs
        | some ss =>
          simp only [hl, hr, Option.bind_some, Option.map_some, Option.some.injEq] at hs
          subst hs
          cases hl' : Json.lookup b kvs with
          | none => simp [hl'] at hd
          | some n' =>
            cases hr' : resolveSteps n' bs with
            | none => simp [hl', hr'] at hd
            | some ss' =>
              simp only [hl', hr', Option.bind_some, Option.map_some, Option.some.injEq] at hd
              subst hd
              simp only [List.isPrefixOf_cons₂, Bool.and_eq_true, beq_iff_eq, Step.key.injEq] at hp
              obtain ⟨hab, hp'⟩ := hp
              subst hab
              rw [hl] at hl'
              cases hl'
              have ih := below_of_prefix as bs n ss ss' hr hr' hp'
              refine ⟨by simp; exact ih.1, ?_⟩
              simp only [List.zip_cons_cons, belowIn, hl, Bool.and_eq_true, beq_self_eq_true, true_and]
              exact ih.2
    | arr xs =>
      simp only [resolveSteps] at hs hd
      cases ha : atoi? a with
      | none => simp [ha] at hs
      | some i =>
        simp only [ha] at hs
        by_cases hi : 0 ≤ i ∧ i < xs.length
        · simp only [hi, and_self, if_true] at hs
          cases hx : xs[i.toNat]? with
          | none => simp [hx] at hs
          | some n =>
            cases hr : resolveSteps n as with
            | none => simp [hx, hr] at hs
            | some ss =>
              simp only [hx, hr, Option.bind_some, Option.map_some, Option.some.injEq] at hs
              subst hs
              cases hb : atoi? b with
              | none => simp [hb] at hd
              | some j =>
                simp only [hb] at hd
                by_cases hj : 0 ≤ j ∧ j < xs.length
                · simp only [hj, and_self, if_true] at hd
                  cases hx' : xs[j.toNat]? with
                  | none => simp [hx'] at hd
                  | some n' =>
                    cases hr' : resolveSteps n' bs with
                    | none => simp [hx', hr'] at hd
                    | some ss' =>
                      simp only [hx', hr', Option.bind_some, Option.map_some, Option.some.injEq] at hd
                      subst hd
                      simp only [List.isPrefixOf_cons₂, Bool.and_eq_true, beq_iff_eq, Step.idx.injEq] at hp
                      obtain ⟨hij, hp'⟩ := hp
                      have e : i = j := int_eq_of_toNat hi.1 hj.1 hij
                      subst e
                      rw [hx] at hx'
                      cases hx'
                      have ih := below_of_prefix as bs n ss ss' hr hr' hp'
                      refine ⟨by simp; exact ih.1, ?_⟩
                      simp only [List.zip_cons_cons, belowIn, ha, hb, hx, Bool.and_eq_true, beq_self_eq_true, true_and,
                        decide_eq_true_eq]
                      exact ⟨hi, ih.2⟩
                · simp [hj] at hd
        · simp [hi] at hs
    | null => simp [resolveSteps] at hs
    | bool _ => simp [resolveSteps] at hs
    | num _ => simp [resolveSteps] at hs
    | str _ => simp [resolveSteps] at hs

theorem zip_dropLast {α β} : ∀ (l1 : List α) (l2 : List β), l1.length ≤ l2.dropLast.length → l1.zip l2 = l1.zip l2.dropLast
  | [], _, _ => by simp
  | a :: as, [], h => by simp at h
  | a :: as, [b], h => by simp at h
  | a :: as, b :: c :: cs, h => by
    simp only [List.dropLast_cons₂, List.length_cons] at h
    simp only [List.zip_cons_cons, List.dropLast_cons₂]
    rw [zip_dropLast as (c :: cs) (by omega)]

theorem splitPointer_inv (ptr : String) (parts : List (List Char)) (key : String) (h : splitPointer ptr = some (parts, key)) :
    ∃ x rest, splitSlash ptr.toList = x :: rest ∧ rest ≠ [] ∧ parts = rest.dropLast ∧ key = decodeKey (rest.getLast?.getD []) := by
  unfold splitPointer at h
  cases hs : splitSlash ptr.toList with
  | nil => simp [hs] at h
  | cons x rest =>
    cases rest with
    | nil => simp [hs] at h
    | cons y ys =>
      simp only [hs, Option.some.injEq, Prod.mk.injEq] at h
      exact ⟨x, y :: ys, rfl, by simp, h.1.symm, h.2.symm⟩

theorem map_dropLast_append_last (rest : List (List Char)) (h : rest ≠ []) :
    rest.dropLast.map decodeKey ++ [decodeKey (rest.getLast?.getD [])] = rest.map decodeKey := by
  induction rest with
  | nil => exact absurd rfl h
  | cons a as ih =>
    cases as with
    | nil => simp
    | cons b bs =>
      have := ih (by simp)
      simp only [List.dropLast_cons₂, List.map_cons, List.cons_append, List.getLast?_cons_cons] at this ⊢
      rw [this]

theorem zip_map_dropLast (restf restp : List (List Char)) (h : restf.length ≤ restp.dropLast.length) :
    (restf.map decodeKey).zip (restp.map decodeKey) = (restf.map decodeKey).zip (restp.dropLast.map decodeKey) := by
  have : restp.dropLast.map decodeKey = (restp.map decodeKey).dropLast := by
    simp [List.map_dropLast]
  rw [this]
  exact zip_dropLast _ _ (by simpa using h)

/-- **the composer's guard excludes the cycle**: whenever a `copy` would link a node into its own
    subtree (the only way the patch library makes a document contain itself), the composer's walk
    of the document along `from` succeeds, so `targetsOwnSource` is true and the composer refuses
    the operation before the library sees it. -/
theorem guard_excludes_cycle (doc : Json) (frm path : String) (fparts parts : List (List Char)) (fkey key : String)
    (hf : splitPointer frm = some (fparts, fkey)) (hp : splitPointer path = some (parts, key))
    (hc : copyMakesCycle doc fparts fkey parts = true) : isBelow path frm doc = true := by
  obtain ⟨x, restf, hsf, hnf, rfl, rfl⟩ := splitPointer_inv frm fparts fkey hf
  obtain ⟨y, restp, hsp, hnp, rfl, rfl⟩ := splitPointer_inv path parts key hp
  unfold copyMakesCycle at hc
  rw [map_dropLast_append_last restf hnf] at hc
  cases hs : resolveSteps doc (restf.map decodeKey) with
  | none => simp [hs] at hc
  | some src =>
    cases hd : resolveSteps doc (restp.dropLast.map decodeKey) with
    | none => rw [hs, hd] at hc; cases hc
    | some dst =>
      rw [hs, hd] at hc
      simp only at hc
      obtain ⟨hlen, hall⟩ := below_of_prefix _ _ doc src dst hs hd hc
      simp only [List.length_map] at hlen
      have hplen : restp.dropLast.length + 1 = restp.length := by
        cases restp with
        | nil => exact absurd rfl hnp
        | cons b bs => simp
      unfold isBelow
      simp only [hsf, hsp, List.length_cons, List.drop_succ_cons, List.drop_zero]
      have hlt : ¬ (restp.length + 1 ≤ restf.length + 1) := by omega
      simp only [hlt, if_false]
      rw [zip_map_dropLast restf restp hlen]
      exact hall

/-! ### the only other unrecoverable outcome is an allocation the caller asked for -/

/-- the last token of the target names an array index at or beyond `blowupIndex` -/
def HugeIndex (k : String) : Prop := ∃ i : Int, atoi? k = some i ∧ i.toNat ≥ blowupIndex

theorem conGet_ne_blowup (con : Json) (k : String) : conGet con k ≠ .blowup := by
  unfold conGet
  cases con with
  | obj kvs => simp
  | arr xs =>
    simp only
    cases atoi? k with
    | none => simp
    | some i =>
      simp only
      split
      · simp
      · split <;> simp
  | null => simp
  | bool _ => simp
  | num _ => simp
  | str _ => simp

theorem conAdd_ne_blowup (con : Json) (k : String) (v : Json) : conAdd con k v ≠ .blowup := by
  unfold conAdd
  cases con with
  | obj kvs => simp
  | arr xs =>
    simp only
    split
    · simp
    · cases atoi? k with
      | none => simp
      | some i =>
      simp only
      split
      · simp
      · split <;> simp
  | null => simp
  | bool _ => simp
  | num _ => simp
  | str _ => simp

theorem conRemove_ne_blowup (con : Json) (k : String) : conRemove con k ≠ .blowup := by
  unfold conRemove
  cases con with
  | obj kvs => simp only; split <;> simp
  | arr xs =>
    simp only
    cases atoi? k with
    | none => simp
    | some i =>
      simp only
      split
      · simp
      · split <;> simp
  | null => simp
  | bool _ => simp
  | num _ => simp
  | str _ => simp

theorem conSet_blowup (con : Json) (k : String) (v : Json) (h : conSet con k v = .blowup) : HugeIndex k := by
  unfold conSet at h
  cases con with
  | obj kvs => simp at h
  | arr xs =>
    simp only at h
    split at h
    · cases h
    · cases ha : atoi? k with
      | none => simp [ha] at h
      | some i =>
        simp only [ha] at h
        split at h
        · cases h
        · split at h
          · exact ⟨i, ha, by assumption⟩
          · cases h
  | null => simp at h
  | bool _ => simp at h
  | num _ => simp at h
  | str _ => simp at h

theorem updateAt_blowup (f : Json → R Json) : ∀ (parts : List (List Char)) (cur : Json),
    updateAt f parts cur = .blowup → ∃ con, f con = .blowup
  | [], cur, h => ⟨cur, h⟩
  | p :: ps, cur, h => by
    unfold updateAt at h
    simp only at h
    cases hg : conGet cur (decodeKey p) with
    | ok node =>
      cases node with
      | none => simp [hg] at h
      | some next =>
        simp only [hg] at h
        split at h
        · cases hu : updateAt f ps next with
          | blowup => exact updateAt_blowup f ps next hu
          | ok n' =>
            simp only [hu] at h
            cases cur with
            | obj kvs => cases h
            | arr xs =>
              simp only at h
              cases ha : atoi? (decodeKey p) with
              | none => rw [ha] at h; cases h
              | some i => rw [ha] at h; cases h
            | null => cases h
            | bool _ => cases h
            | num _ => cases h
            | str _ => cases h
          | err => simp [hu] at h
          | panic => simp [hu] at h
        · cases h
    | err => simp [hg] at h
    | panic => simp [hg] at h
    | blowup => exact absurd hg (conGet_ne_blowup _ _)

theorem readAt_ne_blowup {α} (f : Json → R α) (hf : ∀ con, f con ≠ .blowup) : ∀ (parts : List (List Char)) (cur : Json),
    readAt f parts cur ≠ .blowup
  | [], cur => hf cur
  | p :: ps, cur => by
    unfold readAt
    cases hg : conGet cur (decodeKey p) with
    | ok node =>
      cases node with
      | none => simp
      | some next =>
        simp only
        split
        · exact readAt_ne_blowup f hf ps next
        · simp
    | err => simp
    | panic => simp
    | blowup => exact absurd hg (conGet_ne_blowup _ _)

theorem bind_blowup {α β} (x : R α) (f : α → R β) (h : (x >>= f) = .blowup) :
    x = .blowup ∨ ∃ a, x = .ok a ∧ f a = .blowup := by
  cases x with
  | ok a => exact Or.inr ⟨a, rfl, h⟩
  | err => cases h
  | panic => cases h
  | blowup => exact Or.inl rfl

theorem testOutcome_ne_blowup (val : Node) (hv : Bool) (value : Json) : testOutcome val hv value ≠ .blowup := by
  unfold testOutcome
  cases val with
  | none =>
    simp only
    split
    · simp
    · split <;> simp
  | some v =>
    simp only
    split
    · simp
    · split
      · simp
      · cases nodeEqual v value with
        | none => simp
        | some b => cases b <;> simp

/-- **what can kill the process inside one library call**: an array index at or beyond
    `blowupIndex` as the last token of the target, or a `copy` into the source's own subtree -/
theorem applyOp_blowup (doc op : Json) (h : applyOp doc op = .blowup) :
    (∃ parts key, splitPointer (opString op "path") = some (parts, key) ∧ HugeIndex key) ∨
    (opString op "op" = "copy" ∧ ∃ fparts fkey parts key, splitPointer (opString op "from") = some (fparts, fkey) ∧
      splitPointer (opString op "path") = some (parts, key) ∧ copyMakesCycle doc fparts fkey parts = true) := by
  unfold applyOp at h
  simp only at h
  by_cases k1 : opString op "op" = "add"
  · rw [if_pos k1] at h
    cases hs : splitPointer (opString op "path") with
    | none => simp [hs] at h
    | some pk =>
      obtain ⟨parts, key⟩ := pk
      simp only [hs] at h
      obtain ⟨con, hc⟩ := updateAt_blowup _ parts doc h
      exact absurd hc (conAdd_ne_blowup _ _ _)
  rw [if_neg k1] at h
  by_cases k2 : opString op "op" = "remove"
  · rw [if_pos k2] at h
    cases hs : splitPointer (opString op "path") with
    | none => simp [hs] at h
    | some pk =>
      obtain ⟨parts, key⟩ := pk
      simp only [hs] at h
      obtain ⟨con, hc⟩ := updateAt_blowup _ parts doc h
      exact absurd hc (conRemove_ne_blowup _ _)
  rw [if_neg k2] at h
  by_cases k3 : opString op "op" = "replace"
  · rw [if_pos k3] at h
    cases hs : splitPointer (opString op "path") with
    | none => simp [hs] at h
    | some pk =>
      obtain ⟨parts, key⟩ := pk
      simp only [hs] at h
      obtain ⟨con, hc⟩ := updateAt_blowup _ parts doc h
      rcases bind_blowup _ _ hc with hb | ⟨a, _, hb⟩
      · exact absurd hb (conGet_ne_blowup _ _)
      · exact Or.inl ⟨parts, key, rfl, conSet_blowup _ _ _ hb⟩
  rw [if_neg k3] at h
  by_cases k4 : opString op "op" = "move"
  · rw [if_pos k4] at h
    cases hsf : splitPointer (opString op "from") with
    | none => simp [hsf] at h
    | some fpk =>
      obtain ⟨fparts, fkey⟩ := fpk
      cases hs : splitPointer (opString op "path") with
      | none =>
        simp only [hsf, hs] at h
        rcases bind_blowup _ _ h with hb | ⟨a, _, hb⟩
        · exact absurd hb (readAt_ne_blowup _ (fun con => conGet_ne_blowup con fkey) _ _)
        · rcases bind_blowup _ _ hb with hb2 | ⟨b, _, hb2⟩
          · obtain ⟨con, hc⟩ := updateAt_blowup _ fparts doc hb2
            exact absurd hc (conRemove_ne_blowup _ _)
          · cases hb2
      | some pk =>
        obtain ⟨parts, key⟩ := pk
        simp only [hsf, hs] at h
        rcases bind_blowup _ _ h with hb | ⟨a, _, hb⟩
        · exact absurd hb (readAt_ne_blowup _ (fun con => conGet_ne_blowup con fkey) _ _)
        · rcases bind_blowup _ _ hb with hb2 | ⟨d1, _, hb2⟩
          · obtain ⟨con, hc⟩ := updateAt_blowup _ fparts doc hb2
            exact absurd hc (conRemove_ne_blowup _ _)
          · obtain ⟨con, hc⟩ := updateAt_blowup _ parts d1 hb2
            exact Or.inl ⟨parts, key, rfl, conSet_blowup _ _ _ hc⟩
  rw [if_neg k4] at h
  by_cases k5 : opString op "op" = "copy"
  · rw [if_pos k5] at h
    cases hsf : splitPointer (opString op "from") with
    | none => simp [hsf] at h
    | some fpk =>
      obtain ⟨fparts, fkey⟩ := fpk
      cases hs : splitPointer (opString op "path") with
      | none =>
        simp only [hsf, hs] at h
        rcases bind_blowup _ _ h with hb | ⟨a, _, hb⟩
        · exact absurd hb (readAt_ne_blowup _ (fun con => conGet_ne_blowup con fkey) _ _)
        · cases hb
      | some pk =>
        obtain ⟨parts, key⟩ := pk
        simp only [hsf, hs] at h
        rcases bind_blowup _ _ h with hb | ⟨a, _, hb⟩
        · exact absurd hb (readAt_ne_blowup _ (fun con => conGet_ne_blowup con fkey) _ _)
        · rcases bind_blowup _ _ hb with hb2 | ⟨d1, _, hb2⟩
          · obtain ⟨con, hc⟩ := updateAt_blowup _ parts doc hb2
            exact Or.inl ⟨parts, key, rfl, conSet_blowup _ _ _ hc⟩
          · by_cases hcy : copyMakesCycle doc fparts fkey parts = true
            · exact Or.inr ⟨k5, fparts, fkey, parts, key, rfl, rfl, hcy⟩
            · simp [hcy] at hb2
  rw [if_neg k5] at h
  by_cases k6 : opString op "op" = "test"
  · rw [if_pos k6] at h
    cases hs : splitPointer (opString op "path") with
    | none => simp [hs] at h
    | some pk =>
      obtain ⟨parts, key⟩ := pk
      simp only [hs] at h
      rcases bind_blowup _ _ h with hb | ⟨a, _, hb⟩
      · exact absurd hb (readAt_ne_blowup _ (fun con => conGet_ne_blowup con key) _ _)
      · rcases bind_blowup _ _ hb with hb2 | ⟨u, _, hb2⟩
        · exact absurd hb2 (testOutcome_ne_blowup _ _ _)
        · cases hb2
  · rw [if_neg k6] at h
    cases h

theorem splitPointer_unknown : splitPointer "unknown" = none := by decide

theorem guardString_of_split (op : Json) (k : String) (pk : List (List Char) × String)
    (h : splitPointer (opString op k) = some pk) : guardString op k = some (opString op k) := by
  unfold opString at h ⊢
  unfold guardString
  cases hg : op.get? k with
  | none => simp [hg, splitPointer_unknown] at h
  | some v =>
    cases v with
    | str s => rfl
    | _ => simp [hg, splitPointer_unknown] at h

theorem guardString_of_eq (op : Json) (k s : String) (hs : s ≠ "unknown") (h : opString op k = s) : guardString op k = some s := by
  unfold opString at h
  unfold guardString
  cases hg : op.get? k with
  | none => simp [hg] at h; exact absurd h.symm hs
  | some v =>
    cases v with
    | str t => simp [hg] at h; simp [h]
    | _ => simp [hg] at h; exact absurd h.symm hs

/-- **behind the composer's guard a library call can only die of a huge array index** -/
theorem applyGuarded_blowup (doc op : Json) (h : applyGuarded doc op = .blowup) :
    ∃ parts key, splitPointer (opString op "path") = some (parts, key) ∧ HugeIndex key := by
  unfold applyGuarded at h
  by_cases hg : targetsOwnSource op doc = true
  · rw [if_pos hg] at h; cases h
  · rw [if_neg hg] at h
    have hop : applyOp doc op = .blowup := by
      cases ha : applyOp doc op with
      | blowup => rfl
      | ok d => simp [ha] at h
      | err => simp [ha] at h
      | panic => simp [ha] at h
    rcases applyOp_blowup doc op hop with hl | ⟨hk, fparts, fkey, parts, key, hf, hp, hc⟩
    · exact hl
    · exfalso
      apply hg
      have hb := guard_excludes_cycle doc _ _ fparts parts fkey key hf hp hc
      have g1 := guardString_of_eq op "op" "copy" (by decide) hk
      have g2 := guardString_of_split op "from" _ hf
      have g3 := guardString_of_split op "path" _ hp
      simp [targetsOwnSource, g1, g2, g3, hb]

/-- … and so can a whole ietf-json-patch: if applying it is fatal, one of its operations names an
    array index at or beyond `blowupIndex` as its target -/
theorem applyAll_blowup : ∀ (ops : List Json) (doc : Json), applyAll doc ops = .blowup →
    ∃ op ∈ ops, ∃ parts key, splitPointer (opString op "path") = some (parts, key) ∧ HugeIndex key
  | [], doc, h => by simp [applyAll, List.foldlM, pure] at h
  | o :: rest, doc, h => by
    simp only [applyAll, List.foldlM_cons] at h
    rcases bind_blowup _ _ h with hb | ⟨d1, _, hb⟩
    · obtain ⟨parts, key, hs, hh⟩ := applyGuarded_blowup doc o hb
      exact ⟨o, by simp, parts, key, hs, hh⟩
    · obtain ⟨op, hm, r⟩ := applyAll_blowup rest d1 hb
      exact ⟨op, List.mem_cons_of_mem _ hm, r⟩

/-- **the guard refuses nothing but children of the source** (D45): when the walk succeeds and
    `from` resolves, the first tokens of `path` resolve to the very same nodes -/
theorem guard_refuses_only_children : ∀ (ft pt : List String) (d : Json) (src : List Step),
    ft.length ≤ pt.length → belowIn (some d) (ft.zip pt) = true → resolveSteps d ft = some src →
    resolveSteps d (pt.take ft.length) = some src
  | [], pt, d, src, _, _, hs => by
    cases d <;> simpa [resolveSteps] using hs
  | a :: as, [], _, _, hl, _, _ => by simp at hl
  | a :: as, b :: bs, d, src, hl, hb, hs => by
    simp only [List.length_cons, Nat.add_le_add_iff_right] at hl
    cases d with
    | obj kvs =>
      simp only [List.zip_cons_cons, belowIn, Bool.and_eq_true, beq_iff_eq] at hb
      obtain ⟨hab, hb'⟩ := hb
      subst hab
      simp only [resolveSteps] at hs
      cases hlk : Json.lookup a kvs with
      | none => simp [hlk] at hs
      | some n =>
        cases hr : resolveSteps n as with
        | none => simp [hlk, hr] at hs
        | some ss =>
          simp only [hlk, hr, Option.bind_some, Option.map_some, Option.some.injEq] at hs
          subst hs
          rw [hlk] at hb'
          have ih := guard_refuses_only_children as bs n ss hl hb' hr
          simp [List.take_succ_cons, resolveSteps, hlk, ih]
    | arr xs =>
      simp only [List.zip_cons_cons, belowIn] at hb
      cases ha : atoi? a with
      | none => simp [ha] at hb
      | some i =>
        cases hbb : atoi? b with
        | none => simp [ha, hbb] at hb
        | some j =>
          simp only [ha, hbb, Bool.and_eq_true, beq_iff_eq, decide_eq_true_eq] at hb
          obtain ⟨⟨hij, hi⟩, hb'⟩ := hb
          subst hij
          simp only [resolveSteps, ha, hi, and_self, if_true] at hs
          cases hx : xs[i.toNat]? with
          | none => simp [hx] at hs
          | some n =>
            cases hr : resolveSteps n as with
            | none => simp [hx, hr] at hs
            | some ss =>
              simp only [hx, hr, Option.bind_some, Option.map_some, Option.some.injEq] at hs
              subst hs
              rw [hx] at hb'
              have ih := guard_refuses_only_children as bs n ss hl hb' hr
              simp only [List.length_cons, List.take_succ_cons, resolveSteps, hbb, hi, and_self, if_true, hx, Option.bind_some, ih,
                Option.map_some]
    | null => simp [belowIn] at hb
    | bool _ => simp [belowIn] at hb
    | num _ => simp [belowIn] at hb
    | str _ => simp [belowIn] at hb

/-- the guard refuses the reported crash inputs (validated by the old string comparison) … -/
example :
    targetsOwnSource (.obj [("op", .str "copy"), ("from", .str "/arr/0"), ("path", .str "/arr/+0/x")])
      (.obj [("arr", .arr [.obj [("k", .null)]])]) = true ∧
    targetsOwnSource (.obj [("op", .str "copy"), ("from", .str "/~"), ("path", .str "/~0/x")]) (.obj [("~", .obj [])]) = true ∧
    targetsOwnSource (.obj [("op", .str "copy"), ("from", .str "/a"), ("path", .str "x/a/b")]) (.obj [("a", .obj [])]) = true ∧
    targetsOwnSource (.obj [("op", .str "copy"), ("from", .str "/a"), ("path", .str "/ab/c")]) (.obj [("a", .obj []), ("ab", .obj [])]) = false := by
  decide

/-- … and no longer a copy between the members "1" and "01" of an object (D45), while "0" and "00"
    still name one element of a list -/
example :
    targetsOwnSource (.obj [("op", .str "copy"), ("from", .str "/a/1"), ("path", .str "/a/01/x")])
      (.obj [("a", .obj [("1", .str "v"), ("01", .obj [])])]) = false ∧
    targetsOwnSource (.obj [("op", .str "copy"), ("from", .str "/a/0"), ("path", .str "/a/00/x")])
      (.obj [("a", .arr [.obj [("k", .null)]])]) = true := by
  decide

/-- without the guard the library model does reach the hazard on such an input -/
example : (match applyOp (.obj [("arr", .arr [.obj [("k", .null)]])])
    (.obj [("op", .str "copy"), ("from", .str "/arr/0"), ("path", .str "/arr/+0/x")]) with
    | .blowup => true
    | _ => false) = true := by decide

/-! ### the copy chain (known finding D47)

Memory is not part of the model, so "does not exhaust it" is not a statement here. What the model
can exhibit is the growth law that makes the finding: a concrete witness, evaluated by the kernel —
a test of the model on fourteen inputs, not a theorem about every length. -/

mutual
/-- scalars in a value -/
def leaves : Json → Nat
  | .arr xs => leavesList xs
  | .obj kvs => leavesMembers kvs
  | _ => 1
def leavesList : List Json → Nat
  | [] => 0
  | x :: xs => leaves x + leavesList xs
def leavesMembers : List (String × Json) → Nat
  | [] => 0
  | (_, x) :: xs => leaves x + leavesMembers xs
end

/-- two one-element lists, then `n` copies of the one to the end of the other, alternating -/
def copyChain (n : Nat) : List Json :=
  [.obj [("op", .str "add"), ("path", .str "/fa"), ("value", .arr [.str "x"])],
   .obj [("op", .str "add"), ("path", .str "/fb"), ("value", .arr [.str "x"])]] ++
  (List.range n).map fun k =>
    if k % 2 = 0 then .obj [("op", .str "copy"), ("from", .str "/fa"), ("path", .str "/fb/-")]
    else .obj [("op", .str "copy"), ("from", .str "/fb"), ("path", .str "/fa/-")]

def leavesAfter (n : Nat) : Nat :=
  match applyAll (.obj []) (copyChain n) with
  | .ok d => leaves d
  | _ => 0

/-- behind the guard every one of these operations is applied, and the document holds
    Fibonacci-many scalars: × 1.618 per 40 bytes of patch -/
example : (List.range 14).map leavesAfter = [2, 3, 5, 8, 13, 21, 34, 55, 89, 144, 233, 377, 610, 987] := by
  decide +kernel

end Sidetree.Props.C19
