/-
  C20 — shared components are safe for concurrent use (the part a model can carry).
-/
import Sidetree.Concurrency

namespace Sidetree.Props.C20
open Sidetree.Conc

/-! ### the lock: a writer is alone -/

theorem exclusive_step (s s' : Lock.State) (h : Lock.Exclusive s) (st : Lock.Step s s') : Lock.Exclusive s' := by
  cases st with
  | lock t hall =>
    intro a b hab ha
    simp only [Lock.set] at ha ⊢
    by_cases hb : b = t
    · subst hb
      have hat : ¬ a = b := hab
      simp only [hat, if_false] at ha
      rw [hall a] at ha
      cases ha
    · simp only [hb, if_false]
      exact hall b
  | rlock t hout hnw =>
    intro a b hab ha
    simp only [Lock.set] at ha ⊢
    by_cases hat : a = t
    · simp [hat] at ha
    · simp only [hat, if_false] at ha
      exact absurd ha (hnw a)
  | unlock t hin =>
    intro a b hab ha
    simp only [Lock.set] at ha ⊢
    by_cases hat : a = t
    · simp [hat] at ha
    · simp only [hat, if_false] at ha
      by_cases hb : b = t
      · simp [hb]
      · simp only [hb, if_false]
        exact h a b hab ha

/-- **in every reachable state a goroutine inside a write section is the only one inside any
    section**: a write to the guarded map never overlaps another access to it -/
theorem reachable_exclusive (s : Lock.State) (h : Lock.Reachable s) : Lock.Exclusive s := by
  induction h with
  | init => intro a b _ ha; simp [Lock.init] at ha
  | step _ st ih => exact exclusive_step _ _ ih st

/-- two writers, or a writer and a reader, are never inside together -/
theorem no_conflicting_sections (s : Lock.State) (h : Lock.Reachable s) (t u : Nat) (htu : t ≠ u)
    (ht : s.inside t = some .w) : s.inside u ≠ some .w ∧ s.inside u ≠ some .r := by
  have := reachable_exclusive s h t u htu ht
  simp [this]

/-- readers do share: the lock does not serialise lookups (the invariant is not vacuous) -/
example : ∃ s, Lock.Reachable s ∧ s.inside 0 = some .r ∧ s.inside 1 = some .r := by
  refine ⟨Lock.set (Lock.set Lock.init 0 (some .r)) 1 (some .r), ?_, by simp [Lock.set], by simp [Lock.set]⟩
  apply Lock.Reachable.step (Lock.Reachable.step Lock.Reachable.init (Lock.Step.rlock _ 0 rfl (by simp [Lock.init])))
  exact Lock.Step.rlock _ 1 (by simp [Lock.set, Lock.init]) (by intro u; simp [Lock.set, Lock.init])

/-! ### the registries: every order of atomic operations behaves -/

theorem get_put_same (r : Reg) (k : String) (v : Nat) : (r.put k v).get k = some v := by
  simp [Reg.get, Reg.put]

theorem find_filter (k k' : String) (h : k' ≠ k) : ∀ (r : Reg),
    (r.filter (·.1 ≠ k)).find? (·.1 = k') = r.find? (·.1 = k')
  | [] => rfl
  | x :: xs => by
    have ih := find_filter k k' h xs
    by_cases hx : x.1 = k
    · have hx' : ¬ x.1 = k' := fun e => h (by rw [← e, hx])
      rw [List.filter_cons_of_neg (by simpa using hx), List.find?_cons_of_neg (by simpa using hx'), ih]
    · rw [List.filter_cons_of_pos (by simpa using hx)]
      by_cases hx' : x.1 = k'
      · rw [List.find?_cons_of_pos (by simpa using hx'), List.find?_cons_of_pos (by simpa using hx')]
      · rw [List.find?_cons_of_neg (by simpa using hx'), List.find?_cons_of_neg (by simpa using hx'), ih]

theorem get_put_other (r : Reg) (k k' : String) (v : Nat) (h : k' ≠ k) : (r.put k v).get k' = r.get k' := by
  have hk : ¬ (k = k') := fun e => h e.symm
  simp only [Reg.get, Reg.put]
  rw [List.find?_cons_of_neg (by simpa using hk), find_filter k k' h r]

/-- once a key is present it stays present whatever happens next -/
theorem present_stays (r : Reg) (k : String) (h : (r.get k).isSome) (op : Op) : ((step r op).1.get k).isSome := by
  cases op with
  | add k' v =>
    by_cases e : k = k'
    · subst e; simp [step, get_put_same]
    · simp [step, get_put_other r k' k v e, h]
  | register k' v =>
    simp only [step]
    split
    · exact h
    · by_cases e : k = k'
      · subst e; simp [get_put_same]
      · simp [get_put_other r k' k v e, h]
  | lookup k' => simpa [step] using h

/-- with `k` already present no registration of `k` succeeds -/
theorem no_success_when_present : ∀ (ops : List Op) (r : Reg) (k : String), (r.get k).isSome = true →
    successes k ops (run r ops).2 = 0
  | [], _, _, _ => by simp [run, successes]
  | op :: ops, r, k, h => by
    have hp := present_stays r k h op
    have ih := no_success_when_present ops (step r op).1 k hp
    cases op with
    | add k' v => simpa [run, step, successes] using ih
    | lookup k' => simpa [run, step, successes] using ih
    | register k' v =>
      by_cases hk' : (r.get k').isSome = true
      · simp only [run, step, hk', if_true, successes] at ih ⊢
        exact ih
      · simp only [run, step, hk', Bool.false_eq_true, if_false, successes] at ih ⊢
        have hne : ¬ k' = k := by
          intro e; subst e; exact hk' h
        simp [hne, ih]

/-- **registering one version from any number of goroutines succeeds at most once**, for every
    order in which the registrations and lookups take effect -/
theorem register_at_most_once : ∀ (ops : List Op) (r : Reg) (k : String), successes k ops (run r ops).2 ≤ 1
  | [], _, _ => by simp [run, successes]
  | op :: ops, r, k => by
    have ih := register_at_most_once ops (step r op).1 k
    cases op with
    | add k' v => simpa [run, step, successes] using ih
    | lookup k' => simpa [run, step, successes] using ih
    | register k' v =>
      by_cases hk' : (r.get k').isSome = true
      · simp only [run, step, hk', if_true, successes] at ih ⊢
        exact ih
      · simp only [run, step, hk', Bool.false_eq_true, if_false, successes] at ih ⊢
        by_cases e : k' = k
        · subst e
          have := no_success_when_present ops (r.put k' v) k' (by simp [get_put_same])
          simp [this]
        · simp [e, ih]

/-- … and exactly once when nobody else adds the key: the first registration to take effect wins -/
theorem first_registration_wins (r : Reg) (k : String) (v : Nat) (ops : List Op) (h : (r.get k).isSome = false) :
    successes k (.register k v :: ops) (run r (.register k v :: ops)).2 = 1 := by
  have := no_success_when_present ops (r.put k v) k (by simp [get_put_same])
  simp [run, step, h, successes, this]

/-- every interleaving of the goroutines' programs is one such operation sequence, so the two
    theorems above speak about every schedule -/
theorem interleaving_register_at_most_once (ts : List (List Op)) (s : List Op) (_ : Interleaving ts s) (r : Reg) (k : String) :
    successes k s (run r s).2 ≤ 1 := register_at_most_once s r k

theorem present_run (k : String) : ∀ (ops : List Op) (q : Reg), (q.get k).isSome = true → ((run q ops).1.get k).isSome = true
  | [], q, h => by simpa [run] using h
  | op :: ops, q, h => by
    simp only [run]
    exact present_run k ops (step q op).1 (present_stays q k h op)

/-- a lookup that takes effect after an add or a successful registration of `k` finds a value,
    whatever else happened in between -/
theorem lookup_after_put (r : Reg) (k : String) (v : Nat) (ops : List Op) :
    ∃ v', (step (run (r.put k v) ops).1 (.lookup k)).2 = .found v' := by
  have h := present_run k ops (r.put k v) (by simp [get_put_same])
  cases hg : (run (r.put k v) ops).1.get k with
  | none => simp [hg] at h
  | some v' => exact ⟨v', by simp [step, hg]⟩

end Sidetree.Props.C20

/-! ### sections of several accesses are atomic -/

namespace Sidetree.Props.C20
open Sidetree.Conc

theorem sinv_step (s s' : Sys) (t : Nat) (h : SInv s) (st : SStep s t s') : SInv s' := by
  obtain ⟨hx, hr⟩ := h
  cases st with
  | beginW body hall =>
    refine ⟨?_, ?_⟩
    · intro a b hab ha
      simp only [Sys.set] at ha ⊢
      by_cases hb : b = t
      · subst hb
        have : ¬ a = b := hab
        simp only [this, if_false] at ha
        rw [hall a] at ha; cases ha
      · simp only [hb, if_false]; exact hall b
    · intro a ha
      simp only [Sys.set] at ha ⊢
      by_cases hat : a = t
      · simp [hat] at ha
      · simp only [hat, if_false] at ha ⊢
        rw [hall a] at ha; cases ha
  | beginR body hout hnw hbody =>
    refine ⟨?_, ?_⟩
    · intro a b hab ha
      simp only [Sys.set] at ha ⊢
      by_cases hat : a = t
      · simp [hat] at ha
      · simp only [hat, if_false] at ha
        exact absurd ha (hnw a)
    · intro a ha
      simp only [Sys.set] at ha ⊢
      by_cases hat : a = t
      · simp [hat, hbody]
      · simp only [hat, if_false] at ha ⊢
        exact hr a ha
  | put k v rest hin htodo =>
    refine ⟨?_, ?_⟩
    · intro a b hab ha
      simp only [Sys.set] at ha ⊢
      by_cases hat : a = t
      · subst hat
        have hb : ¬ b = a := fun e => hab e.symm
        simp only [hb, if_false]
        exact hx a b hab hin
      · simp only [hat, if_false] at ha
        have := hx a t hat ha
        rw [this] at hin; cases hin
    · intro a ha
      simp only [Sys.set] at ha ⊢
      by_cases hat : a = t
      · simp [hat] at ha
      · simp only [hat, if_false] at ha ⊢
        exact hr a ha
  | get k rest m hin htodo =>
    refine ⟨?_, ?_⟩
    · intro a b hab ha
      simp only [Sys.set] at ha ⊢
      by_cases hat : a = t
      · subst hat
        simp only [if_true, Option.some.injEq] at ha
        subst ha
        have hb : ¬ b = a := fun e => hab e.symm
        simp only [hb, if_false]
        exact hx a b hab hin
      · simp only [hat, if_false] at ha
        by_cases hb : b = t
        · subst hb
          have := hx a b hab ha
          rw [this] at hin; cases hin
        · simp only [hb, if_false]
          exact hx a b hab ha
    · intro a ha
      simp only [Sys.set] at ha ⊢
      by_cases hat : a = t
      · subst hat
        simp only [if_true, Option.some.injEq] at ha ⊢
        subst ha
        have := hr a hin
        rw [htodo] at this
        simp only [List.all_cons, Bool.and_eq_true] at this
        exact this.2
      · simp only [hat, if_false] at ha ⊢
        exact hr a ha
  | done m hin htodo =>
    refine ⟨?_, ?_⟩
    · intro a b hab ha
      simp only [Sys.set] at ha ⊢
      by_cases hat : a = t
      · simp [hat] at ha
      · simp only [hat, if_false] at ha
        by_cases hb : b = t
        · simp [hb]
        · simp only [hb, if_false]
          exact hx a b hab ha
    · intro a ha
      simp only [Sys.set] at ha ⊢
      by_cases hat : a = t
      · simp [hat] at ha
      · simp only [hat, if_false] at ha ⊢
        exact hr a ha

theorem sreachable_inv (s : Sys) (h : SReachable s) : SInv s := by
  induction h with
  | init => exact ⟨by intro a b _ ha; simp [Sys.init] at ha, by intro a ha; simp [Sys.init] at ha⟩
  | step _ st ih => exact sinv_step _ _ _ ih st

/-- **a write section runs alone**: while goroutine `t` is inside a write section, every step the
    system takes is a step of `t` (nobody can enter, nobody else is inside) -/
theorem writer_runs_alone (s s' : Sys) (t u : Nat) (hr : SReachable s) (ht : (s.th t).inside = some .w)
    (st : SStep s u s') : u = t := by
  have hx := (sreachable_inv s hr).1
  apply Classical.byContradiction
  intro hne
  have hout : (s.th u).inside = none := hx t u (fun e => hne e.symm) ht
  cases st with
  | beginW body hall => rw [hall t] at ht; cases ht
  | beginR body _ hnw _ => exact hnw t ht
  | put k v rest hin _ => rw [hout] at hin; cases hin
  | get k rest m hin _ => rw [hout] at hin; cases hin
  | done m hin _ => rw [hout] at hin; cases hin

/-- **the map does not change under a reader**: while any goroutine is inside a read section, no
    step changes the registry -/
theorem reader_sees_constant_map (s s' : Sys) (t u : Nat) (hr : SReachable s) (ht : (s.th t).inside = some .r)
    (st : SStep s u s') : s'.reg = s.reg := by
  have hx := (sreachable_inv s hr).1
  cases st with
  | beginW _ _ => rfl
  | beginR _ _ _ _ => rfl
  | put k v rest hin _ =>
    exfalso
    by_cases e : u = t
    · subst e; rw [hin] at ht; cases ht
    · have := hx u t e hin
      rw [this] at ht; cases ht
  | get _ _ _ _ _ => rfl
  | done _ _ _ => rfl

/-- what a write section does step by step is what its body does to the map in one go -/
def applyPuts : List Prim → Reg → Reg
  | [], r => r
  | .put k v :: rest, r => applyPuts rest (r.put k v)
  | .get _ :: rest, r => applyPuts rest r

/-- one step of the goroutine inside a write section advances its body by one access -/
theorem writer_step (s s' : Sys) (t : Nat) (ht : (s.th t).inside = some .w) (st : SStep s t s') :
    ((s'.th t).inside = some .w ∧ ∃ p, (s.th t).todo = p :: (s'.th t).todo ∧ s'.reg = applyPuts [p] s.reg) ∨
    ((s'.th t).inside = none ∧ (s.th t).todo = [] ∧ s'.reg = s.reg) := by
  cases st with
  | beginW body hall => rw [hall t] at ht; cases ht
  | beginR body hout _ _ => rw [hout] at ht; cases ht
  | put k v rest hin htodo => left; exact ⟨by simp [Sys.set], .put k v, by simp [Sys.set, htodo], by simp [Sys.set, applyPuts]⟩
  | get k rest m hin htodo =>
    left
    rw [hin] at ht
    cases ht
    exact ⟨by simp [Sys.set], .get k, by simp [Sys.set, htodo], by simp [Sys.set, applyPuts]⟩
  | done m hin htodo => right; exact ⟨by simp [Sys.set], htodo, by simp [Sys.set]⟩

end Sidetree.Props.C20
