/-
  The hash-binding theorems with the collision NAMED.

  `Collision H := ∃ c h a b, H c = some h ∧ a ≠ b ∧ h a = h b` is, classically, true of every
  hash family that supports at least one code: `HashOK.digest_small` bounds the digests while the
  inputs are unbounded, so two different inputs with the same digest exist by pigeonhole.  A
  conclusion of the form `X ∨ Collision H` therefore carries no information.  The proofs of those
  theorems never use an arbitrary collision, though: when `X` fails they exhibit one particular
  pair — the canonical (RFC 8785) byte strings of the two values the theorem is about — that
  collides under the hash function of the code in use.  The `…_at` theorems below say exactly
  that: `X`, or THESE two byte strings collide under THIS code (`CollidesAt`, `CanonCollide`).
  For a collision-resistant function (SHA-256/512 under codes 18/19) nobody can exhibit such a
  pair, which is the meaningful reading of "or the hash function is broken".
-/
import Sidetree.Props.C06Num
import Sidetree.Props.C03Values
import Sidetree.Props.C04

namespace Sidetree
open Sidetree.Hashing

/-- these two inputs collide under the hash function of code `c` -/
def CollidesAt (H : HashFam) (c : Nat) (a b : Bytes) : Prop := ∃ h, H c = some h ∧ a ≠ b ∧ h a = h b

/-- the canonical byte strings of `v` and `w` (both exist) collide under the hash function of code `c` -/
def CanonCollide (H : HashFam) (c : Nat) (v w : Json) : Prop :=
  ∃ tv tw, transformValue v = some tv ∧ transformValue w = some tw ∧
    CollidesAt H c (bytesOfString (String.ofList tv)) (bytesOfString (String.ofList tw))

/-- a named collision is in particular a collision (the converse direction is where the
    information is lost) -/
theorem CollidesAt.collision {H : HashFam} {c : Nat} {a b : Bytes} (h : CollidesAt H c a b) : Collision H := by
  obtain ⟨g, hg, hne, he⟩ := h
  exact ⟨c, g, a, b, hg, hne, he⟩

theorem CanonCollide.collision {H : HashFam} {c : Nat} {v w : Json} (h : CanonCollide H c v w) : Collision H := by
  obtain ⟨_, _, _, _, hc⟩ := h
  exact hc.collision

/-- the common core: two values with the same model multihash under code `c` have the same
    canonical bytes, or their canonical bytes collide under code `c` -/
theorem same_multihash_at (H : HashFam) (ok : HashOK H) (v w : Json) (c : Nat) (s : String)
    (h1 : calculateModelMultihash H v c = some s) (h2 : calculateModelMultihash H w c = some s) :
    transformValue v = transformValue w ∨ CanonCollide H c v w := by
  obtain ⟨g1, c1, hg1, t1, e1⟩ := calculate_eq h1
  obtain ⟨g2, c2, hg2, t2, e2⟩ := calculate_eq h2
  have : g1 = g2 := by rw [hg1] at hg2; exact Option.some.inj hg2
  subst this
  have hb := b64EncodeStr_injective _ _ (e1.symm.trans e2)
  have hd := mhEncode_injective c _ _ (ok.code_small _ _ hg1) (ok.digest_small _ _ hg1 _)
    (ok.digest_small _ _ hg1 _) hb
  by_cases hcanon : c1 = c2
  · left; rw [t1, t2, hcanon]
  · right
    exact ⟨c1, c2, t1, t2, g1, hg1,
      fun e => hcanon (ofList_injective _ _ (bytesOfString_injective _ _ e)), hd⟩

end Sidetree

namespace Sidetree.Props.C06
open Sidetree Sidetree.Json Sidetree.Hashing

/-- a hash validates against `v` only if it was computed from a value with the same canonical
    form — or the canonical bytes of `v` and `w` collide under the code of the hash -/
theorem valid_same_value_at (H : HashFam) (ok : HashOK H) (v w : Json) (c : Nat) (enc : String)
    (hw : calculateModelMultihash H w c = some enc) (hv : isValidModelMultihash H v enc = true) :
    transformValue v = transformValue w ∨
      ∃ tv tw, transformValue v = some tv ∧ transformValue w = some tw ∧
        CollidesAt H c (bytesOfString (String.ofList tv)) (bytesOfString (String.ofList tw)) := by
  obtain ⟨c', hv'⟩ := (valid_iff H ok v enc).mp hv
  have hc' := code_of_hash H ok v c' enc hv'
  have hc := code_of_hash H ok w c enc hw
  have : c' = c := by rw [hc'] at hc; exact Option.some.inj hc
  subst this
  exact same_multihash_at H ok v w c' enc hv' hw

/-- **equal model hashes ⇒ equal values** (as normal forms), or the canonical bytes of the two
    values collide under the code of the hash -/
theorem same_hash_same_value_at (H : HashFam) (ok : HashOK H) (v w : Json) (c : Nat) (enc : String)
    (hiv : Props.C05.intsOnly v = true) (hiw : Props.C05.intsOnly w = true)
    (hv : calculateModelMultihash H v c = some enc) (hw : calculateModelMultihash H w c = some enc) :
    v.normalize = w.normalize ∨
      ∃ tv tw, transformValue v = some tv ∧ transformValue w = some tw ∧
        CollidesAt H c (bytesOfString (String.ofList tv)) (bytesOfString (String.ofList tw)) := by
  rcases same_multihash_at H ok v w c enc hv hw with h | h
  · left
    obtain ⟨_, canon, _, htv, _⟩ := calculate_eq hv
    have htw : transformValue w = some canon := by rw [← h, htv]
    have jv : v.jcs = some canon := by
      unfold transformValue at htv
      split at htv
      · exact htv
      · cases htv
    have jw : w.jcs = some canon := by
      unfold transformValue at htw
      split at htw
      · exact htw
      · cases htw
    exact canonical_bytes_determine_value v w canon (Props.C05.intsOnly_numsStable v hiv)
      (Props.C05.intsOnly_numsStable w hiw) jv jw
  · exact .inr h

end Sidetree.Props.C06

namespace Sidetree.Props.C04
open Sidetree Sidetree.Hashing

/-- keys with the same reveal value have the same canonical JWK — or the two canonical JWKs
    collide under the code of the reveal value -/
theorem reveal_separates_at (H : HashFam) (ok : HashOK H) (j1 j2 : Json) (c : Nat) (s : String)
    (h1 : revealValue H j1 c = some s) (h2 : revealValue H j2 c = some s) :
    transformValue j1 = transformValue j2 ∨ CanonCollide H c j1 j2 :=
  same_multihash_at H ok j1 j2 c s h1 h2

/-- keys with the same commitment have the same canonical JWK — or the two canonical JWKs collide
    under code `c`, or their digests (different, the inner hashes) collide under code `c` -/
theorem commitment_separates_at (H : HashFam) (ok : HashOK H) (j1 j2 : Json) (c : Nat) (s : String)
    (h1 : commitment H j1 c = some s) (h2 : commitment H j2 c = some s) :
    transformValue j1 = transformValue j2 ∨ CanonCollide H c j1 j2 ∨
      ∃ t1 t2 h, transformValue j1 = some t1 ∧ transformValue j2 = some t2 ∧ H c = some h ∧
        CollidesAt H c (h (bytesOfString (String.ofList t1))) (h (bytesOfString (String.ofList t2))) := by
  unfold commitment at h1 h2
  cases t1 : transformValue j1 with
  | none => simp [t1] at h1
  | some c1 =>
    cases t2 : transformValue j2 with
    | none => simp [t2] at h2
    | some c2 =>
      cases hh : H c with
      | none => simp [t1, hh] at h1
      | some h =>
        simp [t1, hh, computeMultihash] at h1
        simp [t2, hh, computeMultihash] at h2
        have hb := b64EncodeStr_injective _ _ (h1.trans h2.symm)
        have hd := mhEncode_injective c _ _ (ok.code_small _ _ hh) (ok.digest_small _ _ hh _)
          (ok.digest_small _ _ hh _) hb
        by_cases hcanon : c1 = c2
        · left; rw [hcanon]
        · right
          by_cases hinner : h (bytesOfString (String.ofList c1)) = h (bytesOfString (String.ofList c2))
          · left
            exact ⟨c1, c2, by first | rfl | exact t1, by first | rfl | exact t2, h, hh,
              fun e => hcanon (ofList_injective _ _ (bytesOfString_injective _ _ e)), hinner⟩
          · right
            exact ⟨c1, c2, h, by first | rfl | exact t1, by first | rfl | exact t2, by first | rfl | exact hh, h, hh, hinner, hd⟩

end Sidetree.Props.C04

namespace Sidetree.Props.C03
open Sidetree Sidetree.Json Sidetree.Parser Sidetree.Hashing Sidetree.Framing

variable (H : HashFam)

/-- two suffix data with the same suffix have the same canonical form — or their canonical bytes
    collide under the suffix algorithm -/
theorem suffix_binds_at (ok : HashOK H) (sd1 sd2 : SuffixData) (alg : Nat) (s : String)
    (h1 : calculateModelMultihash H sd1.toJson alg = some s)
    (h2 : calculateModelMultihash H sd2.toJson alg = some s) :
    transformValue sd1.toJson = transformValue sd2.toJson ∨ CanonCollide H alg sd1.toJson sd2.toJson :=
  same_multihash_at H ok sd1.toJson sd2.toJson alg s h1 h2

/-- two deltas that validate against the same hash have the same canonical form — or their
    canonical bytes collide under the code of that hash -/
theorem delta_binds_at (ok : HashOK H) (d1 d2 : Option Delta) (h : String)
    (h1 : isValidModelMultihash H (deltaJson d1) h = true)
    (h2 : isValidModelMultihash H (deltaJson d2) h = true) :
    transformValue (deltaJson d1) = transformValue (deltaJson d2) ∨
      ∃ c, getMultihashCode h = some c ∧ CanonCollide H c (deltaJson d1) (deltaJson d2) := by
  obtain ⟨c, hc⟩ := (C06.valid_iff H ok (deltaJson d2) h).mp h2
  rcases C06.valid_same_value_at H ok (deltaJson d1) (deltaJson d2) c h hc h1 with e | e
  · exact .inl e
  · exact .inr ⟨c, C06.code_of_hash H ok _ c h hc, e⟩

/-- **changing any part of the suffix data changes the DID** — or the canonical bytes of the two
    suffix data collide under the suffix algorithm -/
theorem suffix_binds_value_at (ok : HashOK H) (sd1 sd2 : SuffixData) (alg : Nat) (s : String)
    (hs1 : originStable sd1) (hs2 : originStable sd2)
    (h1 : calculateModelMultihash H sd1.toJson alg = some s)
    (h2 : calculateModelMultihash H sd2.toJson alg = some s) :
    (sd1.deltaHash = sd2.deltaHash ∧ sd1.recoveryCommitment = sd2.recoveryCommitment ∧ sd1.type = sd2.type ∧
      sd1.anchorOrigin.isSome = sd2.anchorOrigin.isSome ∧ originNormal sd1 = originNormal sd2) ∨
      CanonCollide H alg sd1.toJson sd2.toJson := by
  rcases suffix_binds_at H ok sd1 sd2 alg s h1 h2 with he | hc
  · left
    obtain ⟨_, canon, _, ht1, _⟩ := calculate_eq h1
    have ht2 : transformValue sd2.toJson = some canon := by rw [← he, ht1]
    have j1 : sd1.toJson.jcs = some canon := jcs_of_transform_obj _ canon ht1
    have j2 : sd2.toJson.jcs = some canon := jcs_of_transform_obj _ canon ht2
    have hn := C06.canonical_bytes_determine_value _ _ canon (suffix_numsStable sd1 hs1) (suffix_numsStable sd2 hs2) j1 j2
    obtain ⟨n, hn1⟩ := normalize_of_jcs _ _ j1
    have hn2 : normalize sd2.toJson = some n := by rw [← hn, hn1]
    obtain ⟨e1, e2, e3, e4⟩ := suffix_data_injective sd1 sd2 n hn1 hn2
    exact ⟨e1, e2, e3, origin_presence sd1 sd2 n hn1 hn2, e4⟩
  · exact .inr hc

/-- … and with anchor origins absent or strings: the same suffix data, or that named collision -/
theorem suffix_binds_equal_at (ok : HashOK H) (sd1 sd2 : SuffixData) (alg : Nat) (s : String)
    (hp1 : plainOrigin sd1) (hp2 : plainOrigin sd2)
    (h1 : calculateModelMultihash H sd1.toJson alg = some s)
    (h2 : calculateModelMultihash H sd2.toJson alg = some s) :
    sd1 = sd2 ∨ CanonCollide H alg sd1.toJson sd2.toJson := by
  rcases suffix_binds_at H ok sd1 sd2 alg s h1 h2 with he | hc
  · left
    obtain ⟨_, canon, _, ht1, _⟩ := calculate_eq h1
    have ht2 : transformValue sd2.toJson = some canon := by rw [← he, ht1]
    have j1 : sd1.toJson.jcs = some canon := jcs_of_transform_obj _ canon ht1
    have j2 : sd2.toJson.jcs = some canon := jcs_of_transform_obj _ canon ht2
    have hn := C06.canonical_bytes_determine_value _ _ canon (suffix_numsStable sd1 (plainOrigin_stable sd1 hp1))
      (suffix_numsStable sd2 (plainOrigin_stable sd2 hp2)) j1 j2
    obtain ⟨n, hn1⟩ := normalize_of_jcs _ _ j1
    have hn2 : normalize sd2.toJson = some n := by rw [← hn, hn1]
    exact suffix_data_injective_normal sd1 sd2 n hn1 hn2 (plainOrigin_fixed sd1 hp1) (plainOrigin_fixed sd2 hp2)
  · exact .inr hc

/-- **changing the delta changes the delta hash (hence the DID) or is rejected** — or the
    canonical bytes of the two deltas collide under the code of the delta hash -/
theorem delta_binds_value_at (ok : HashOK H) (d1 d2 : Delta) (h : String)
    (hs1 : d1.toJson.numsStable) (hs2 : d2.toJson.numsStable)
    (h1 : isValidModelMultihash H (deltaJson (some d1)) h = true)
    (h2 : isValidModelMultihash H (deltaJson (some d2)) h = true) :
    (d1.updateCommitment = d2.updateCommitment ∧ (effPatches d1).isSome = (effPatches d2).isSome ∧
      (effPatches d1).bind normalize = (effPatches d2).bind normalize) ∨
      ∃ c, getMultihashCode h = some c ∧ CanonCollide H c d1.toJson d2.toJson := by
  rcases delta_binds_at H ok (some d1) (some d2) h h1 h2 with he | hc
  · left
    simp only [deltaJson] at he h1
    obtain ⟨c, hc1⟩ := (C06.valid_iff H ok d1.toJson h).mp h1
    obtain ⟨_, canon, _, ht1, _⟩ := calculate_eq hc1
    have ht2 : transformValue d2.toJson = some canon := by rw [← he, ht1]
    have j1 : d1.toJson.jcs = some canon := by
      have := ht1; rw [delta_toJson_eq] at this ⊢; exact jcs_of_transform_obj _ canon this
    have j2 : d2.toJson.jcs = some canon := by
      have := ht2; rw [delta_toJson_eq] at this ⊢; exact jcs_of_transform_obj _ canon this
    have hn := C06.canonical_bytes_determine_value _ _ canon hs1 hs2 j1 j2
    obtain ⟨n, hn1⟩ := normalize_of_jcs _ _ j1
    have hn2 : normalize d2.toJson = some n := by rw [← hn, hn1]
    exact delta_injective d1 d2 n hn1 hn2
  · right
    simpa only [deltaJson] using hc

end Sidetree.Props.C03
