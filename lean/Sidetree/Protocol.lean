/-
  Protocol parameters (pkg/api/protocol/protocol.go: `Protocol`). Every numeric field of
  the Go struct is present, also the ones no modelled rule reads, so that statements of
  the form "depends on no other parameter" quantify over all of them.
-/
import Sidetree.Json

namespace Sidetree

structure Protocol where
  genesisTime : Nat := 0
  multihashAlgorithms : List Nat := [18]
  maxOperationCount : Nat := 0
  maxOperationSize : Nat := 0
  maxOperationHashLength : Nat := 0
  maxDeltaSize : Nat := 0
  maxCasURILength : Nat := 0
  compressionAlgorithm : String := ""
  maxCoreIndexFileSize : Nat := 0
  maxProofFileSize : Nat := 0
  maxProvisionalIndexFileSize : Nat := 0
  maxChunkFileSize : Nat := 0
  patches : List String := []
  signatureAlgorithms : List String := []
  keyAlgorithms : List String := []
  maxOperationTimeDelta : Nat := 0
  nonceSize : Nat := 0
  maxMemoryDecompressionFactor : Nat := 0
deriving Repr, Inhabited, DecidableEq

/-- numeric protocol fields by their Go selector name (used where the *name* of the
    field a rule reads is a fact extracted from the source) -/
def Protocol.numField (p : Protocol) : String → Option Nat
  | "GenesisTime" => some p.genesisTime
  | "MaxOperationCount" => some p.maxOperationCount
  | "MaxOperationSize" => some p.maxOperationSize
  | "MaxOperationHashLength" => some p.maxOperationHashLength
  | "MaxDeltaSize" => some p.maxDeltaSize
  | "MaxCasURILength" => some p.maxCasURILength
  | "MaxCoreIndexFileSize" => some p.maxCoreIndexFileSize
  | "MaxProofFileSize" => some p.maxProofFileSize
  | "MaxProvisionalIndexFileSize" => some p.maxProvisionalIndexFileSize
  | "MaxChunkFileSize" => some p.maxChunkFileSize
  | "MaxOperationTimeDelta" => some p.maxOperationTimeDelta
  | "NonceSize" => some p.nonceSize
  | "MaxMemoryDecompressionFactor" => some p.maxMemoryDecompressionFactor
  | _ => none

namespace Protocol

private def natD (j : Json) (k : String) : Nat := ((j.get? k).bind Json.nat?).getD 0
private def strList (j : Json) (k : String) : List String :=
  match (j.get? k).bind Json.arr? with
  | some xs => xs.filterMap Json.str?
  | none => []
private def natList (j : Json) (k : String) : List Nat :=
  match (j.get? k).bind Json.arr? with
  | some xs => xs.filterMap Json.nat?
  | none => []

/-- decode the protocol object of a case line (member names = the Go json tags) -/
def ofJson (j : Json) : Protocol :=
  { genesisTime := natD j "genesisTime"
    multihashAlgorithms := natList j "multihashAlgorithms"
    maxOperationCount := natD j "maxOperationCount"
    maxOperationSize := natD j "maxOperationSize"
    maxOperationHashLength := natD j "maxOperationHashLength"
    maxDeltaSize := natD j "maxDeltaSize"
    maxCasURILength := natD j "maxCasUriLength"
    compressionAlgorithm := ((j.get? "compressionAlgorithm").bind Json.str?).getD ""
    maxCoreIndexFileSize := natD j "maxCoreIndexFileSize"
    maxProofFileSize := natD j "maxProofFileSize"
    maxProvisionalIndexFileSize := natD j "maxProvisionalIndexFileSize"
    maxChunkFileSize := natD j "maxChunkFileSize"
    patches := strList j "patches"
    signatureAlgorithms := strList j "signatureAlgorithms"
    keyAlgorithms := strList j "keyAlgorithms"
    maxOperationTimeDelta := natD j "maxOperationTimeDelta"
    nonceSize := natD j "nonceSize"
    maxMemoryDecompressionFactor := natD j "maxMemoryDecompressionFactor" }

end Protocol
end Sidetree
