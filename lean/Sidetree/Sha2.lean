/-
  SHA-256 / SHA-384 / SHA-512 (FIPS 180-4), executable only. Theorems never unfold these:
  they take the hash family as a parameter.
-/
import Sidetree.Bytes

namespace Sidetree.Sha2

def k256 : Array UInt32 := #[
  0x428a2f98, 0x71374491, 0xb5c0fbcf, 0xe9b5dba5, 0x3956c25b, 0x59f111f1, 0x923f82a4, 0xab1c5ed5,
  0xd807aa98, 0x12835b01, 0x243185be, 0x550c7dc3, 0x72be5d74, 0x80deb1fe, 0x9bdc06a7, 0xc19bf174,
  0xe49b69c1, 0xefbe4786, 0x0fc19dc6, 0x240ca1cc, 0x2de92c6f, 0x4a7484aa, 0x5cb0a9dc, 0x76f988da,
  0x983e5152, 0xa831c66d, 0xb00327c8, 0xbf597fc7, 0xc6e00bf3, 0xd5a79147, 0x06ca6351, 0x14292967,
  0x27b70a85, 0x2e1b2138, 0x4d2c6dfc, 0x53380d13, 0x650a7354, 0x766a0abb, 0x81c2c92e, 0x92722c85,
  0xa2bfe8a1, 0xa81a664b, 0xc24b8b70, 0xc76c51a3, 0xd192e819, 0xd6990624, 0xf40e3585, 0x106aa070,
  0x19a4c116, 0x1e376c08, 0x2748774c, 0x34b0bcb5, 0x391c0cb3, 0x4ed8aa4a, 0x5b9cca4f, 0x682e6ff3,
  0x748f82ee, 0x78a5636f, 0x84c87814, 0x8cc70208, 0x90befffa, 0xa4506ceb, 0xbef9a3f7, 0xc67178f2]

def rotr32 (x : UInt32) (n : UInt32) : UInt32 := (x >>> n) ||| (x <<< (32 - n))

def pad (msg : Bytes) (blockBytes lenBytes : Nat) : Bytes :=
  let l := msg.length
  let padLen := (blockBytes - (l + 1 + lenBytes) % blockBytes) % blockBytes
  let bits := l * 8
  let lenField := (List.range lenBytes).map fun i => (bits / 2 ^ (8 * (lenBytes - 1 - i)) % 256).toUInt8
  msg ++ [0x80] ++ List.replicate padLen 0 ++ lenField

def be32 (a b c d : UInt8) : UInt32 :=
  (a.toUInt32 <<< 24) ||| (b.toUInt32 <<< 16) ||| (c.toUInt32 <<< 8) ||| d.toUInt32

def words32 : Bytes → List UInt32
  | a :: b :: c :: d :: rest => be32 a b c d :: words32 rest
  | _ => []

def chunks {α} (n : Nat) (xs : List α) : List (List α) :=
  if h : n = 0 ∨ xs = [] then [] else
    xs.take n :: chunks n (xs.drop n)
termination_by xs.length
decreasing_by
  simp only [not_or] at h
  have : xs.length ≠ 0 := by intro h0; exact h.2 (List.length_eq_zero_iff.mp h0)
  simp [List.length_drop]; omega

def schedule256 (w : Array UInt32) : Array UInt32 := Id.run do
  let mut w := w
  for i in [16:64] do
    let w15 := w[i - 15]!
    let w2 := w[i - 2]!
    let s0 := rotr32 w15 7 ^^^ rotr32 w15 18 ^^^ (w15 >>> 3)
    let s1 := rotr32 w2 17 ^^^ rotr32 w2 19 ^^^ (w2 >>> 10)
    w := w.push (w[i - 16]! + s0 + w[i - 7]! + s1)
  return w

def compress256 (h : Array UInt32) (block : List UInt32) : Array UInt32 := Id.run do
  let w := schedule256 block.toArray
  let mut a := h[0]!; let mut b := h[1]!; let mut c := h[2]!; let mut d := h[3]!
  let mut e := h[4]!; let mut f := h[5]!; let mut g := h[6]!; let mut hh := h[7]!
  for i in [0:64] do
    let s1 := rotr32 e 6 ^^^ rotr32 e 11 ^^^ rotr32 e 25
    let ch := (e &&& f) ^^^ ((~~~ e) &&& g)
    let t1 := hh + s1 + ch + k256[i]! + w[i]!
    let s0 := rotr32 a 2 ^^^ rotr32 a 13 ^^^ rotr32 a 22
    let mj := (a &&& b) ^^^ (a &&& c) ^^^ (b &&& c)
    let t2 := s0 + mj
    hh := g; g := f; f := e; e := d + t1; d := c; c := b; b := a; a := t1 + t2
  return #[h[0]! + a, h[1]! + b, h[2]! + c, h[3]! + d, h[4]! + e, h[5]! + f, h[6]! + g, h[7]! + hh]

def bytes32 (x : UInt32) : Bytes :=
  [(x >>> 24).toUInt8, (x >>> 16).toUInt8, (x >>> 8).toUInt8, x.toUInt8]

def sha256 (msg : Bytes) : Bytes :=
  let init : Array UInt32 := #[0x6a09e667, 0xbb67ae85, 0x3c6ef372, 0xa54ff53a, 0x510e527f, 0x9b05688c, 0x1f83d9ab, 0x5be0cd19]
  let blocks := chunks 16 (words32 (pad msg 64 8))
  (blocks.foldl compress256 init).toList.flatMap bytes32

def k512 : Array UInt64 := #[
  0x428a2f98d728ae22, 0x7137449123ef65cd, 0xb5c0fbcfec4d3b2f, 0xe9b5dba58189dbbc, 0x3956c25bf348b538,
  0x59f111f1b605d019, 0x923f82a4af194f9b, 0xab1c5ed5da6d8118, 0xd807aa98a3030242, 0x12835b0145706fbe,
  0x243185be4ee4b28c, 0x550c7dc3d5ffb4e2, 0x72be5d74f27b896f, 0x80deb1fe3b1696b1, 0x9bdc06a725c71235,
  0xc19bf174cf692694, 0xe49b69c19ef14ad2, 0xefbe4786384f25e3, 0x0fc19dc68b8cd5b5, 0x240ca1cc77ac9c65,
  0x2de92c6f592b0275, 0x4a7484aa6ea6e483, 0x5cb0a9dcbd41fbd4, 0x76f988da831153b5, 0x983e5152ee66dfab,
  0xa831c66d2db43210, 0xb00327c898fb213f, 0xbf597fc7beef0ee4, 0xc6e00bf33da88fc2, 0xd5a79147930aa725,
  0x06ca6351e003826f, 0x142929670a0e6e70, 0x27b70a8546d22ffc, 0x2e1b21385c26c926, 0x4d2c6dfc5ac42aed,
  0x53380d139d95b3df, 0x650a73548baf63de, 0x766a0abb3c77b2a8, 0x81c2c92e47edaee6, 0x92722c851482353b,
  0xa2bfe8a14cf10364, 0xa81a664bbc423001, 0xc24b8b70d0f89791, 0xc76c51a30654be30, 0xd192e819d6ef5218,
  0xd69906245565a910, 0xf40e35855771202a, 0x106aa07032bbd1b8, 0x19a4c116b8d2d0c8, 0x1e376c085141ab53,
  0x2748774cdf8eeb99, 0x34b0bcb5e19b48a8, 0x391c0cb3c5c95a63, 0x4ed8aa4ae3418acb, 0x5b9cca4f7763e373,
  0x682e6ff3d6b2b8a3, 0x748f82ee5defb2fc, 0x78a5636f43172f60, 0x84c87814a1f0ab72, 0x8cc702081a6439ec,
  0x90befffa23631e28, 0xa4506cebde82bde9, 0xbef9a3f7b2c67915, 0xc67178f2e372532b, 0xca273eceea26619c,
  0xd186b8c721c0c207, 0xeada7dd6cde0eb1e, 0xf57d4f7fee6ed178, 0x06f067aa72176fba, 0x0a637dc5a2c898a6,
  0x113f9804bef90dae, 0x1b710b35131c471b, 0x28db77f523047d84, 0x32caab7b40c72493, 0x3c9ebe0a15c9bebc,
  0x431d67c49c100d4c, 0x4cc5d4becb3e42b6, 0x597f299cfc657e2a, 0x5fcb6fab3ad6faec, 0x6c44198c4a475817]

def rotr64 (x : UInt64) (n : UInt64) : UInt64 := (x >>> n) ||| (x <<< (64 - n))

def be64 : Bytes → UInt64
  | bs => bs.foldl (fun acc b => (acc <<< 8) ||| b.toUInt64) 0

def words64 (bs : Bytes) : List UInt64 := (chunks 8 bs).map be64

def schedule512 (w : Array UInt64) : Array UInt64 := Id.run do
  let mut w := w
  for i in [16:80] do
    let w15 := w[i - 15]!
    let w2 := w[i - 2]!
    let s0 := rotr64 w15 1 ^^^ rotr64 w15 8 ^^^ (w15 >>> 7)
    let s1 := rotr64 w2 19 ^^^ rotr64 w2 61 ^^^ (w2 >>> 6)
    w := w.push (w[i - 16]! + s0 + w[i - 7]! + s1)
  return w

def compress512 (h : Array UInt64) (block : List UInt64) : Array UInt64 := Id.run do
  let w := schedule512 block.toArray
  let mut a := h[0]!; let mut b := h[1]!; let mut c := h[2]!; let mut d := h[3]!
  let mut e := h[4]!; let mut f := h[5]!; let mut g := h[6]!; let mut hh := h[7]!
  for i in [0:80] do
    let s1 := rotr64 e 14 ^^^ rotr64 e 18 ^^^ rotr64 e 41
    let ch := (e &&& f) ^^^ ((~~~ e) &&& g)
    let t1 := hh + s1 + ch + k512[i]! + w[i]!
    let s0 := rotr64 a 28 ^^^ rotr64 a 34 ^^^ rotr64 a 39
    let mj := (a &&& b) ^^^ (a &&& c) ^^^ (b &&& c)
    let t2 := s0 + mj
    hh := g; g := f; f := e; e := d + t1; d := c; c := b; b := a; a := t1 + t2
  return #[h[0]! + a, h[1]! + b, h[2]! + c, h[3]! + d, h[4]! + e, h[5]! + f, h[6]! + g, h[7]! + hh]

def bytes64 (x : UInt64) : Bytes :=
  [(x >>> 56).toUInt8, (x >>> 48).toUInt8, (x >>> 40).toUInt8, (x >>> 32).toUInt8,
   (x >>> 24).toUInt8, (x >>> 16).toUInt8, (x >>> 8).toUInt8, x.toUInt8]

def sha512With (init : Array UInt64) (outBytes : Nat) (msg : Bytes) : Bytes :=
  let blocks := chunks 16 (words64 (pad msg 128 16))
  ((blocks.foldl compress512 init).toList.flatMap bytes64).take outBytes

def sha512 : Bytes → Bytes :=
  sha512With #[0x6a09e667f3bcc908, 0xbb67ae8584caa73b, 0x3c6ef372fe94f82b, 0xa54ff53a5f1d36f1,
    0x510e527fade682d1, 0x9b05688c2b3e6c1f, 0x1f83d9abfb41bd6b, 0x5be0cd19137e2179] 64

def sha384 : Bytes → Bytes :=
  sha512With #[0xcbbb9d5dc1059ed8, 0x629a292a367cd507, 0x9159015a3070dd17, 0x152fecd8f70e5939,
    0x67332667ffc00b31, 0x8eb44a8768581511, 0xdb0c2e0d64f98fa7, 0x47b5481dbefa4fa4] 48

end Sidetree.Sha2
