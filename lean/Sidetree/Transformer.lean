/-
  pkg/versions/1_0/doctransformer/didtransformer/transformer.go and
  pkg/versions/1_0/doctransformer/metadata/metadata.go.
-/
import Sidetree.Applier
import Sidetree.KeyCodec

namespace Sidetree

/-! ### base58 (btcutil) and multibase base58btc -/

def b58Alphabet : List Char := "123456789ABCDEFGHJKLMNPQRSTUVWXYZabcdefghijkmnopqrstuvwxyz".toList

def b58Digits : Nat → Nat → List Char
  | 0, _ => []
  | fuel + 1, n => if n = 0 then [] else b58Digits fuel (n / 58) ++ [b58Alphabet.getD (n % 58) '?']

/-- `base58.Encode`: big-endian number in base 58, one `1` per leading zero byte -/
def base58Encode (bs : Bytes) : String :=
  let zeros := (bs.takeWhile (· == 0)).length
  String.ofList (List.replicate zeros '1' ++ b58Digits (bs.length * 2 + 1) (fromBE bs))

/-! ### RFC 3339 (UTC) of a Unix time -/

/-- civil date from days since 1970-01-01 (Howard Hinnant's algorithm) -/
def civilFromDays (z : Nat) : Nat × Nat × Nat :=
  let z := z + 719468
  let era := z / 146097
  let doe := z - era * 146097
  let yoe := (doe - doe / 1460 + doe / 36524 - doe / 146096) / 365
  let y := yoe + era * 400
  let doy := doe - (365 * yoe + yoe / 4 - yoe / 100)
  let mp := (5 * doy + 2) / 153
  let d := doy - (153 * mp + 2) / 5 + 1
  let m := if mp < 10 then mp + 3 else mp - 9
  (if m ≤ 2 then y + 1 else y, m, d)

def pad2 (n : Nat) : String := (if n < 10 then "0" else "") ++ toString n
def pad4 (n : Nat) : String := (if n < 10 then "000" else if n < 100 then "00" else if n < 1000 then "0" else "") ++ toString n

/-- `time.Unix(t, 0).UTC().Format(time.RFC3339)` -/
def rfc3339 (t : Nat) : String :=
  let (y, m, d) := civilFromDays (t / 86400)
  let s := t % 86400
  pad4 y ++ "-" ++ pad2 m ++ "-" ++ pad2 d ++ "T" ++ pad2 (s / 3600) ++ ":" ++ pad2 (s % 3600 / 60) ++ ":" ++ pad2 (s % 60) ++ "Z"

/-! ### transformation -/

structure TransformOpts where
  methodCtx : List String := []
  includeBase : Bool := false
  includePublished : Bool := false
  includeUnpublished : Bool := false
  /-- key type ↦ context (`Expected.keyContexts` unless overridden) -/
  keyCtx : List (String × String)

/-- an operation of the published / unpublished lists, as far as metadata shows it -/
structure OpRef where
  type : String
  time : Nat
  number : Nat
  canonicalReference : String
deriving DecidableEq, Repr

namespace Transformer
open Patch

def didContext : String := "https://www.w3.org/ns/did/v1"
def resolutionContext : String := "https://w3id.org/did-resolution/v1"

/-- lexicographic order on (transaction time, transaction number) -/
def opLe (a b : OpRef) : Bool := a.time < b.time || (a.time == b.time && a.number ≤ b.number)

/-- `sortOperations` (any stable or unstable sort with a lawful comparator gives a sorted
    permutation; the model uses merge sort) -/
def sortOps (ops : List OpRef) : List OpRef := ops.mergeSort opLe

/-- `getPublishedOperations`: sorted, first occurrence of every canonical reference kept -/
def dedupByRef : List OpRef → List String → List OpRef
  | [], _ => []
  | o :: rest, seen => if seen.contains o.canonicalReference then dedupByRef rest seen
                       else o :: dedupByRef rest (o.canonicalReference :: seen)

def publishedOps (ops : List OpRef) : List OpRef := dedupByRef (sortOps ops) []
def unpublishedOps (ops : List OpRef) : List OpRef := sortOps ops

/-- `getObjectID` -/
def objectID (o : TransformOpts) (did id : String) : String := if o.includeBase then "#" ++ id else did ++ "#" ++ id

/-- Ed25519 public key bytes of an internal JWK (`getED2519PublicKey`) -/
def edKeyOf (jwk : Json) : Option Bytes :=
  edFromJwk { kty := stringEntry (jwk.get? "kty"), crv := stringEntry (jwk.get? "crv"),
              x := stringEntry (jwk.get? "x"), y := stringEntry (jwk.get? "y") }

/-- one verification method; `none` = the transformation fails -/
def externalKey (o : TransformOpts) (did : String) (pk : Json) : Option Json :=
  let ty := stringEntry (pk.get? "type")
  let base : List (String × Json) :=
    [("id", .str (objectID o did (stringEntry (pk.get? "id")))), ("type", .str ty), ("controller", .str did)]
  let material : Option (String × Json) :=
    match pk.get? "publicKeyJwk" with
    | some (.obj jwk) =>
      if ty = "Ed25519VerificationKey2018" then
        (edKeyOf (.obj jwk)).map fun k => ("publicKeyBase58", .str (base58Encode k))
      else if ty = "Ed25519VerificationKey2020" then
        (edKeyOf (.obj jwk)).map fun k => ("publicKeyMultibase", .str ("z" ++ base58Encode k))
      else some ("publicKeyJwk", .obj jwk)
    | _ =>
      let b58 := stringEntry (pk.get? "publicKeyBase58")
      let mb := stringEntry (pk.get? "publicKeyMultibase")
      if b58 ≠ "" then some ("publicKeyBase58", .str b58)
      else if mb ≠ "" then some ("publicKeyMultibase", .str mb)
      else some ("publicKeyJwk", .null)
  match material, o.keyCtx.lookup ty with
  | some m, some _ => some (.obj (base ++ [m]))
  | _, _ => none

/-- contexts of the key types used, in first-use order, without duplicates -/
def keyContexts (o : TransformOpts) (keys : List Json) : List String :=
  keys.foldl (fun acc pk =>
    match o.keyCtx.lookup (stringEntry (pk.get? "type")) with
    | some c => if acc.contains c then acc else acc ++ [c]
    | none => acc) []

/-- purpose ↦ relationship member -/
def relationshipOf : String → Option String
  | "authentication" => some "authentication"
  | "assertionMethod" => some "assertionMethod"
  | "keyAgreement" => some "keyAgreement"
  | "capabilityDelegation" => some "capabilityDelegation"
  | "capabilityInvocation" => some "capabilityInvocation"
  | _ => none

def relationships : List String :=
  ["authentication", "assertionMethod", "keyAgreement", "capabilityDelegation", "capabilityInvocation"]

/-- ids referenced from one relationship: one entry per occurrence of the purpose, in key order -/
def refs (o : TransformOpts) (did : String) (keys : List Json) (rel : String) : List Json :=
  keys.flatMap fun pk =>
    ((stringArray (pk.get? "purposes")).filter fun p => relationshipOf p = some rel).map fun _ =>
      Json.str (objectID o did (stringEntry (pk.get? "id")))

/-- `processServices`: qualified id, type, endpoint, then every other member -/
def externalService (o : TransformOpts) (did : String) (sv : Json) : Json :=
  let fixed : List (String × Json) :=
    [("id", .str (objectID o did (stringEntry (sv.get? "id")))), ("type", .str (stringEntry (sv.get? "type"))),
     ("serviceEndpoint", (sv.get? "serviceEndpoint").getD .null)]
  let others := (Composer.members sv).filter fun kv => kv.1 ≠ "id" ∧ kv.1 ≠ "type" ∧ kv.1 ≠ "serviceEndpoint"
  .obj (fixed ++ others)

def opRefJson (published : Bool) (o : OpRef) : Json :=
  .obj ([("type", .str o.type), ("transactionTime", Json.mkNat o.time)] ++
    (if published then [("transactionNumber", Json.mkNat o.number), ("canonicalReference", .str o.canonicalReference)] else []))

/-- `CreateDocumentMetadata` -/
def metadata (o : TransformOpts) (rm : RM) (info : Json) (pub unpub : List OpRef) : Option Json :=
  match rm.doc, info.get? "published" with
  | some _, some (.bool published) =>
    let method : List (String × Json) :=
      [("published", .bool published)] ++
      (if rm.recoveryCommitment = "" then [] else [("recoveryCommitment", .str rm.recoveryCommitment)]) ++
      (if rm.updateCommitment = "" then [] else [("updateCommitment", .str rm.updateCommitment)]) ++
      (match rm.anchorOrigin with | some a => [("anchorOrigin", a)] | none => []) ++
      (if o.includeUnpublished ∧ !unpub.isEmpty then [("unpublishedOperations", .arr ((unpublishedOps unpub).map (opRefJson false)))] else []) ++
      (if o.includePublished ∧ !pub.isEmpty then [("publishedOperations", .arr ((publishedOps pub).map (opRefJson true)))] else [])
    some (.obj ([("method", .obj method)] ++
      (if rm.deactivated then [("deactivated", .bool true)] else []) ++
      (match info.get? "canonicalId" with | some c => [("canonicalId", c)] | none => []) ++
      (match info.get? "equivalentId" with | some e => [("equivalentId", e)] | none => []) ++
      (if published then [("created", .str (rfc3339 rm.createdTime))] else []) ++
      (if rm.versionID = "" then [] else
        [("versionId", .str rm.versionID)] ++ (if rm.updatedTime > 0 then [("updated", .str (rfc3339 rm.updatedTime))] else []))))
  | _, _ => none

/-- `TransformDocument` (did transformer). `none` = error. -/
def transform (o : TransformOpts) (rm : RM) (info : Json) (pub unpub : List OpRef) : Option Json :=
  match metadata o rm info pub unpub, info.get? "id", rm.doc with
  | some md, some (.str did), some doc =>
    let keys := objectEntries (doc.get? "publicKey")
    match mapM? (externalKey o did) keys with
    | none => none
    | some vms =>
      let ctx : List Json := [.str didContext] ++ o.methodCtx.map .str ++
        (if o.includeBase then [.obj [("@base", .str did)]] else []) ++
        (if vms.isEmpty then [] else (keyContexts o keys).map .str)
      let aka := stringArray (doc.get? "alsoKnownAs")
      let svcs := (objectEntries (doc.get? "service")).map (externalService o did)
      let document : List (String × Json) :=
        (if aka.isEmpty then [] else [("alsoKnownAs", .arr (aka.map .str))]) ++
        [("@context", .arr ctx), ("id", .str did)] ++
        (if vms.isEmpty then [] else [("verificationMethod", .arr vms)]) ++
        (relationships.filterMap fun rel =>
          let r := refs o did keys rel
          if r.isEmpty then none else some (rel, .arr r)) ++
        (if svcs.isEmpty then [] else [("service", .arr svcs)])
      some (.obj [("@context", .str resolutionContext), ("didDocument", .obj document), ("didDocumentMetadata", md)])
  | _, _, _ => none

/-- the generic document transformer (`doctransformer/doctransformer/transformer.go`): the
    internal document with the id added, plus the metadata. `none` = error. -/
def genericTransform (o : TransformOpts) (rm : RM) (info : Json) (pub unpub : List OpRef) : Option Json :=
  match metadata o rm info pub unpub, info.get? "id", rm.doc with
  | some md, some id, some doc =>
    some (.obj [("@context", .null), ("didDocument", .obj (Json.setMember "id" id (Composer.members doc))), ("didDocumentMetadata", md)])
  | _, _, _ => none

end Transformer
end Sidetree
