/-
  patchvalidator/*.go and docvalidator/*: patch validation.
  `Uri` carries the two `net/url` facts the validators consult (filled per case by the harness
  from Go's standard library; never an axiom).
-/
import Sidetree.Patch
import Sidetree.Bytes

namespace Sidetree

/-- oracle for `net/url` -/
structure UriOracle where
  /-- `url.ParseRequestURI(s)` succeeds -/
  requestOK : String → Bool
  /-- `url.Parse(s)` succeeded, with `u.String()` -/
  norm : String → Option String

namespace Validator
open Patch

def isIdChar (c : Char) : Bool :=
  ('A' ≤ c && c ≤ 'Z') || ('a' ≤ c && c ≤ 'z') || ('0' ≤ c && c ≤ '9') || c = '_' || c = '-'

/-- `validateID`: at most `maxIDLength` bytes, matches `^[A-Za-z0-9_-]+$` -/
def validID (id : String) : Bool :=
  !(utf8Len id > Expected.maxIDLength) && !id.toList.isEmpty && id.toList.all isIdChar

def hasMember (j : Json) (k : String) : Bool := (j.get? k).isSome

def memberNames : Json → List String
  | .obj kvs => kvs.map (·.1)
  | _ => []

/-- `validatePublicKeyProperties` -/
def pkPropertiesOK (pk : Json) : Bool :=
  Expected.pkRequiredMembers.all (hasMember pk) &&
  ((Expected.pkOneOfMembers.filter (hasMember pk)).length == 1) &&
  (memberNames pk).all fun k =>
    (Expected.pkRequiredMembers ++ Expected.pkOptionalMembers ++ Expected.pkOneOfMembers).contains k

def purposes (pk : Json) : List String := stringArray (pk.get? "purposes")

/-- every entry of a list value is a string / an object: the typed accessors skip entries of
    another JSON type, and since the D31 repair a list with a skipped entry is refused -/
def allStrings : Json → Bool
  | .arr xs => xs.all fun x => x.str?.isSome
  | _ => false

def allObjects : Json → Bool
  | .arr xs => xs.all isObjB
  | _ => false

/-- a `purposes` member that is a list has strings only -/
def purposesAllStrings (pk : Json) : Bool :=
  match pk.get? "purposes" with
  | some (.arr xs) => allStrings (.arr xs)
  | _ => true

/-- `validateKeyPurposes` -/
def purposesOK (pk : Json) : Bool :=
  !(hasMember pk "purposes" && (purposes pk).isEmpty) && purposesAllStrings pk &&
  !((purposes pk).length > Expected.allowedPurposes.length) &&
  (purposes pk).all Expected.allowedPurposes.contains

/-- `validateKeyTypePurpose` -/
def keyTypePurposeOK (pk : Json) : Bool :=
  let ty := stringEntry (pk.get? "type")
  (if (purposes pk).isEmpty then Expected.keyTypesGeneral.contains ty else true) &&
  (purposes pk).all fun p =>
    match Expected.keyTypePurpose.lookup p with
    | some tys => tys.contains ty
    | none => false

/-- `document.JWK.Validate` on a JSON object -/
def docJwkValid (j : Json) : Bool :=
  let f := fun k => stringEntry (j.get? k)
  if f "kty" = "" then false
  else if f "kty" = "RSA" then f "n" ≠ "" && f "e" ≠ ""
  -- an EC key has two coordinates (D38); a BLS12-381 G2 key, also written with kty EC, is one compressed point (D48)
  else f "crv" ≠ "" && f "x" ≠ "" && (f "kty" ≠ "EC" || f "y" ≠ "" || f "crv" = "BLS12381_G2")

/-- the JWK / base58 rule at the end of `validatePublicKeys` -/
def keyMaterialOK (pk : Json) : Bool :=
  let jwkOK := match pk.get? "publicKeyJwk" with
    | some (.obj kvs) => docJwkValid (.obj kvs)
    | _ => false
  jwkOK ||
    (stringEntry (pk.get? "publicKeyBase58") ≠ "" && stringEntry (pk.get? "type") ≠ Expected.jwkOnlyKeyType)

def nodupStrings : List String → Bool
  | [] => true
  | x :: xs => !xs.contains x && nodupStrings xs

/-- `validatePublicKeys` -/
def publicKeysOK (pks : List Json) : Bool :=
  pks.all (fun pk =>
    pkPropertiesOK pk && validID (stringEntry (pk.get? "id")) && purposesOK pk &&
    keyTypePurposeOK pk && keyMaterialOK pk) &&
  nodupStrings (pks.map fun pk => stringEntry (pk.get? "id"))

/-- `validateURI`: non-empty and, with its fragment cut off, an HTTP request target as
    `url.ParseRequestURI` reads it, and a URL as a whole (`requestOK`: the harness's `net/url` table) -/
def uriOK (orc : UriOracle) (s : String) : Bool := s ≠ "" && orc.requestOK s

/-- `validateServiceEndpoint` -/
def endpointOK (orc : UriOracle) : Option Json → Bool
  | none => false
  | some .null => false
  | some (.str s) => uriOK orc s
  | some (.arr xs) => xs.all fun x => match x with
    | .str s => uriOK orc s
    | _ => true
  | some _ => true

/-- `validateService` -/
def serviceOK (orc : UriOracle) (s : Json) : Bool :=
  let id := stringEntry (s.get? "id")
  let ty := stringEntry (s.get? "type")
  id ≠ "" && validID id && ty ≠ "" && !(ty.length > Expected.maxServiceTypeLength) &&
  endpointOK orc (s.get? "serviceEndpoint")

/-- `validateServices` -/
def servicesOK (orc : UriOracle) (svcs : List Json) : Bool :=
  svcs.all (serviceOK orc) && nodupStrings (svcs.map fun s => stringEntry (s.get? "id"))

/-- `getRequiredArray` succeeds -/
def requiredArray : Option Json → Bool
  | some (.arr xs) => !xs.isEmpty
  | _ => false

/-- also-known-as `validate`: every URI parses and normalised forms are pairwise different -/
def akaOK (orc : UriOracle) (uris : List String) : Bool :=
  match mapM? orc.norm uris with
  | some ns => nodupStrings ns
  | none => false

/-! ### ietf-json-patch -/

/-- the checks on one pointer (`validateJSONPointer`): empty or starting with `/` (RFC 6901),
    and not under a protected member -/
def pointerOK (ptr : String) : Bool :=
  (ptr = "" || "/".toList.isPrefixOf ptr.toList) &&
  !(Expected.protectedPrefixes.any fun pre => pre.toList.isPrefixOf ptr.toList)

inductive IetfVerdict | ok | err | panic
deriving DecidableEq, Repr

/-- one operation of a decoded patch (`validateJSONPatches` loop body). A member whose value is
    JSON `null` decodes to a nil `*json.RawMessage`; it is refused (the `panic` constructor is the
    outcome of dereferencing it and is unreachable in this model). -/
def ietfOpVerdict (op : Json) : IetfVerdict :=
  match op with
  | .obj _ =>
    match op.get? "path" with
    | none => .err
    | some .null => .err
    | some (.str path) =>
      if !pointerOK path then .err
      else if !Expected.inspectedMembers.contains "from" then .ok
      else match op.get? "from" with
        | none => .ok
        | some .null => .err
        | some (.str frm) =>
          if !pointerOK frm then .err
          else if (frm ++ "/").toList.isPrefixOf path.toList then .err
          else .ok
        | some _ => .err
    | some _ => .err
  | _ => .err

/-- fold over the operations: first non-ok verdict wins. `DecodePatch` runs first and refuses
    any element that is not an object. -/
def ietfVerdict (ops : List Json) : IetfVerdict :=
  if !(ops.all isObjB) then .err
  else
    let rec go : List Json → IetfVerdict
      | [] => .ok
      | o :: rest => match ietfOpVerdict o with
        | .ok => go rest
        | v => v
    go ops

/-! ### dispatch -/

inductive Verdict | ok | err | panic
deriving DecidableEq, Repr

def ofBool (b : Bool) : Verdict := if b then .ok else .err

/-- a `publicKeys` / `services` member of a replace document: absent, `null`, or a list of objects -/
def replaceMemberOK : Option Json → Bool
  | none => true
  | some .null => true
  | some v => allObjects v

/-- `patchvalidator.Validate` -/
def validate (orc : UriOracle) (p : Json) : Verdict :=
  match getAction p, getValue p with
  | some action, some value =>
    if action = "replace" then
      match value with
      | .obj kvs =>
        ofBool ((kvs.map (·.1)).all Expected.replaceAllowedMembers.contains &&
          replaceMemberOK (value.get? "publicKeys") && replaceMemberOK (value.get? "services") &&
          publicKeysOK (objectEntries (value.get? "publicKeys")) &&
          servicesOK orc (objectEntries (value.get? "services")))
      | _ => .err
    else if action = "ietf-json-patch" then
      if !requiredArray (some value) then .err
      else match ietfVerdict ((value.arr?).getD []) with
        | .ok => .ok | .err => .err | .panic => .panic
    else if action = "add-public-keys" then
      ofBool (requiredArray (some value) && allObjects value && publicKeysOK (objectEntries (some value)))
    else if action = "remove-public-keys" ∨ action = "remove-services" then
      ofBool (requiredArray (some value) && allStrings value && (stringArray (some value)).all validID)
    else if action = "add-services" then
      ofBool (requiredArray (some value) && allObjects value && servicesOK orc (objectEntries (some value)))
    else if action = "add-also-known-as" ∨ action = "remove-also-known-as" then
      ofBool (requiredArray (some value) && allStrings value && akaOK orc (stringArray (some value)))
    else .err
  | _, _ => .err

/-- `docvalidator.IsValidOriginalDocument` (generic documents): must decode to an object (or
    `null`) that has no `id` member, of whatever JSON type -/
def originalDocOK (doc : Json) : Bool :=
  match doc with
  | .obj _ => (doc.get? "id").isNone
  | .null => true     -- `json.Unmarshal("null", &map)` leaves the (empty) map untouched
  | _ => false

/-- `didvalidator.IsValidOriginalDocument`: additionally no `@context` member, in any form -/
def originalDidDocOK (doc : Json) : Bool :=
  originalDocOK doc && (doc.get? "@context").isNone

end Validator
end Sidetree
