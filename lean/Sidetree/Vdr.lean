/-
  pkg/vdr/sidetreelongform/vdr.go: VDR.Create / VDR.Read as far as sidetree-go decides them
  (collection of the document's verification methods into create options, the create request,
  offline processing). did-go's document (un)marshalling is outside the model.
-/
import Sidetree.Client
import Sidetree.Did

namespace Sidetree.Vdr
open Sidetree Sidetree.Client

/-- one entry of a verification relationship list of the did-go document -/
structure VerEntry where
  purpose : String
  id : String
  type : String
  jwk : Option Json
  /-- raw key bytes (`VerificationMethod.Value`), `none` when nil -/
  value : Option Bytes

/-- the order in which `getSidetreePublicKeys` walks the relationships -/
def relationshipOrder : List String :=
  ["authentication", "assertionMethod", "capabilityDelegation", "capabilityInvocation", "keyAgreement"]

/-- key ids are relative: what follows the first `#` (up to the next one), or the whole id -/
def fragment (id : String) : String :=
  match id.splitOn "#" with
  | [a] => a
  | _ :: b :: _ => b
  | [] => id

def addPurpose (k : DocKey) (p : String) : DocKey := { k with purposes := some ((k.purposes.getD []) ++ [p]) }

/-- the map `getSidetreePublicKeys` builds, as an association list in first-seen order; `none` = error -/
def collect : List VerEntry → List DocKey → Option (List DocKey)
  | [], acc => some acc
  | v :: rest, acc =>
    let id := fragment v.id
    if acc.any (·.id = id) then collect rest (acc.map fun k => if k.id = id then addPurpose k v.purpose else k)
    else match v.jwk, v.value with
      | some j, _ => collect rest (acc ++ [{ id := id, type := v.type, purposes := some [v.purpose], jwk := some j }])
      | none, some bs => collect rest (acc ++ [{ id := id, type := v.type, purposes := some [v.purpose], jwk := none, b58 := base58Encode bs }])
      | none, none => none

def insertKey (k : DocKey) : List DocKey → List DocKey
  | [] => [k]
  | x :: xs => if k.id < x.id then k :: x :: xs else x :: insertKey k xs

/-- keys in `sort.Strings` order of their ids -/
def sortKeys (ks : List DocKey) : List DocKey := ks.foldr insertKey []

/-- the create request `VDR.Create` hands to the document handler -/
def createRequest (H : HashFam) (ver : List VerEntry) (services : List DocService) (aka : List String)
    (updateKey recoveryKey : Jwk) : Option Json :=
  match collect ver [] with
  | none => none
  | some ks =>
    match docJson (sortKeys ks) services aka, Hashing.commitment H recoveryKey.toJson 18, Hashing.commitment H updateKey.toJson 18 with
    | some doc, some rc, some uc =>
      newCreateRequest H { opaqueDoc := some doc, recoveryCommitment := rc, updateCommitment := uc, code := 18 }
    | _, _, _ => none

/-- `VDR.Create` up to did-go's parsing of the resolution result -/
def create (H : HashFam) (orc : Oracles) (method : String) (ver : List VerEntry) (services : List DocService) (aka : List String)
    (updateKey recoveryKey : Jwk) : Option Json :=
  match (createRequest H ver services aka updateKey recoveryKey).bind requestText with
  | none => none
  | some text =>
    Did.processOperation H orc ("did:" ++ method) (some text.toList) (utf8Len text) (Parse.parse text.toList)

end Sidetree.Vdr
