/-
  C09: the anchoring window (operationapplier.go: verifyAnchoringTimeRange / getAnchorUntil,
  operationparser/recover.go: getAnchorUntil). `Int` arithmetic: since the D23 repair the applier
  compares the signed bounds, the unsigned anchoring time and the default expiry as the integers
  they stand for, and the parser hands the time validator the greatest int64 when the default
  expiry lies beyond it (`capInt64`).
-/
import Sidetree.Protocol
import Sidetree.Expected

namespace Sidetree.Window

/-- the protocol field named by the extracted selector; an unknown name gives 0 and the
    obligation `Generated.anchorUntilParam* = Expected.anchorUntilParam*` cannot hold -/
def defaultDelta (cfg : Protocol) (param : String) : Int :=
  ((cfg.numField param).getD 0 : Nat)

/-- `getAnchorUntil` -/
def anchorUntil (cfg : Protocol) (param : String) (frm untl : Int) : Int :=
  if frm ≠ 0 ∧ untl = 0 then frm + defaultDelta cfg param else untl

/-- `verifyAnchoringTimeRange … = nil` -/
def effective (cfg : Protocol) (frm untl t : Int) : Bool :=
  if frm = 0 ∧ untl = 0 then true
  else if frm > t then false
  else if anchorUntil cfg Expected.anchorUntilParamApplier frm untl < t then false
  else true

def maxInt64 : Int := 9223372036854775807

/-- the greatest int64 for anything beyond it -/
def capInt64 (x : Int) : Int := if x > maxInt64 then maxInt64 else x

/-- the pair the parser hands to the time validator (int64 values) -/
def validatorPair (cfg : Protocol) (frm untl : Int) : Int × Int :=
  (frm, capInt64 (anchorUntil cfg Expected.anchorUntilParamParser frm untl))

inductive OpType | update | recover | deactivate
deriving DecidableEq, Repr

inductive Outcome
  | effective      -- applied, document taken from the delta / deactivated
  | ineffective    -- applied, commitments advance, document unchanged (update) / empty (recover)
  | refused
deriving DecidableEq, Repr

/-- what C09 prescribes for an otherwise valid operation anchored at `t` -/
def outcome (cfg : Protocol) (ty : OpType) (frm untl t : Int) : Outcome :=
  if effective cfg frm untl t then .effective
  else match ty with
    | .deactivate => .refused
    | _ => .ineffective

end Sidetree.Window
