#!/bin/sh
# Build everything from files on disk (offline): Go harness against /repo, Lean facts,
# the Lean library with all property theorems, and the compiled driver.
set -e
cd "$(dirname "$0")"
exec python3 tools/check.py --setup
