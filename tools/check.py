#!/usr/bin/env python3
"""Check driver: ./check <Cxx> quick|thorough   |   ./check <Cxx> --replay <file>

For one property: rebuild the harness from /repo's working tree, regenerate the Lean facts,
build the property's theorems + generated obligations + driver, audit axioms, then run the
correspondence streams (corpus first) through the real library and through the Lean model
and compare. Writes evidence/<id>.json, prints VIOLATION / KNOWN-FINDING lines, exit code
0 (held) / 1 (violation) / 2 (machinery failure, never a verdict)."""
import concurrent.futures as cf
import hashlib
import json
import os
import re
import subprocess
import sys
import time

ROOT = os.path.dirname(os.path.dirname(os.path.abspath(__file__)))
LEAN = os.path.join(ROOT, "lean")
HARNESS = os.path.join(ROOT, "harness")
BUILD = os.path.join(ROOT, "build")
REPO = os.environ.get("VERIF_REPO", "/repo")
HZ = os.path.join(BUILD, "hz")
DRIVER = os.path.join(LEAN, ".lake", "build", "bin", "driver")
ALLOWED_AXIOMS = {"propext", "Classical.choice", "Quot.sound"}
FORBIDDEN = re.compile(r"\b(sorry|admit|native_decide|bv_decide|implemented_by|unsafe|maxHeartbeats\s+0)\b|^\s*axiom\s", re.M)

sys.path.insert(0, os.path.dirname(os.path.abspath(__file__)))
from props import PROPS  # noqa: E402


class Machinery(Exception):
    pass


def goenv():
    e = dict(os.environ)
    e.update(GOFLAGS="-mod=mod", GOPROXY="off", GOSUMDB="off", GOTOOLCHAIN="local", CGO_ENABLED=e.get("CGO_ENABLED", "1"))
    return e


def run(cmd, cwd=None, env=None, timeout=None, inp=None):
    return subprocess.run(cmd, cwd=cwd, env=env, timeout=timeout, input=inp, stdout=subprocess.PIPE, stderr=subprocess.PIPE)


def build_harness(race=False):
    os.makedirs(BUILD, exist_ok=True)
    subprocess.run(["cp", os.path.join(REPO, "go.sum"), os.path.join(HARNESS, "go.sum")], check=True)
    if REPO != "/repo":
        subprocess.run(["go", "mod", "edit", "-replace", "github.com/trustbloc/sidetree-go=" + REPO], cwd=HARNESS, env=goenv(), check=True)
    out = HZ + ("-race" if race else "")
    cmd = ["go", "build", "-tags", "verif"] + (["-race"] if race else []) + ["-o", out, "./cmd/hz"]
    r = run(cmd, cwd=HARNESS, env=goenv())
    if r.returncode != 0:
        raise Machinery("harness does not build against /repo:\n" + r.stderr.decode()[-3000:])
    return out


def extract_facts():
    gen = os.path.join(LEAN, "Sidetree", "Generated")
    r = run([HZ, "extract", REPO, gen])
    if r.returncode != 0:
        raise Machinery("extractor failed: " + r.stderr.decode()[-2000:])
    return {f["name"]: f for f in json.load(open(os.path.join(gen, "facts.json")))}


def lake_build(targets):
    r = run(["lake", "build"] + targets, cwd=LEAN)
    return r.returncode == 0, (r.stdout.decode() + r.stderr.decode())


def strip_comments(src):
    src = re.sub(r"/-.*?-/", "", src, flags=re.S)
    return re.sub(r"--.*", "", src)


def lean_sources():
    for base, _, files in os.walk(LEAN):
        if ".lake" in base or ".audit" in base:
            continue
        for f in files:
            if f.endswith(".lean"):
                yield os.path.join(base, f)


def grep_forbidden():
    hits = []
    for p in lean_sources():
        m = FORBIDDEN.search(strip_comments(open(p).read()))
        if m:
            hits.append(f"{os.path.relpath(p, LEAN)}: {m.group(0).strip()}")
    return hits


def theorem_names(module):
    """theorems declared in a Props module, fully qualified"""
    path = os.path.join(LEAN, *module.split(".")) + ".lean"
    src = strip_comments(open(path).read())
    ns = []
    names = []
    for line in src.splitlines():
        m = re.match(r"\s*namespace\s+(\S+)", line)
        if m:
            ns.append(m.group(1))
            continue
        m = re.match(r"\s*end\s+(\S+)", line)
        if m and ns and ns[-1] == m.group(1):
            ns.pop()
            continue
        m = re.match(r"\s*(?:private\s+|protected\s+)?theorem\s+(\S+)", line)
        if m:
            names.append(".".join(ns + [m.group(1)]))
    return names


def audit(pid, modules, names):
    d = os.path.join(LEAN, ".audit")
    os.makedirs(d, exist_ok=True)
    path = os.path.join(d, pid + ".lean")
    with open(path, "w") as f:
        for m in modules:
            f.write(f"import {m}\n")
        for n in names:
            f.write(f"#print axioms {n}\n")
    r = run(["lake", "env", "lean", path], cwd=LEAN)
    out = r.stdout.decode() + r.stderr.decode()
    if r.returncode != 0:
        raise Machinery("axiom audit failed to elaborate:\n" + out[-3000:])
    res = {}
    # (names may end in primes: non-greedy up to the quote that is followed by the fixed text)
    for m in re.finditer(r"^'(.+?)' depends on axioms: \[([^\]]*)\]|^'(.+?)' does not depend on any axioms", out, re.M):
        if m.group(1):
            res[m.group(1)] = [a.strip() for a in m.group(2).replace("\n", " ").split(",") if a.strip()]
        else:
            res[m.group(3)] = []
    bad = {n: a for n, a in res.items() if set(a) - ALLOWED_AXIOMS}
    missing = [n for n in names if n not in res]
    return res, bad, missing


# ---------------------------------------------------------------- running cases

def run_impl(lines, timeout_per_case=20.0, binary=None):
    """run the real library on case lines in a child; an unrecoverable death is attributed to
    the first unanswered case, which is answered {"class":"killed"} and the rest re-run."""
    binary = binary or HZ
    outs = []
    i = 0
    env = dict(os.environ)
    env.setdefault("GOMEMLIMIT", "3GiB")
    while i < len(lines):
        chunk = lines[i:]
        pre = f"ulimit -v 8388608; exec {binary} impl"
        try:
            r = subprocess.run(["bash", "-c", pre], input=("\n".join(chunk) + "\n").encode(), stdout=subprocess.PIPE,
                               stderr=subprocess.PIPE, env=env, timeout=max(60.0, timeout_per_case * len(chunk) / 4))
            got = r.stdout.decode().splitlines()
            err = r.stderr.decode()[-400:]
            rc = r.returncode
        except subprocess.TimeoutExpired as e:
            got = (e.stdout or b"").decode().splitlines()
            err = "timeout"
            rc = -1
        # a partially written last line cannot happen: each answer is flushed whole
        got = [g for g in got if g.strip()]
        outs.extend(got[:len(chunk)])
        if len(got) >= len(chunk):
            break
        # died on chunk[len(got)]
        fatal = "timeout" if err == "timeout" else ("fatal" if rc != 0 else "eof")
        m = re.search(r"fatal error: [^\n]*|panic: [^\n]*|signal: [^\n]*", err)
        outs.append(json.dumps({"class": "killed", "how": fatal, "detail": m.group(0) if m else err[-160:]}))
        i += len(got) + 1
    return outs


def run_race(lines):
    """C20: each stress case in its own process of the -race build; a race report on stderr is
    added to the answer"""
    binary = HZ + "-race"
    outs = []
    env = dict(os.environ)
    env["GORACE"] = "halt_on_error=0 history_size=2"
    for line in lines:
        try:
            r = subprocess.run([binary, "impl"], input=(line + "\n").encode(), stdout=subprocess.PIPE, stderr=subprocess.PIPE, env=env, timeout=600)
            got = [g for g in r.stdout.decode().splitlines() if g.strip()]
            err = r.stderr.decode()
        except subprocess.TimeoutExpired:
            got, err = [], "timeout"
        if not got:
            outs.append(json.dumps({"class": "killed", "how": "timeout" if err == "timeout" else "fatal", "detail": err[-300:]}))
            continue
        ans = json.loads(got[0])
        if "DATA RACE" in err:
            m = re.search(r"WARNING: DATA RACE\n(.*?)\n\n", err, flags=re.S)
            where = re.findall(r"\n  (\S+\(\))\n", err)
            ans["data_race"] = (where[0] if where else (m.group(1)[:200] if m else "reported"))
        outs.append(json.dumps(ans))
    return outs


def run_model(lines):
    r = subprocess.run([DRIVER], input=("\n".join(lines) + "\n").encode(), stdout=subprocess.PIPE, stderr=subprocess.PIPE)
    if r.returncode != 0:
        raise Machinery("lean driver failed: " + r.stderr.decode()[-2000:])
    outs = [g for g in r.stdout.decode().splitlines() if g.strip()]
    if len(outs) != len(lines):
        raise Machinery(f"lean driver answered {len(outs)} of {len(lines)} cases: " + r.stderr.decode()[-500:])
    return outs


def gen_cases(gen, seed, n):
    r = run([HZ, "gen", gen, str(seed), str(n)])
    if r.returncode != 0:
        raise Machinery(f"generator {gen} failed: " + r.stderr.decode()[-2000:])
    return [l for l in r.stdout.decode().splitlines() if l.strip()]


def canon(v):
    """comparison normal form: numbers as floats when integral both ways, objects unordered"""
    if isinstance(v, dict):
        return {k: canon(x) for k, x in v.items()}
    if isinstance(v, list):
        return [canon(x) for x in v]
    if isinstance(v, bool) or v is None:
        return v
    if isinstance(v, (int, float)):
        return float(v)
    return v


def multiset(v):
    return sorted(json.dumps(canon(x), sort_keys=True) for x in v)


def compare(kind, case, impl, model, spec):
    """returns None when equal, otherwise a short description of the first difference"""
    cmpf = spec.get("compare")
    if cmpf:
        return cmpf(kind, case, impl, model)
    if canon(impl) == canon(model):
        return None
    return first_diff(canon(impl), canon(model))


def first_diff(a, b, path=""):
    if type(a) != type(b):
        return f"{path or '/'}: impl={json.dumps(a)[:200]} model={json.dumps(b)[:200]}"
    if isinstance(a, dict):
        for k in sorted(set(a) | set(b)):
            if k not in a:
                return f"{path}/{k}: missing in impl, model={json.dumps(b[k])[:200]}"
            if k not in b:
                return f"{path}/{k}: missing in model, impl={json.dumps(a[k])[:200]}"
            d = first_diff(a[k], b[k], path + "/" + k)
            if d:
                return d
        return None
    if isinstance(a, list):
        if len(a) != len(b):
            return f"{path}: length impl={len(a)} model={len(b)}"
        for i, (x, y) in enumerate(zip(a, b)):
            d = first_diff(x, y, f"{path}/{i}")
            if d:
                return d
        return None
    if a != b:
        return f"{path or '/'}: impl={json.dumps(a)[:200]} model={json.dumps(b)[:200]}"
    return None


def split_case(line):
    kind, _, body = line.partition("\t")
    return kind, json.loads(body)


def run_stream(lines, spec, shards=16):
    """run implementation and model on lines (sharded), compare; returns list of result dicts"""
    if not lines:
        return []
    shards = max(1, min(shards, (len(lines) + 49) // 50))
    if spec.get("race"):
        shards = max(1, min(3, len(lines)))
    parts = [lines[i::shards] for i in range(shards)]

    def work(part):
        io = run_race(part) if spec.get("race") else run_impl(part)
        mo = run_model(part)
        return list(zip(part, io, mo))

    res = []
    with cf.ThreadPoolExecutor(max_workers=shards) as ex:
        for chunk in ex.map(work, parts):
            for line, io, mo in chunk:
                kind, case = split_case(line)
                try:
                    iv = json.loads(io)
                except Exception:
                    iv = {"class": "unparsable-impl-output", "raw": io[:200]}
                try:
                    mv = json.loads(mo)
                except Exception:
                    raise Machinery("model answer is not JSON: " + mo[:300])
                res.append({"line": line, "kind": kind, "case": case, "impl": iv, "model": mv})
    return res


# ---------------------------------------------------------------- known findings

def load_known():
    path = os.path.join(ROOT, "KNOWN_FINDINGS.txt")
    out = []
    if os.path.exists(path):
        for line in open(path):
            line = line.strip()
            m = re.match(r"finding:\s+property=(\S+)\s+signature=(\S+)\s+(.*)", line)
            if m:
                out.append({"property": m.group(1), "signature": m.group(2), "text": m.group(3)})
    return out


# ---------------------------------------------------------------- main

def main():
    if len(sys.argv) >= 2 and sys.argv[1] == "--setup":
        try:
            build_harness()
            extract_facts()
            ok, log = lake_build(["Sidetree", "driver"])
            if not ok:
                raise Machinery("lake build failed:\n" + log[-4000:])
        except Machinery as e:
            print(f"MACHINERY-FAILURE setup: {e}", file=sys.stderr)
            return 2
        print("setup ok")
        return 0
    if len(sys.argv) < 3:
        print(__doc__)
        return 2
    pid = sys.argv[1]
    if pid not in PROPS:
        print("unknown property", pid)
        return 2
    spec = PROPS[pid]
    replay = None
    if sys.argv[2] == "--replay":
        replay = sys.argv[3]
        tier = "quick"
    else:
        tier = sys.argv[2]
    tier = os.environ.get("VERIF_TIER", tier)
    if tier not in ("quick", "thorough"):
        print("tier must be quick or thorough")
        return 2
    seed = int(os.environ.get("VERIF_SEED", "1"))
    t0 = time.time()
    try:
        return check(pid, spec, tier, seed, replay, t0)
    except Machinery as e:
        print(f"MACHINERY-FAILURE property={pid}: {e}", file=sys.stderr)
        return 2


def check(pid, spec, tier, seed, replay, t0):
    os.makedirs(os.path.join(ROOT, "evidence"), exist_ok=True)
    os.makedirs(os.path.join(ROOT, "replays"), exist_ok=True)
    stale = os.path.join(ROOT, "replays", f"{pid}-{tier}-{seed}.json")
    if os.path.exists(stale) and not replay:
        os.remove(stale)
    build_harness()
    if spec.get("race"):
        build_harness(race=True)
    facts = extract_facts()

    # --- proofs: property theorems, then generated obligations one module at a time
    prop_modules = spec["theorem_modules"]
    ok, log = lake_build(prop_modules + ["driver"])
    if not ok:
        raise Machinery("model / theorems / driver do not build:\n" + log[-4000:])
    names = []
    for m in prop_modules:
        names += theorem_names(m)
    ax, bad, missing = audit(pid, prop_modules, names)
    if bad or missing:
        raise Machinery(f"axiom audit: disallowed={bad} unprinted={missing}")
    forb = grep_forbidden()
    if forb:
        raise Machinery("forbidden construct in Lean sources: " + "; ".join(forb))
    rechecked = []
    if tier == "thorough" and not replay:
        # independent re-check of the compiled theorem modules by the toolchain's kernel replayer
        for m in prop_modules:
            r = run(["lake", "env", "leanchecker", m], cwd=LEAN)
            if r.returncode != 0:
                raise Machinery(f"leanchecker rejects {m}:\n" + (r.stdout.decode() + r.stderr.decode())[-2000:])
            rechecked.append(m)

    obligations = []  # (name, status, detail)
    broken = []
    for ob in spec.get("obligations", []):
        needs = ob["facts"]
        if isinstance(needs, str) and needs.startswith("module:"):
            mod = needs.split(":", 1)[1]
            needs = [n for n, f in facts.items() if f["module"] == mod and n.startswith(("skel_", "lit_"))]
        unrec = [n for n in needs if n not in facts or facts[n]["value"] == ""]
        if unrec:
            # the fact could not be read off the source any more: the obligation is not discharged
            obligations.append({"name": ob["name"], "status": "broken", "detail": "source shape not recognised for " + ",".join(unrec)})
            broken.append(ob)
            continue
        ok, log = lake_build(["Sidetree.Obligations." + ob["name"]])
        if ok:
            obligations.append({"name": ob["name"], "status": "discharged"})
        else:
            msg = re.findall(r"error: [^\n]*(?:\n  [^\n]*)*", log)
            obligations.append({"name": ob["name"], "status": "broken", "detail": (msg[0] if msg else log[-400:])[:600],
                                "facts": {n: facts[n]["value"] for n in needs}})
            broken.append(ob)

    # --- correspondence (streamed in batches: only disagreements and a few samples are kept)
    known = [k for k in load_known() if k["property"] == pid]
    dist = {}
    mismatches = []
    samples = []
    nontrivial = set()
    stats = {"n": 0, "ood": 0, "mismatch": 0}
    known_seen = set()

    def consume(results):
        for r in results:
            stats["n"] += 1
            if isinstance(r["model"], dict) and r["model"].get("class") == "out-of-domain":
                stats["ood"] += 1
                # outside the model, but a predicate that reads only the implementation's own output still applies
                pv = spec["property_check"](r) if spec.get("property_on_ood") else None
                if not pv:
                    continue
                r["signature_override"] = pv
                r["diff"] = "property predicate fails on the implementation's own output (input outside the model): " + pv
                if any(k["signature"] == pv for k in known):
                    stats["known"] = stats.get("known", 0) + 1
                    if pv not in known_seen:
                        known_seen.add(pv)
                        mismatches.append(r)
                    continue
                stats["mismatch"] += 1
                if len(mismatches) < 400:
                    mismatches.append(r)
                continue
            d = compare(r["kind"], r["case"], r["impl"], r["model"], spec)
            if not d and "property_check" in spec:
                # the implementation behaves like the model; does that behaviour satisfy the property?
                pv = spec["property_check"](r)
                if pv:
                    r["signature_override"] = pv
                    d = "property predicate fails on the implementation's own output: " + pv
            lab = spec["label"](r) if "label" in spec else json.dumps(canon(r["model"]), sort_keys=True)
            dist[lab] = dist.get(lab, 0) + 1
            if spec.get("nontrivial", lambda r: True)(r):
                nontrivial.add(hashlib.sha1((lab + "|" + json.dumps(spec.get("shape", lambda r: r["case"])(r), sort_keys=True)).encode()).digest()[:10])
            if len(samples) < 3:
                samples.append({"case": r["line"][:1500], "impl": r["impl"], "model": r["model"]})
            if d:
                r["diff"] = d
                sig = r.get("signature_override") or spec.get("signature", default_signature)(r)
                if any(k["signature"] == sig for k in known):
                    # a listed finding: remember one exemplar per signature, do not let it end the run early
                    stats["known"] = stats.get("known", 0) + 1
                    if sig not in known_seen:
                        known_seen.add(sig)
                        mismatches.append(r)
                    continue
                stats["mismatch"] += 1
                if len(mismatches) < 400:
                    mismatches.append(r)

    if replay:
        rp = json.load(open(replay))
        lines = [rp["case_line"]] if "case_line" in rp else []
        consume(run_stream(lines, spec))
    else:
        corpus_dir = os.path.join(ROOT, "corpus", pid)
        corpus = []
        if os.path.isdir(corpus_dir):
            for f in sorted(os.listdir(corpus_dir)):
                if f.endswith(".case"):
                    corpus += [l for l in open(os.path.join(corpus_dir, f)).read().splitlines() if l.strip() and not l.startswith("#")]
        consume(run_stream(corpus, spec))
        widen = bool(broken)
        for st in spec.get("streams", []):
            n = st["thorough"] if tier == "thorough" else st["quick"]
            if widen and tier != "thorough":
                n = min(st["thorough"], 6 * st["quick"])      # widened search after a broken obligation
            batch = 16000
            done = 0
            bi = 0
            while done < n:
                m = min(batch, n - done)
                per = max(1, (m + 15) // 16)
                lines = []
                with cf.ThreadPoolExecutor(max_workers=16) as ex:
                    for ls in ex.map(lambda i: gen_cases(st["gen"], seed * 100000 + bi * 16 + i, per), range(16 if m >= 16 else 1)):
                        lines += ls
                consume(run_stream(lines, spec))
                done += len(lines)
                bi += 1
                if stats["mismatch"] >= 400:
                    break
    ood = stats["ood"]
    if stats["n"] and ood * 20 > stats["n"]:
        raise Machinery(f"{ood} of {stats['n']} cases out of the model's domain (>5%): generator drift")

    # --- verdict
    violations = []
    known_hits = {}
    for r in mismatches:
        sig = r.get("signature_override") or spec.get("signature", default_signature)(r)
        r["signature"] = sig
        k = next((k for k in known if k["signature"] == sig), None)
        if k:
            known_hits.setdefault(sig, k)
        else:
            violations.append(r)
    rc = 0
    for sig, k in known_hits.items():
        print(f"KNOWN-FINDING: property={pid} {k['text']} [signature={sig}]")
    replay_path = None
    if violations:
        # smallest failing case first
        violations.sort(key=lambda r: len(r["line"]))
        v = violations[0]
        replay_path = os.path.join(ROOT, "replays", f"{pid}-{tier}-{seed}.json")
        json.dump({"property": pid, "kind": "failing-input", "theorem": spec.get("prescribes", ""),
                   "broken_obligations": [o["name"] for o in broken], "signature": v["signature"], "diff": v["diff"],
                   "case_line": v["line"], "impl_output": v["impl"], "model_output": v["model"], "seed": seed,
                   "other_failing_cases": len(violations) - 1,
                   "other_signatures": sorted({x["signature"] for x in violations})[:20]}, open(replay_path, "w"), indent=1)
        print(f"VIOLATION property={pid} replay={replay_path}")
        rc = 1
    elif broken:
        replay_path = os.path.join(ROOT, "replays", f"{pid}-{tier}-{seed}.json")
        json.dump({"property": pid, "kind": "no-failing-input-found",
                   "obligations": [o for o in obligations if o["status"] == "broken"],
                   "searched_cases": stats["n"], "seed": seed}, open(replay_path, "w"), indent=1)
        print(f"VIOLATION property={pid} replay={replay_path} no-failing-input-found")
        rc = 1

    n_thm = len(names)
    n_obl = n_thm + len([o for o in obligations if o["status"] != "not-checked"])
    n_dis = n_thm + len([o for o in obligations if o["status"] == "discharged"])
    ev = {
        "property_id": pid, "tier": tier, "seed": seed, "level": spec.get("level", "proof"),
        "coverage": {
            "obligations": n_obl, "discharged": n_dis,
            "checker_cmd": "lake build " + " ".join(prop_modules) + " + one `lake build Sidetree.Obligations.<fact>` per generated fact; `#print axioms` on every theorem" +
                           ("; `lake env leanchecker` re-checked " + ", ".join(rechecked) if rechecked else ""),
            "trusted_base": ["Lean 4.33.0 kernel", "axioms: propext, Classical.choice, Quot.sound only (audited per theorem)",
                             "harness/internal/extract (go/ast fact extractor)", "harness cmd/hz impl + tools/check.py comparison",
                             ] + spec.get("trusted", []),
            "theorems": {n: ax.get(n, []) for n in names},
            "generated_obligations": obligations,
            "evaluations": stats["n"], "traces_validated_against_impl": stats["n"] - ood,
            "distinct_nontrivial": len(nontrivial),
            "rule": spec.get("rule", ""),
            "distribution": dict(sorted(dist.items(), key=lambda kv: -kv[1])[:40]),
            "out_of_domain": ood,
            "samples": samples,
            "mismatches": stats["mismatch"], "known_finding_hits": sorted(known_hits),
            "explanation": spec.get("explanation", ""),
        },
        "assumptions": spec.get("assumptions", []),
        "wall_s": round(time.time() - t0, 2),
        "violations": len(violations) + (1 if (broken and not violations) else 0),
    }
    json.dump(ev, open(os.path.join(ROOT, "evidence", pid + ".json"), "w"), indent=1)
    return rc


def default_signature(r):
    d = r.get("diff", "")
    path = d.split(":")[0]
    path = re.sub(r"/\d+", "/*", path)
    return f"{r['kind']}{path}"


if __name__ == "__main__":
    sys.exit(main())
