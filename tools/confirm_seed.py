#!/usr/bin/env python3
"""confirm_seed.py <Cxx> <a|b> : confirm a seeded change delivered under /tmp/mut/<Cxx>/<v>/ in the scratch
worktree /tmp/wt/<Cxx>: demo passes without the change, fails with it, whole suite passes with it.
On success copies patch.diff, the demo and meta.json to /verif/seeded/<Cxx><v>/."""
import json, os, re, shutil, subprocess, sys

pid, var = sys.argv[1], sys.argv[2]
src = os.environ.get("MUT_DIR", "/tmp/mut") + f"/{pid}/{var}"
wt = os.environ.get("WT_DIR", "/tmp/wt") + f"/{pid}"
env = dict(os.environ, GOFLAGS="-mod=mod", GOPROXY="off", GOSUMDB="off", GOTOOLCHAIN="local")


def sh(cmd, cwd=wt, timeout=1500):
    r = subprocess.run(cmd, shell=True, cwd=cwd, env=env, stdout=subprocess.PIPE, stderr=subprocess.STDOUT, timeout=timeout)
    return r.returncode, r.stdout.decode(errors="replace")


def clean():
    sh("git checkout -- . && git clean -fdq")


notes = open(f"{src}/notes.md").read()
demo = next((f for f in os.listdir(src) if f.endswith("_test.go")), None)
if not demo:
    print("no demo test file"); sys.exit(2)
demosrc = open(f"{src}/{demo}").read()
pkgname = re.search(r"^package\s+(\w+)", demosrc, re.M).group(1)
base = pkgname[:-5] if pkgname.endswith("_test") else pkgname
cands = []
for d in dict.fromkeys(re.findall(r"pkg/[A-Za-z0-9_./]+", notes)):
    d = d.rstrip("/.")
    full = os.path.join(wt, d)
    if os.path.isdir(full):
        names = set()
        for f in os.listdir(full):
            if f.endswith(".go"):
                m = re.search(r"^package\s+(\w+)", open(os.path.join(full, f)).read(), re.M)
                if m:
                    names.add(m.group(1))
        if base in names:
            cands.append(d)
if not cands:
    print("cannot determine demo package dir; candidates none"); sys.exit(2)
pkgdir = cands[0]
tests = re.findall(r"^func (Test\w+)\(", demosrc, re.M)
runarg = "^(" + "|".join(tests) + ")$"
race = "-race " if pid == "C20" else ""
count = "-count=3" if pid == "C20" else "-count=1"

clean()
shutil.copy(f"{src}/{demo}", os.path.join(wt, pkgdir, "zz_seed_demo_test.go"))
rc0, out0 = sh(f"go test {race}-vet=off {count} -run '{runarg}' ./{pkgdir}/")
rc, _ = sh(f"git apply {src}/patch.diff")
if rc != 0:
    print("patch does not apply"); clean(); sys.exit(1)
rcb, outb = sh("go build ./...")
rc1, out1 = sh(f"go test {race}-vet=off {count} -run '{runarg}' ./{pkgdir}/")
os.remove(os.path.join(wt, pkgdir, "zz_seed_demo_test.go"))
rc2, out2 = sh("go test -vet=off -count=1 ./... 2>&1 | grep -v '^ok\\|no test files' ")
suite_bad = [l for l in out2.splitlines() if l.strip() and "pkg/util/json" not in l and not l.startswith("FAIL\n") and l.strip() != "FAIL"]
clean()
ok = rc0 == 0 and rcb == 0 and rc1 != 0 and not suite_bad
print(f"{pid}{var}: demo-without={'pass' if rc0==0 else 'FAIL'} build={'ok' if rcb==0 else 'FAIL'} demo-with={'fail' if rc1!=0 else 'PASS'} suite={'pass' if not suite_bad else 'FAIL '+str(suite_bad[:3])} pkg={pkgdir} => {'CONFIRMED' if ok else 'REJECTED'}")
if not ok:
    if rc0 != 0:
        print(out0[-1500:])
    sys.exit(1)
dst = f"/verif/seeded/{pid}{var}"
os.makedirs(dst, exist_ok=True)
shutil.copy(f"{src}/patch.diff", dst)
shutil.copy(f"{src}/{demo}", os.path.join(dst, "demo_test.go"))
shutil.copy(f"{src}/notes.md", os.path.join(dst, "notes.md"))
meta = {"property": pid, "variant": var, "round": os.environ.get("SEED_ROUND", ""), "demo_package_dir": pkgdir, "demo_tests": tests,
        "needs_to_manifest": "see notes.md",
        "confirmed": {"demo_passes_without_change": True, "builds_with_change": True, "demo_fails_with_change": True,
                      "full_suite_passes_with_change": True,
                      "commands": [f"go test {race}-vet=off {count} -run '{runarg}' ./{pkgdir}/ (clean worktree)", f"git apply patch.diff", "go build ./...",
                                   f"go test {race}-vet=off {count} -run '{runarg}' ./{pkgdir}/", "go test -vet=off -count=1 ./..."]},
        "base_commit": subprocess.run("git rev-parse HEAD", shell=True, cwd=wt, stdout=subprocess.PIPE).stdout.decode().strip()}
json.dump(meta, open(os.path.join(dst, "meta.json"), "w"), indent=1)
