#!/usr/bin/env python3
"""Freeze the control skeletons / literal tables currently extracted from /repo into
lean/Sidetree/ExpectedSkeletons.lean (the reviewed, committed counterpart of Generated.skel_* / lit_*),
and write one obligation module per source file group. Run by hand after reviewing a change."""
import json, os, re
ROOT = os.path.dirname(os.path.dirname(os.path.abspath(__file__)))
facts = json.load(open(os.path.join(ROOT, "lean/Sidetree/Generated/facts.json")))
sel = [f for f in facts if f["name"].startswith(("skel_", "lit_"))]
out = ["/-", "  Reviewed control skeletons and struct-literal tables of the Go functions the models mirror",
       "  (frozen by tools/freeze_expected.py from the tree the models were written against and", "  validated on). `Sidetree/Obligations/Shape_*.lean` prove the regenerated facts equal to these.", "-/",
       "namespace Sidetree.ExpectedSkeletons", ""]
for f in sel:
    if not f["value"]:
        raise SystemExit("fact not recognised: " + f["name"])
    out.append(f"/-- {f['source']} -/")
    out.append(f"def {f['name']} : {f['type']} :=\n  {f['value']}\n")
out.append("end Sidetree.ExpectedSkeletons")
open(os.path.join(ROOT, "lean/Sidetree/ExpectedSkeletons.lean"), "w").write("\n".join(out) + "\n")
groups = {}
for f in sel:
    groups.setdefault(f["module"], []).append(f["name"])
for mod, names in groups.items():
    stmt = " ∧\n    ".join(f"Generated.{n} = some ExpectedSkeletons.{n}" for n in names)
    rfls = ", ".join("rfl" for _ in names)
    open(os.path.join(ROOT, f"lean/Sidetree/Obligations/Shape_{mod}.lean"), "w").write(f"""import Sidetree.ExpectedSkeletons
import Sidetree.Generated.{mod}
namespace Sidetree.Obligations
/-- the Go functions mirrored by the {mod} model have the reviewed control structure and literals -/
theorem Shape_{mod} :
    {stmt} :=
  ⟨{rfls}⟩
end Sidetree.Obligations
""")
    print(mod, len(names), "facts")
