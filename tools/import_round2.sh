#!/bin/bash
# import_round2.sh <ID> <variant>: copy a round-2 seeded change from /tmp/mut2 into seeded/ and run its check
id=$1; v=$2; src=/tmp/mut2/$id/$v; dst=/verif/seeded/$id$v
mkdir -p $dst && cp $src/patch.diff $src/demo_test.go $src/notes.md $dst/ 2>/dev/null
python3 - "$id" "$v" <<'PY'
import json,sys
id,v=sys.argv[1:3]
json.dump({"property":id,"variant":v,"round":2,"base_commit":"cebe882","see":"notes.md"},open(f"/verif/seeded/{id}{v}/meta.json","w"),indent=1)
PY
/verif/tools/seedrun.sh $dst/patch.diff $id 2>&1 | grep -v "^KNOWN" | tail -3 | cut -c1-330
