#!/bin/bash
# import_round4.sh <ID> <variant>: copy a round-4 seeded change from /tmp/mut4 into seeded/ and run its check
id=$1; v=$2; src=/tmp/mut4/$id/$v; dst=/verif/seeded/$id$v
[ -f $src/patch.diff ] || { echo "$id$v: no patch"; exit 0; }
mkdir -p $dst && cp $src/patch.diff $src/demo_test.go $src/notes.md $dst/ 2>/dev/null
python3 - "$id" "$v" <<'PY'
import json,sys
id,v=sys.argv[1:3]
json.dump({"property":id,"variant":v,"round":4,"base_commit":"da1df12","see":"notes.md"},open(f"/verif/seeded/{id}{v}/meta.json","w"),indent=1)
PY
if ! git -C /repo apply --check $dst/patch.diff 2>/dev/null; then echo "$id$v: patch does not apply to HEAD"; exit 0; fi
echo "--- $id$v"; /verif/tools/seedrun.sh $dst/patch.diff $id 2>&1 | grep -v "^KNOWN" | tail -3 | cut -c1-330
