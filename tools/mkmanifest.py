#!/usr/bin/env python3
"""Regenerate MANIFEST.json from tools/props.py (kept in the repository; run after editing props.py)."""
import json
import os
import sys

ROOT = os.path.dirname(os.path.dirname(os.path.abspath(__file__)))
sys.path.insert(0, os.path.join(ROOT, "tools"))
from props import PROPS, NOT_CLAIMED  # noqa: E402

BASELINE_OFF = "cd /repo && go test -mod=mod -json -vet=off -count=1 -timeout 25m ./..."

ids = [json.loads(l)["id"] for l in open(os.path.join(ROOT, "properties.jsonl"))]
checks = []
na = []
for pid in ids:
    if pid in PROPS:
        s = PROPS[pid]
        checks.append({
            "property_id": pid,
            "quick_cmd": f"./check {pid} quick",
            "thorough_cmd": f"./check {pid} thorough",
            "evidence_file": f"/verif/evidence/{pid}.json",
            "replay_cmd_template": f"./check {pid} --replay {{path}}",
            "engine": "lean4-proof+correspondence",
            "level_claimed": {"category": s.get("level", "proof"), "text": s["level_text"], "design_ref": s.get("design_ref", "DESIGN.md §4 " + pid)},
            "level_note": s["level_note"],
            "technique": s["technique"],
        })
    else:
        na.append({"property_id": pid, "reason": NOT_CLAIMED.get(pid, "no check built yet in this revision; the Lean model does not cover this property's code, so nothing is claimed")})

m = {
    "version": 1,
    "setup_cmd": "./setup.sh",
    "hooks": {
        "guard": "verif",
        "enable": "go build -tags verif (the harness is an external module with `replace github.com/trustbloc/sidetree-go => /repo`; no hook inside /repo is needed)",
        "baseline_off_cmd": BASELINE_OFF,
        "source_commits": [],
        "add_only": True,
    },
    "engines": [{
        "name": "lean4-proof+correspondence",
        "path": "/verif/check",
        "serves_properties": [c["property_id"] for c in checks],
        "kind_free_text": "Lean 4 theorems about a hand-written model (lean/Sidetree/Props), facts regenerated from /repo by a go/ast extractor and tied to the model by kernel-checked obligations (lean/Sidetree/Obligations), and a differential correspondence check of the model's executable definitions (compiled driver) against the real library (harness/cmd/hz).",
    }],
    "checks": checks,
    "not_applicable": na,
    "notes": "See DESIGN.md. exit 0 = held, exit 1 = VIOLATION line, exit 2 = machinery failure (no verdict).",
}
json.dump(m, open(os.path.join(ROOT, "MANIFEST.json"), "w"), indent=1)
print("claimed:", [c["property_id"] for c in checks], "not claimed:", [n["property_id"] for n in na])
