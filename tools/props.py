"""Per-property configuration of the check driver."""


def _win_label(r):
    c = r["case"]
    f, u, t = c["from"], c["until"], c["t"]
    shape = ("f0" if f == 0 else "f") + ("u0" if u == 0 else "u")
    rel = []
    if f:
        rel.append("t<f" if t < f else ("t=f" if t == f else "t>f"))
    if u:
        rel.append("t<u" if t < u else ("t=u" if t == u else "t>u"))
    return f"{c['type']}/{shape}/{','.join(rel)}/{r['model'].get('outcome')}"


PROPS = {
    "C09": {
        "theorem_modules": ["Sidetree.Props.C09"],
        "technique": "Lean 4 theorem (window iff, omega) + go/ast fact obligations + differential correspondence",
        "level_text": "The window predicate is proved for all (from, until, t, config) in Lean (effective_iff, parser_hands_same_pair, "
                      "window_depends_only_on_delta, out-of-window outcomes). The model is tied to the code by (a) kernel-checked "
                      "obligations on facts regenerated from the Go AST on every run (which protocol field the default expiry adds, the guards "
                      "and comparison operators of verifyAnchoringTimeRange / getAnchorUntil in applier and parser) and (b) a differential run of "
                      "real signed operations through OperationApplier.Apply and Parser.Parse with a recording time validator.",
        "level_note": "Trusted: Lean kernel; the go/ast extractor; the harness's own operation builder/signing (Go stdlib crypto); int64 wrap-around excluded. "
                      "The theorem is about the abstract window function; that Apply consults it at the right stage is covered by correspondence here and by C01's staged model.",
        "prescribes": "Sidetree.Props.C09.effective_iff / parser_hands_same_pair",
        "obligations": [
            {"name": "C09_anchorUntilParamApplier", "facts": ["anchorUntilParamApplier"]},
            {"name": "C09_anchorUntilParamParser", "facts": ["anchorUntilParamParser"]},
            {"name": "C09_anchorUntilGuards", "facts": ["anchorUntilGuardApplier", "anchorUntilGuardParser"]},
            {"name": "C09_windowRefusals", "facts": ["windowUnsetGuard", "windowRefusals"]},
        ],
        "streams": [{"gen": "C09", "quick": 480, "thorough": 24000}],
        "label": _win_label,
        "shape": lambda r: [r["case"]["keytype"], r["case"]["from"], r["case"]["until"], r["case"]["t"]],
        "rule": "otherwise valid update/recover/deactivate operations (5 key types, both hash algorithms) whose signed data "
                "carries (from, until), anchored at t on the grid {0,1,from±1,until±1,from+delta±1,from+maxDeltaSize±1,random}; "
                "every numeric protocol limit randomised so that none coincide. All cases are non-trivial (a real signed "
                "operation is applied to a real created state); distinct = distinct (label, key type, from, until, t).",
        "trusted": ["Go stdlib crypto for the harness's own signing"],
        "assumptions": ["int64 wrap-around of from+delta and uint64→int64 of the anchoring time are outside the property (generators keep all values < 2^31)"],
    },
}

NOT_CLAIMED = {}
