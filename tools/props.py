"""Per-property configuration of the check driver."""


def _win_label(r):
    c = r["case"]
    f, u, t = c["from"], c["until"], c["t"]
    shape = ("f0" if f == 0 else "f") + ("u0" if u == 0 else "u")
    rel = []
    if f:
        rel.append("t<f" if t < f else ("t=f" if t == f else "t>f"))
    if u:
        rel.append("t<u" if t < u else ("t=u" if t == u else "t>u"))
    return f"{c['type']}/{shape}/{','.join(rel)}/{r['model'].get('outcome')}"


PROPS = {
    "C09": {
        "theorem_modules": ["Sidetree.Props.C09"],
        "technique": "Lean 4 theorem (window iff, omega) + go/ast fact obligations + differential correspondence",
        "level_text": "The window predicate is proved for all (from, until, t, config) in Lean (effective_iff, parser_hands_same_pair, "
                      "window_depends_only_on_delta, out-of-window outcomes). The model is tied to the code by (a) kernel-checked "
                      "obligations on facts regenerated from the Go AST on every run (which protocol field the default expiry adds, the guards "
                      "and comparison operators of verifyAnchoringTimeRange / getAnchorUntil in applier and parser) and (b) a differential run of "
                      "real signed operations through OperationApplier.Apply and Parser.Parse with a recording time validator.",
        "level_note": "Trusted: Lean kernel; the go/ast extractor; the harness's own operation builder/signing (Go stdlib crypto); int64 wrap-around excluded. "
                      "The theorem is about the abstract window function; that Apply consults it at the right stage is covered by correspondence here and by C01's staged model.",
        "prescribes": "Sidetree.Props.C09.effective_iff / parser_hands_same_pair",
        "obligations": [
            {"name": "C09_anchorUntilParamApplier", "facts": ["anchorUntilParamApplier"]},
            {"name": "C09_anchorUntilParamParser", "facts": ["anchorUntilParamParser"]},
            {"name": "C09_anchorUntilGuards", "facts": ["anchorUntilGuardApplier", "anchorUntilGuardParser"]},
            {"name": "C09_windowRefusals", "facts": ["windowUnsetGuard", "windowRefusals"]},
        ],
        "streams": [{"gen": "C09", "quick": 480, "thorough": 24000}],
        "label": _win_label,
        "shape": lambda r: [r["case"]["keytype"], r["case"]["from"], r["case"]["until"], r["case"]["t"]],
        "rule": "otherwise valid update/recover/deactivate operations (5 key types, both hash algorithms) whose signed data "
                "carries (from, until), anchored at t on the grid {0,1,from±1,until±1,from+delta±1,from+maxDeltaSize±1,random}; "
                "every numeric protocol limit randomised so that none coincide. All cases are non-trivial (a real signed "
                "operation is applied to a real created state); distinct = distinct (label, key type, from, until, t).",
        "trusted": ["Go stdlib crypto for the harness's own signing"],
        "assumptions": ["int64 wrap-around of from+delta and uint64→int64 of the anchoring time are outside the property (generators keep all values < 2^31)"],
    },
}


def _lab(r, *extra):
    return "/".join([str(r["case"].get("label", r["kind"]))] + [str(e) for e in extra])


PROPS["C05"] = {
    "theorem_modules": ["Sidetree.Props.C05", "Sidetree.Props.C05Num", "Sidetree.Props.C05Spelling"],
    "prescribes": "Sidetree.jcs / Sidetree.transform (Props.C05: normalize_obj_sorted, member_order_irrelevant, escape_minimal, es6Notation)",
    "obligations": [{"name": "Shape_Jcs", "facts": "module:Jcs"}, 
        {"name": "C05_fixedRange", "facts": ["es6FixedRange"]},
        {"name": "C05_sortKey", "facts": ["jcsSortKey"]},
        {"name": "C05_escapes", "facts": ["jcsAsciiEscapes", "jcsBinaryEscapes", "jcsControlFormat"]},
    ],
    "streams": [{"gen": "C05", "quick": 4000, "thorough": 120000}, {"gen": "C05num", "quick": 20000, "thorough": 2000000}],
    "label": lambda r: _lab(r, (r["model"].get("bytes") or r["model"]).get("class")) +
                       ("" if (r["model"].get("bytes") or {}).get("class") != "ok" or "premises" not in r["model"] else
                        ("/ints-theorem-premises-hold" if r["model"]["premises"] else "/ints-theorem-premises-not-met")),
    "compare": lambda kind, case, impl, model: _strip({"premises"})(kind, case, impl, model),
    "nontrivial": lambda r: (r["model"].get("bytes") or r["model"]).get("class") == "ok",
    "shape": lambda r: r["case"].get("text", r["case"].get("bits")),
    "rule": "I-JSON texts from a structured generator (all Unicode planes incl. names whose UTF-16 order differs from code-point order and "
            "names that are prefixes of one another; doubles from powers of ten/two and their neighbours, the 1e21/1e-6 switches, subnormals, extremes, "
            "random bit patterns; nesting to depth 200), each value in its compact spelling and 1-3 loose spellings (member order, whitespace, escape "
            "style, number spelling); a malformed stream; and a separate stream of raw bit patterns. Compared: output bytes of MarshalCanonical on the "
            "text, on the decoded Go value, and of canonicalizing the output again. Non-trivial = accepted input; distinct = distinct input text/bits.",
    "technique": "Lean 4 theorems on the JCS model (sorting, permutation invariance, escaping) + differential correspondence on bytes",
    "level_text": "Proved in Lean (Props/C05Spelling.lean): texts that differ in insignificant whitespace and in the escape spelling of strings canonicalize to identical bytes (spelling_irrelevant_ints), and so do texts that in addition spell integer-valued numbers differently - 1E3, 1.0e3, 10000e-1, 1000 (equivalent_texts_identical_bytes; Lemmas/NumSpelling.lean: the double of mant*10^e is the double of the integer it denotes). Proved in Lean (Lemmas/NumInt*.lean, Props/C05Num.lean): an integer below 2^53 in magnitude is printed as its decimal digits (integer_prints_as_digits: IEEE-754 double of the literal, shortest digits, ES6 notation, all by exact Nat arithmetic) and read back as the very literal. Proved in Lean (Lemmas/RoundTrip.lean, RoundTripNum.lean): the strict reader undoes the printer on every value whose numbers are such integers (or that has no numbers), so parsing the RFC 8785 encoding of such a value yields its normal form (canonical_text_reads_back_ints; escapes, nesting and member order included); the normal form is its own normal form, canonicalizing canonical text gives the same text (normalize_idempotent_ints, canonical_text_is_fixed_ints, transform_fixed_point_partial); the driver evaluates the hypothesis on every case (label ints-theorem-premises-hold). Proved in Lean for all values: canonical objects have strictly UTF-16-sorted members and the order is a strict total order on names "
                  "(UTF-16 encoding injective); the canonical form does not depend on input member order (at top level or nested); duplicate names are refused; "
                  "escaping is minimal with the RFC 8785 forms; equivalent values give identical bytes; the ES6 notation table. NOT proved: the parse∘print round trip "
                  "(fixed point / same value) for values with fractions, exponents or integers from 2^53 on, and shortest-digit correctness of the number formatter on those; these rest on the correspondence stream, which compares "
                  "every case's re-canonicalized output and value-route output byte for byte against the implementation.",
    "level_note": "Trusted: Lean kernel; extractor; harness. Model strictness: RFC 8259 grammar (the library also accepts some non-JSON number spellings, outside the "
                  "property's I-JSON quantifier and not generated); inputs with lone surrogates or invalid UTF-8 are out of domain. Inputs capped at 64 KiB.",
    "trusted": ["strconv.FormatFloat / ParseFloat only on the harness side to spell generated doubles"],
}

def _c06_property(r):
    """"The model multihash of any JSON-serializable value ..." - a scalar is a JSON value"""
    if r["kind"] == "mh" and r["case"].get("label") == "scalar-value" and isinstance(r["impl"], dict) and r["impl"].get("calc") is None \
            and r["case"].get("code") in (18, 19):
        return "mh/scalar-value/no-hash"
    return None


PROPS["C06"] = {
    "property_check": _c06_property,
    "theorem_modules": ["Sidetree.Props.C06", "Sidetree.Props.C06Num", "Sidetree.Props.CollideAt"],
    "prescribes": "Sidetree.Hashing.* (Props.C06: model_multihash_def, valid_iff, code_of_hash, computed_using_iff)",
    "obligations": [{"name": "Shape_Jcs", "facts": "module:Jcs"}, 
        {"name": "C06_supportedCodes", "facts": ["hashSupportedCodes"]},
        {"name": "C06_validCompare", "facts": ["isValidCompare", "isValidCalls"]},
    ],
    "streams": [{"gen": "C06", "quick": 6000, "thorough": 200000}],
    "label": lambda r: _lab(r, "valid" if r["model"].get("valid") else "invalid", "code" if r["model"].get("code") is not None else "nocode"),
    "shape": lambda r: [r["case"]["value"], r["case"]["hash"], r["case"]["code"]],
    "rule": "harness-built JSON values (own JCS via encoding/json on a restricted alphabet, own SHA-2/multihash) in compact and loose spellings; hashes: correct, "
            "for a single-point modification of the value, other algorithm in the prefix, other algorithm, unsupported codes (0,0x11,0x13,0x14,0x16,0x20,0xb220,2^20), "
            "bad alphabet/padding, wrong length field, truncated/extended digest, non-minimal/short/overlong varint, CR/LF and trailing-bit variants, digest bit flips, "
            "non-canonicalizable values. Compared: CalculateModelMultihash, IsValidModelMultihash, GetMultihashCode, IsComputedUsingMultihashAlgorithms, docutil.CalculateID. "
            "Every case is non-trivial (each exercises decode + recompute); distinct = distinct (value text, hash, code).",
    "technique": "Lean 4 theorems parametric in the hash family (base64url/varint/multihash round trips by induction) + differential correspondence with real SHA-2",
    "level_text": "Where a theorem of this property concludes '... or the hash family has a collision', Props/CollideAt.lean restates it with the colliding pair NAMED (CollidesAt H c a b: the canonical bytes of the two values concerned collide under the function of code c) - the bare existential 'some collision exists' is true of every hash function by counting and would make the alternative empty of content. Proved in Lean (Props/C06Num.lean): two values whose numbers are plain integers below 2^53 with one model hash have the same normal form or the hash family has an explicit collision (same_hash_same_value: canonical bytes determine the value, canonical_bytes_determine_value), and the hash is a function of the normal form (same_value_same_hash). Proved in Lean for every value, hash string and hash family with codes < 2^63 and digests < 2^31 bytes: the model multihash formula and the error for "
                  "unsupported codes; validation succeeds iff the string is the hash computed from a value with the same canonical form under the code in its own prefix "
                  "(or an explicit collision is exhibited); code_of_hash; computed-using iff; everything that validates is a well-formed encoded multihash; "
                  "base64url, varint and multihash decode∘encode = id (unbounded, by induction) and, conversely, every accepted encoded hash is the canonical text of its code and "
                  "digest (accepted_hash_is_canonical, same_hash_same_text: one hash, one text). SHA-2 itself is executable-only and compared byte for byte with Go.",
    "level_note": "Trusted: Lean kernel; extractor; harness's own SHA-2 (Go stdlib). Collision resistance of SHA-2 is not assumed: conclusions carry an explicit collision alternative.",
}

PROPS["C04"] = {
    "theorem_modules": ["Sidetree.Props.C04"],
    "prescribes": "Sidetree.Hashing.commitment / revealValue / commitmentFromReveal (Props.C04.commitment_of_reveal)",
    "obligations": [{"name": "Shape_Jcs", "facts": "module:Jcs"}, 
        {"name": "C04_commitmentShape", "facts": ["commitmentInnerHash", "commitmentFromRevealCalls"]},
    ],
    "streams": [{"gen": "C04", "quick": 4000, "thorough": 150000}, {"gen": "C04chain", "quick": 400, "thorough": 15000}],
    "label": lambda r: ("chain/len=%d/algs=%s" % (len(r["case"]["reqs"]), "+".join(str(a) for a in r["case"]["cfg"].get("multihashAlgorithms", []))) if r["kind"] == "getters" else
                        _lab(r, "c" if r["model"].get("commitment") else "noc", "fr" if r["model"].get("from_reveal") else "nofr")),
    "shape": lambda r: r["case"]["reqs"] if r["kind"] == "getters" else [r["case"]["jwk"], r["case"]["code"], r["case"]["rv"]],
    "rule": "JWKs of the five key types (with/without nonce of several sizes, Ed25519 with empty y, RSA-shaped, extra members, empty), both algorithms and unsupported codes; "
            "reveal values: own, another key's, unsupported code, malformed, random digest of several lengths. Compared: GetCommitment, GetRevealValue, "
            "GetCommitmentFromRevealValue (given and own). Chains create -> (update | recover)* -> deactivate of 2-12 real signed operations (one or both hash algorithms "
            "configured, in either order; occasionally an element with a member deleted): Parser.GetRevealValue and Parser.GetCommitment of every element. All cases non-trivial.",
    "technique": "Lean 4 theorems parametric in the hash family + differential correspondence with real SHA-2",
    "level_text": "Where a theorem of this property concludes '... or the hash family has a collision', Props/CollideAt.lean restates it with the colliding pair NAMED (CollidesAt H c a b: the canonical bytes of the two values concerned collide under the function of code c) - the bare existential 'some collision exists' is true of every hash function by counting and would make the alternative empty of content. Proved in Lean: reveal = multihash(H(JCS(jwk))), commitment = multihash(H(H(JCS(jwk)))), commitmentFromReveal(reveal(k)) = commitment(k) for every key and "
                  "supported code; keys with different canonical JWK (any member, nonce included) have different commitments and reveal values or an explicit collision exists. "
                  "Chain (Props/C04Chain.lean): the reveal value the parser reports for an update, recover or deactivate is the reveal value of the key inside its signed data "
                  "(reveal_maps_to_signing_key_commitment), so if the preceding operation on the chain published that key's commitment the two are linked (chain_linked); a deactivate "
                  "reports no next commitment; an update reports its delta's update commitment and a recover its signed recovery commitment (commitment_reported).",
    "level_note": "Trusted: Lean kernel; extractor; harness.",
}

def _c13_property(r):
    """"Original documents that carry an id (or, for DID documents, a context) are refused" - on the implementation's own answer"""
    if r["kind"] == "validate" and isinstance(r["impl"], dict) and r["impl"].get("validate") == "ok":
        lab = r["case"].get("label", "")
        # every entry of a list is a key / a service / a valid id / a URI / a known purpose: an entry of another JSON type is none of these
        if lab.endswith(("entry-not-object", "entry-not-string", "purpose-not-string", "member-not-list")):
            return "validate/" + lab.split("/", 1)[-1] + "/accepted"
    if r["kind"] != "origdoc":
        return None
    lab, imp = r["case"].get("label", ""), r["impl"]
    if not isinstance(imp, dict):
        return None
    if lab.startswith("origdoc/id") and (imp.get("doc") == "ok" or imp.get("did") == "ok"):
        return "origdoc/with-id/accepted"
    if lab.startswith("origdoc/context") and imp.get("did") == "ok":
        return "origdoc/with-context/accepted"
    return None


PROPS["C13"] = {
    "property_check": _c13_property,
    "theorem_modules": ["Sidetree.Props.C13"],
    "prescribes": "Sidetree.Validator.validate (Props.C13: validID_iff, matrix_exact, publicKeysOK_iff, servicesOK_iff, endpointOK_iff, validate_replace, ...)",
    "obligations": [
        {"name": "C13_limits", "facts": ["maxIDLength", "maxServiceTypeLength", "idRegexp", "limitOps"]},
        {"name": "Shape_PatchPkg", "facts": "module:PatchPkg"}, {"name": "C13_matrix", "facts": ["allowedPurposes", "keyTypesGeneral", "keyTypesVerification", "keyTypesAgreement", "keyTypePurpose"]},
        {"name": "C13_members", "facts": ["pkRequiredMembers", "pkOptionalMembers", "pkOneOfMembers", "replaceAllowedMembers", "base58Exception", "endpointLoopShape"]},
        {"name": "C11_ietfValidator", "facts": ["protectedPrefixes", "inspectedMembers", "ietfConds", "pointerConds"]},
        {"name": "C14_actionConfig", "facts": ["actionConfig"]},
    ],
    "streams": [{"gen": "C13", "quick": 6000, "thorough": 300000}],
    "label": lambda r: _lab(r, r["model"].get("validate", r["model"].get("doc"))),
    "shape": lambda r: r["case"].get("patch", r["case"].get("doc")),
    "rule": "a valid patch of each of the eight actions (1-3 keys/services of every type, JWK or base58 material, purpose subsets permitted for the type, "
            "endpoint as string / list / object / mixed list) and, two times out of three, one labelled mutation of it: one per constraint (id 0/1/50/51/bad character/duplicate, "
            "missing type/id, both or no material, each forbidden extra member, purposes empty/6 known/5/unknown, full key-type x purpose matrix, invalid/RSA/non-object JWK, "
            "base58 with JsonWebKey2020 / Ed25519 2018 / empty; service id/type boundaries incl. multi-byte, endpoint missing/null/empty/bad URI/bad later list entry; "
            "remove lists empty/invalid id/not an array; also-known-as unparsable/duplicate/duplicate after normalisation; replace extra member/shape; ietf protected path/from, "
            "prefix rule, look-alikes, null/typed members; envelope without action/value); original documents with id/context variants. net/url facts for every string are "
            "computed by the harness with the standard library. All cases non-trivial; distinct = distinct (label, outcome, patch).",
    "technique": "Lean 4 theorems (validator = documented constraints; finite tables by decide) + go/ast table obligations + differential correspondence",
    "level_text": "Proved in Lean for every JSON value: the executable validator equals the documented constraints - ids are 1-50 characters of [A-Za-z0-9_-] "
                  "(validID_iff, via byte length = character count for ASCII), the key-type x purpose matrix (exhaustively by decide, plus the lift to purpose lists), purposes "
                  "non-empty/at most five entries/known, exactly-one-material and no unknown member, JWK-or-base58 rule, service id/type/endpoint rule with every string entry of a "
                  "list checked, uniqueness of ids as List.Nodup, also-known-as parse + uniqueness after normalisation, remove lists, replace documents, original documents. "
                  "The tables, limits, member lists, comparison operators and the ietf guards are regenerated from the Go AST on every run and tied to the model by kernel-checked equalities.",
    "level_note": "Trusted: Lean kernel; extractor; harness. net/url (ParseRequestURI, Parse+String) is an oracle supplied per case by Go's standard library. "
                  "JSON values of the wrong type at a typed position follow Go's lenient accessors in the model (they belong to C19's quantifier).",
}


def _strip(keys):
    def cmp(kind, case, impl, model):
        from check import canon, first_diff
        m = {k: v for k, v in model.items() if k not in keys}
        i = {k: v for k, v in impl.items() if k not in keys}
        if canon(i) == canon(m):
            return None
        return first_diff(canon(i), canon(m))
    return cmp


def _actions(r):
    return ",".join(sorted({p.get("action", "?") if isinstance(p, dict) else "?" for p in r["case"].get("patches", [])}))


PROPS["C10"] = {
    "theorem_modules": ["Sidetree.Props.C10", "Sidetree.Props.C10Rfc", "Sidetree.Props.C10RfcArr"],
    "prescribes": "Sidetree.Composer.applyPatches with Sidetree.JsonPatch.Lib (Props.C10); RFC 6902 side: Sidetree.JsonPatch.Rfc.applyOp",
    "obligations": [
        {"name": "C10_composerShape", "facts": ["composerDispatch", "applyJSONShape"]}, {"name": "Shape_Composer", "facts": "module:Composer"},
    ],
    "streams": [{"gen": "C10", "quick": 5000, "thorough": 250000}],
    "compare": _strip({"deviation"}),
    "property_check": lambda r: ("compose/ietf/" + r["model"]["deviation"]) if r["model"].get("deviation") else None,
    "label": lambda r: r["model"].get("class", "?") + "/" + _actions(r),
    "nontrivial": lambda r: r["model"].get("class") == "ok",
    "shape": lambda r: [r["case"]["doc"], r["case"]["patches"]],
    "rule": "starting documents: {} or generated documents with key/service/also-known-as lists over small id pools plus further members; 1-6 validated patches of all "
            "eight actions with ids that collide with, partially overlap or miss existing entries, remove-then-re-add, replace-then-add, also-known-as duplicates; ietf patches "
            "with RFC-valid pointers over objects, arrays (in range, end, beyond), null members, escaped tokens, copy/move followed by edits under the destination. Compared: class, "
            "resulting document (as a value), nil-on-error, and that neither input changed. In addition every ietf operation is run through RFC 6902 as written; a case where the "
            "library (and the implementation) deviates is a property-level violation classified by operation kind and relation. Non-trivial = list applied; distinct = distinct (doc, patches).",
    "technique": "Lean 4 theorems (per-action semantics = declarative spec, fold, unique-id invariant) + faithful library model vs RFC 6902 model + differential correspondence",
    "level_text": "Proved in Lean (Props/C10Rfc.lean): on array-free walks the library model and RFC 6902 as written agree outcome for outcome (success and refusal) for add and remove and for replace of an existing member (add_agree, remove_agree, replace_agree_existing; walk_agree by induction over the pointer), the library's replace is RFC add there (replace_is_rfc_add), and what the RFC accepts the library does alike (replace_le); the same with arrays entered by canonical indices on the way and at the target, - for add included (Props/C10RfcArr.lean; root pointer excluded; RFC 6902 here means our transcription JsonPatch.Rfc); the deviations inside the attempted fragment are kernel-evaluated examples (pointer without leading slash, replace of a missing member, add without value, index spellings 01, 00 and -1, an index beyond int64, move overwriting instead of inserting). Proved in Lean: ApplyPatches is the left fold of the per-action step with first-failure abort; add-keys/add-services = upsert-by-id spec (existing order kept, replaced in place, "
                  "new entries appended), remove = filter by id (unknown ids ignored), also-known-as = ordered union / difference, replace = exactly the given keys and services; unique ids are "
                  "preserved by every validated non-ietf patch and by ietf patches (via C11). The ietf action is modelled twice - the pinned library as it behaves (validated against the "
                  "implementation on every case) and RFC 6902 as written - and the check reports every operation where the two part ways. wellformed_invariant: every validated patch keeps publicKey and service lists of objects and nothing else (no entry a later patch would skip).",
    "level_note": "Trusted: Lean kernel; extractor; harness. KNOWN FINDINGS: evanphx/json-patch v4.1.0 deviates from RFC 6902 (replace/copy/move/test accept what the RFC refuses; move/copy to an "
                  "existing array index overwrite instead of inserting); no newer library is available offline. Go map iteration order is abstracted (documents compared as values).",
}

PROPS["C11"] = {
    "theorem_modules": ["Sidetree.Props.C11"],
    "prescribes": "Sidetree.Props.C11.validated_preserves_protected",
    "obligations": [
        {"name": "C11_ietfValidator", "facts": ["protectedPrefixes", "inspectedMembers", "ietfConds", "pointerConds"]},
        {"name": "C10_composerShape", "facts": ["composerDispatch", "applyJSONShape"]}, {"name": "Shape_Composer", "facts": "module:Composer"},
    ],
    "streams": [{"gen": "C11", "quick": 6000, "thorough": 300000}],
    "property_check": lambda r: "protect/validated-patch-changed-protected-member" if r["impl"].get("protected_changed") else None,
    "label": lambda r: r["model"].get("validate", "?") + "/" + str(r["model"].get("apply")) + "/" + ",".join(sorted({o.get("op", "?") for o in r["case"]["patch"]["patches"] if isinstance(o, dict)})),
    "nontrivial": lambda r: r["model"].get("validate") == "ok",
    "shape": lambda r: r["case"]["patch"],
    "rule": "a document with keys, services and look-alike members (publickey, Service, ~publicKey, /publicKey, nested publicKey/service, empty name) and one ietf-json-patch of 1-3 operations "
            "over all six kinds whose path/from range over the protected members, their elements and sub-members, '-', siblings sharing a prefix, look-alikes, escaped tokens, root, "
            "empty, doubled and trailing slashes, pointers without a leading slash, in path, from, or value; plus copy-then-edit-the-copy sequences. Compared: validator verdict, apply class, "
            "whether publicKey/service changed; and directly: accepted and applied but protected member changed = violation. Non-trivial = patch accepted; distinct = distinct patch.",
    "technique": "Lean 4 theorem by induction over the operation list on the faithful library model + go/ast obligations on the validator + differential correspondence",
    "level_text": "Proved in Lean for every document, every operation list and all six kinds: if the validator model accepts the patch and the (faithful) library model applies it, the "
                  "publicKey and service members of the result are the ones of the input. The validator facts used (protected prefixes, both path and from inspected, pointers must start "
                  "with '/') are regenerated from the Go AST on every run.",
    "level_note": "Trusted: Lean kernel; extractor; harness; the library model (validated by the C10/C11 streams: 0 disagreements on the unchanged tree). Rests on the repaired per-operation "
                  "application (no node sharing between operations).",
}

def _c14_property(r):
    """"Documents carrying an id are refused" - on the implementation's own answer"""
    if r["kind"] == "patchrt" and r["case"].get("label") == "doc/with-id" and isinstance(r["impl"], dict) and r["impl"].get("class") == "ok":
        return "patchrt/doc-with-id/accepted"
    if r["kind"] == "patchrt" and r["case"].get("label") in ("doc/valid", "doc/names-needing-escapes", "doc/names-beginning-like-protected") \
            and isinstance(r["impl"], dict) and r["impl"].get("class") == "ok" and any(v != "ok" for v in (r["impl"].get("validate") or [])):
        # "every patch produced by the patch constructors from valid input passes validation"
        return "patchrt/produced-patch-fails-validation"
    if r["kind"] == "patchrt" and r["case"].get("label") in ("doc/valid", "doc/names-needing-escapes", "doc/names-beginning-like-protected") and isinstance(r["impl"], dict):
        # "converting a document into patches and applying those patches to an empty document reproduces the document"
        from check import canon
        try:
            doc = json.loads(bytes.fromhex(r["case"]["doc"]).decode("utf-8"))
        except Exception:
            return None
        if r["impl"].get("class") != "ok":
            return "patchrt/valid-document/refused"
        if canon(r["impl"].get("applied")) != canon(doc):
            return "patchrt/round-trip-differs"
    if r["kind"] == "ctor" and isinstance(r["impl"], dict):
        # "every patch produced by the patch constructors from valid input passes validation, and serializing any patch
        # to bytes and parsing it back gives an equal patch whose action and value accessors agree"
        where = "ctor/" + str(r["case"].get("ctor")) + "/"
        if r["case"].get("label") == "valid":
            if r["impl"].get("class") != "ok":
                return where + "valid-input-refused"
            if r["impl"].get("validate") != "ok":
                return where + "produced-patch-fails-validation"
        if r["impl"].get("class") == "ok" and r["impl"].get("bytes_roundtrip") is not True:
            return where + "bytes-round-trip"
    return None


PROPS["C14"] = {
    "property_check": _c14_property,
    "theorem_modules": ["Sidetree.Props.C14", "Sidetree.Props.C14General", "Sidetree.Props.C14Ctor", "Sidetree.Props.C14Bytes"],
    "prescribes": "Sidetree.PatchBuild.fromDocument + Sidetree.Composer.applyPatches (Props.C14)",
    "obligations": [
        {"name": "C14_actionConfig", "facts": ["actionConfig"]},
        {"name": "C14_fromDocumentShape", "facts": ["fromDocumentCases", "jsonPatchAddTemplate"]},
        {"name": "Shape_PatchPkg", "facts": "module:PatchPkg"},
        {"name": "C13_limits", "facts": ["maxIDLength", "maxServiceTypeLength", "idRegexp", "limitOps"]},
        {"name": "Shape_Composer", "facts": "module:Composer"},
    ],
    "streams": [{"gen": "C14", "quick": 4000, "thorough": 200000}, {"gen": "C14ctor", "quick": 3000, "thorough": 150000}, {"gen": "C13", "quick": 1500, "thorough": 60000}],
    "label": lambda r: (r["kind"] + "/" + str(r["case"].get("ctor")) + "/" if r["kind"] == "ctor" else "") +
                       _lab(r, r["model"].get("class") or (r["model"].get("from_bytes", "") + "/" + str(r["model"].get("validate")))),
    "nontrivial": lambda r: r["model"].get("class") == "ok" or r["model"].get("from_bytes") == "ok",
    "shape": lambda r: r["case"].get("doc") or r["case"].get("patch") or r["case"],
    "rule": "documents without an id whose publicKey/service/alsoKnownAs members are non-empty lists (keys of every type, services with every endpoint shape) plus further members with "
            "ordinary names over all Unicode planes and arbitrary simple JSON values; labelled out-of-quantifier shapes (with id, empty id, empty/ill-typed alsoKnownAs, ill-typed publicKey, "
            "non-objects). Compared: PatchesFromDocument result (patch list as values), validation verdict of every produced patch, Bytes()/FromBytes round trip with accessor agreement, "
            "and the document obtained by applying the patches to {}. The eight constructors (NewReplacePatch, NewJSONPatch, NewAddPublicKeysPatch, NewRemovePublicKeysPatch, "
            "NewAddServiceEndpointsPatch, NewRemoveServiceEndpointsPatch, NewAddAlsoKnownAs, NewRemoveAlsoKnownAs) on argument texts: the value member of a patch that passes validation, "
            "in a random JSON spelling (the constructed patch must pass validation too - predicate on the implementation's own answer), that value corrupted, of another JSON type, "
            "with a null / repeated entry, empty, or no JSON at all; compared: accept/refuse, the patch, its validation verdict, its byte round trip. "
            "Non-trivial = patches produced; distinct = distinct document / argument text.",
    "technique": "Lean 4 theorems (document -> patches -> document round trip; action table by decide) + differential correspondence",
    "level_text": "Proved in Lean (Props/C14General.lean, document_roundtrip): for EVERY document in the quantifier - no id; keys, services and also-known-as, where present, non-empty lists of the right shape; any number of further members with ordinary names and arbitrary JSON values; unique names; any member order - PatchesFromDocument succeeds and applying its patches to the empty document with the composer (patch-library model included) yields a document with exactly the same members. Proved in Lean: for every document in the quantifier, applying fromDocument's patches to the empty document succeeds and gives a document with the same members; documents "
                  "with an id are refused; a value is acceptable as a patch iff it has a supported action and that action's value member (table tied to patch.go by an obligation). "
                  "The eight constructors (Props/C14Ctor.lean, model PatchBuild.newPatch): whatever a constructor returns is acceptable as a patch, carries the constructor's action and, under that "
                  "action's value key, exactly the value it was made from - for the id / URI constructors the list of strings the argument decodes to (newPatch_accessors); and for each "
                  "constructor a valid argument - stated on the argument alone: a non-empty list of valid ids; of URIs that parse and differ; of objects meeting the key / service constraints; "
                  "a replace document with the two allowed members; a non-empty operation list the ietf validator accepts - gives a patch that passes validation (remove_validates, "
                  "aka_validates, add_keys_validates, add_services_validates, replace_validates, ietf_validates). Patch -> bytes -> patch (Props/C14Bytes.lean, patch_bytes_roundtrip): the canonical bytes of an acceptable patch whose numbers are plain integers below 2^53 "
                  "(or that has none) are read back, by the strict reader followed by the acceptance test of FromBytes, as the patch's normal form - same action, the value's normal form, and the "
                  "same bytes again; a patch already in normal form comes back identical (patch_bytes_roundtrip_normal). With fractions or exponent spellings among the patch values, and for what "
                  "Go's encoding/json does beyond JSON values, the bytes round trip rests on the correspondence stream.",
    "level_note": "Trusted: Lean kernel; extractor; harness. The round-trip theorem is stated for ordinary member names (the property's quantifier); names that need escaping are covered by the stream since the D30 repair.",
}


def _steps(r):
    st = r["model"].get("steps") if isinstance(r["model"], dict) else None
    if st is None:
        return "ood"
    labs = r["case"].get("labels", [])
    return "|".join(f"{labs[i] if i < len(labs) else '?'}={s.get('class')}" for i, s in enumerate(st))


def _apply_property(r):
    imp = r["impl"]
    if not isinstance(imp, dict):
        return None
    if "earlier_version_changed" in imp:
        return "apply/earlier-version-changed"
    for s in imp.get("steps", []):
        if s.get("mutated"):
            return "apply/input-mutated"
        if s.get("class") == "err" and s.get("nil_on_err") is False:
            return "apply/state-returned-with-error"
        if s.get("class") in ("panic", "killed"):
            return "apply/" + s["class"]
    return None


_APPLIER_OBL = [{"name": "Shape_Applier", "facts": "module:Applier"}]
_PARSER_OBL = [{"name": "Shape_Parser", "facts": "module:Parser"}]
_JWS_OBL = [{"name": "Shape_Jws", "facts": "module:Jws"}]
_APPLY_TRUST = ["signature verdicts: the harness's own verifier (Go crypto/ecdsa, crypto/ed25519, btcec curve parameters) on the (key, signing input, signature) triple "
                "the harness derives with its own framing code; the model derives the triple itself and only looks the verdict up"]

PROPS["C01"] = {
    "theorem_modules": ["Sidetree.Props.C01"],
    "prescribes": "Sidetree.Props.C01.Spec.step (= Sidetree.Applier.apply by apply_eq_spec)",
    "obligations": _APPLIER_OBL + _PARSER_OBL + [
        {"name": "C09_anchorUntilParamApplier", "facts": ["anchorUntilParamApplier"]},
        {"name": "C09_windowRefusals", "facts": ["windowUnsetGuard", "windowRefusals"]}],
    "streams": [{"gen": "C01", "quick": 3000, "thorough": 150000}],
    "property_check": _apply_property,
    "label": _steps,
    "nontrivial": lambda r: isinstance(r["model"], dict) and any(s.get("class") == "ok" for s in r["model"].get("steps", [])),
    "shape": lambda r: [o["req"] for o in r["case"]["ops"]],
    "rule": "histories of 1-8 real, signed operations (five key types, both hash algorithms, keys with and without nonce, anchor origins of every JSON type) built by the harness's own "
            "operation builder; every position holds a valid operation or one labelled invalid one out of ~90 mutation kinds (signature, framing, payload, key, reveal value, delta, hash, "
            "headers, commitments, window, sizes and configuration limits, malformed JSON, type confusion); histories that start with a non-create, contain a second create, "
            "operations anchored under another type, and end at a deactivate; random anchoring tuples and pre-existing operation lists. After every step the class and all 15 state "
            "fields are compared (nil vs empty distinguished). Non-trivial = at least one accepted step; distinct = distinct request bytes.",
    "technique": "Lean 4 refinement theorem (staged code = rule table) and corollaries + go/ast shape obligations + differential correspondence on real signed histories",
    "level_text": "Proved in Lean for every configuration, oracle, operation and state: Applier.apply (the staged mirror of the Go code that the driver runs against the implementation) equals "
                  "the rule table Spec.step; from it: create needs an empty state, the others an existing one; refused keeps the state, accepted replaces it; resolution is a left fold "
                  "(unbounded length); per type the complete bookkeeping table, the exact conditions under which update commitment and document are installed, update changes nothing "
                  "else, deactivate clears commitments and sets the flag. The control skeleton and every ResolutionModel literal of operationapplier.go and the parser functions are "
                  "regenerated from the Go AST on every run and must equal the reviewed ones.",
    "level_note": "Trusted: Lean kernel; extractor; harness builder and verifier; Go's encoding/json struct decoding is modelled (exact-case names, no duplicate members) and validated by "
                  "the stream. The signature verdict is an oracle.",
    "trusted": _APPLY_TRUST,
}

PROPS["C02"] = {
    "theorem_modules": ["Sidetree.Props.C02"],
    "prescribes": "Sidetree.Props.C02.update_authorised / recover_authorised / deactivate_authorised",
    "obligations": _APPLIER_OBL + _PARSER_OBL + _JWS_OBL,
    "streams": [{"gen": "C02", "quick": 3000, "thorough": 150000}],
    "property_check": _apply_property,
    "label": _steps,
    "nontrivial": lambda r: isinstance(r["model"], dict) and len(r["model"].get("steps", [])) == 2,
    "shape": lambda r: [o["req"] for o in r["case"]["ops"]],
    "rule": "create followed by one update / recover / deactivate, valid or tampered: signature bit flips, truncation, padding, 2/4 segments, bad base64, newline inside a segment, "
            "payload field re-encoded without re-signing, payload whitespace, key substituted with and without re-signing (also with its own reveal value), reveal value of another "
            "key / algorithm / malformed, delta substituted after signing, extra / missing / empty / none / non-string / not-allowed / other-key-type alg, headers that are not an object, "
            "header segment respelled and signed over the spelled segment, curve not allowed, nonce sizes, missing key or key members, off-curve key. The verdict for the triple the "
            "model derives comes from the harness's independent verifier. Non-trivial = both steps evaluated; distinct = distinct request bytes.",
    "technique": "Lean 4 theorems by inversion of the parser/applier model + oracle signature verdicts + differential correspondence on tampered operations",
    "level_text": "Proved in Lean: whenever apply accepts an update, recover or deactivate, its signed data is a compact JWS with a JSON-object header naming a non-empty allowed algorithm and "
                  "nothing but alg/kid, the oracle accepts the signature for exactly (key inside the signed data, signature bytes, re-marshalled-header signing input), that key hashes to "
                  "the reveal value; for update the delta hashes to the signed delta hash; for recover the installed recovery commitment and anchor origin are the signed ones and any "
                  "content from the delta requires the hash; for deactivate the signed suffix equals the operation's. Unforgeability itself is the primitive's and is not claimed.",
    "level_note": "Trusted: Lean kernel; extractor; harness; Go crypto as the oracle. 'Someone without the private key cannot produce a verifying signature' is ECDSA/EdDSA unforgeability.",
    "trusted": _APPLY_TRUST,
}

PROPS["C03"] = {
    "theorem_modules": ["Sidetree.Props.C03", "Sidetree.Props.C05Spelling", "Sidetree.Props.C03Values", "Sidetree.Props.CollideAt"],
    "prescribes": "Sidetree.Parser.parse (Props.C03.create_self_certifying, suffix_binds, delta_binds)",
    "obligations": _PARSER_OBL + [{"name": "C03_uniqueSuffix", "facts": ["uniqueSuffixCalls"]},
                                  {"name": "C06_validCompare", "facts": ["isValidCompare", "isValidCalls"]}],
    "streams": [{"gen": "C03", "quick": 3000, "thorough": 150000}],
    "label": lambda r: _lab(r, r["model"].get("class")),
    "nontrivial": lambda r: r["model"].get("class") == "ok",
    "shape": lambda r: r["case"]["req"],
    "rule": "create requests over all patch kinds, anchor origins of every JSON type, optional type, algorithm lists [18], [19], [18,19], [19,18] with the request hashed under the "
            "first or the second; each in canonical form and two re-spellings (member order at every level, whitespace, escapes, number spellings), and with one field modified "
            "(recovery commitment, anchor origin, type, delta with and without the matching hash). Compared: accept/reject, suffix, id, anchor origin, validator calls.",
    "technique": "Lean 4 theorems (suffix formula, hash binding with explicit collision alternative, member-order invariance) + differential correspondence",
    "level_text": "Where a theorem of this property concludes '... or the hash family has a collision', Props/CollideAt.lean restates it with the colliding pair NAMED (CollidesAt H c a b: the canonical bytes of the two values concerned collide under the function of code c) - the bare existential 'some collision exists' is true of every hash function by counting and would make the alternative empty of content. Proved in Lean (Props/C03Values.lean): the binding theorems hold for values, not only canonical bytes - two suffix data with one suffix agree in delta hash, recovery commitment, type and (up to member order inside it) anchor origin, and are equal outright when the anchor origin is absent or a string, or the hash family has an explicit collision (suffix_binds_value, suffix_binds_equal); two deltas validating against one hash have the same update commitment and the same patches up to normal form (delta_binds_value). Proved in Lean (Props/C05Spelling.lean, Lemmas/Whitespace.lean, EscapeSpelling.lean): request texts that spell one JSON value with different insignificant whitespace and different escape spellings of strings and member names (numbers: plain integers below 2^53) are parsed to the same operation - same suffix, delta, signed data - for the same size (request_spelling_irrelevant); integer-valued number spellings normalize to the plain integer (Lemmas/NumSpelling.lean, normalize_int_valued). Proved in Lean: every accepted create has suffix = model multihash of the re-marshalled suffix data under the first configured algorithm, id = namespace:suffix, and outside "
                  "batch mode a delta that validates against the recorded delta hash; equal suffixes force equal canonical suffix data, and equal delta hashes equal canonical deltas, or "
                  "an explicit hash collision; the decoding of a create request does not depend on top-level member order. Invariance under whitespace/escape/number spelling of the "
                  "text holds because the decoder reads the parsed value; nested member order rests on the stream.",
    "level_note": "Trusted: Lean kernel; extractor; harness. SHA-2 collision resistance is not assumed (collision alternative).",
}

PROPS["C07"] = {
    "theorem_modules": ["Sidetree.Props.C07"],
    "prescribes": "Sidetree.Parser.parse (Props.C07.parse_ok_iff)",
    "obligations": _PARSER_OBL + _JWS_OBL[:0] + [
        {"name": "C09_anchorUntilParamParser", "facts": ["anchorUntilParamParser"]},
        {"name": "C13_limits", "facts": ["maxIDLength", "maxServiceTypeLength", "idRegexp", "limitOps"]}],
    "streams": [{"gen": "C07", "quick": 4000, "thorough": 200000}],
    "label": lambda r: _lab(r, r["model"].get("class")),
    "shape": lambda r: [r["case"]["req"], r["case"]["cfg"]],
    "rule": "a valid request of each of the four types and, three times out of four, one labelled mutation per rule (~90 kinds), with the protocol configuration moved with the mutation: "
            "limits set to the exact size and one below, an entry removed from the algorithm / curve / patch list, two hash algorithms, other nonce sizes; recording anchor-time and "
            "anchor-origin validators that sometimes refuse. Compared: accept/reject, type, suffix, id, anchor origin, request bytes echoed, and the exact arguments both validators "
            "received. All cases non-trivial (every request is parsed by both sides); distinct = distinct (request, configuration).",
    "technique": "Lean 4 iff-theorems (accepted iff allowed, per type and overall) by inversion + go/ast shape obligations + differential correspondence",
    "level_text": "Proved in Lean: Parser.parse accepts a request iff it is within the maximum operation size, decodes, names one of the four types and satisfies that type's acceptance "
                  "predicate (Appendix B), whose conjuncts are themselves characterised: hashes (length limit and configured algorithm), delta (present, patches non-empty, each enabled "
                  "and valid, commitment well-formed, canonical size within limit), signed data (compact JWS, allowed non-empty alg, only alg/kid, valid key on an allowed curve, nonce of "
                  "the configured size), reveal value matching the key, fresh commitments, deactivate suffix; size boundaries; the returned operation carries type, suffix, namespaced id and "
                  "anchor origin. The parser functions' control skeletons and result literals are tied to the Go AST by kernel-checked equalities.",
    "level_note": "Trusted: Lean kernel; extractor; harness; encoding/json struct decoding modelled on its exact-case, duplicate-free domain.",
}

PROPS["C12"] = {
    "theorem_modules": ["Sidetree.Props.C12"],
    "prescribes": "Sidetree.Effects.disciplined_sound on Generated.prog_ApplyPatches / prog_Apply",
    "obligations": [{"name": "Shape_Jcs", "facts": "module:Jcs"}, 
        {"name": "C12_effects", "facts": ["prog_ApplyPatches", "inputs_ApplyPatches", "prog_Apply", "inputs_Apply"]},
        {"name": "C12_copyFirst", "facts": ["applyPatchesFirst", "deepCopyCalls"]},
    ],
    "streams": [{"gen": "C10", "quick": 3000, "thorough": 150000}, {"gen": "C01", "quick": 2000, "thorough": 100000}],
    "compare": _strip({"deviation"}),
    "property_check": lambda r: _apply_property(r) or ("compose/input-mutated" if r["impl"].get("input_mutated") or r["impl"].get("patches_mutated") else
                                                       ("compose/document-returned-with-error" if r["impl"].get("nil_on_err") is False else None)),
    "label": lambda r: r["kind"] + "/" + (str(r["model"].get("class")) if r["kind"] == "compose" else _steps(r)),
    "shape": lambda r: r["case"].get("patches") or [o["req"] for o in r["case"].get("ops", [])],
    "level": "proof",
    "rule": "the C10 patch-list stream (documents x 1-6 patches incl. lists that fail at the k-th patch) and the C01 history stream; before every ApplyPatches / Apply call the harness "
            "takes a deep JSON snapshot of every input (document at all depths, patch values, previous model incl. operation lists, anchored operation) and compares it afterwards; "
            "every earlier state handed out is re-checked at the end of the history; on error the returned document/state must be nil. All cases non-trivial.",
    "technique": "Lean 4 soundness theorem for an effect discipline + regenerated effect summaries decided by the kernel + runtime snapshots (partial)",
    "level_text": "PARTIAL. Proved in Lean: a program of the effect IR that passes the may-alias analysis never writes to an object that existed on entry (induction over the program, any heap). "
                  "The extractor regenerates the IR summaries of ApplyPatches and Apply (callees of the same file inlined, branches flattened) on every run and the kernel decides that "
                  "they pass. Atomicity of failures is proved on the models. Aliasing introduced inside encoding/json or json-patch, and the effect of flattening branches, are not "
                  "covered by the theorem; the snapshot comparison of the two streams covers them at run time.",
    "level_note": "Trusted: Lean kernel; the extractor's translation of Go statements into the IR (views: ParsePublicKeys/ParseServices/StringArray/method calls return aliases of their "
                  "receiver or first argument; other package-qualified calls return fresh values; sort.*/delete/copy write their first argument); harness snapshots.",
}

_KEYS_OBL = [{"name": "Shape_Keys", "facts": "module:Keys"}]

PROPS["C15"] = {
    "theorem_modules": ["Sidetree.Props.C15"],
    "prescribes": "Sidetree.Jws.parse / Jws.verify (Props.C15) with the oracle verdict",
    "obligations": _JWS_OBL + _KEYS_OBL,
    "streams": [{"gen": "C15sign", "quick": 1500, "thorough": 60000}, {"gen": "C15", "quick": 4000, "thorough": 200000}],
    "label": lambda r: _lab(r, r["case"].get("kt", ""), r["model"].get("verify")),
    "nontrivial": lambda r: r["model"].get("verify") is not None,
    "shape": lambda r: [r["case"].get("compact"), r["case"].get("jwk"), r["case"].get("payload"), r["case"].get("d"), r["case"].get("seed")],
    "rule": "(a) for each of the five key types (EC keys with a leading zero byte in a coordinate over-represented) and random payloads: sign with the library's own signers "
            "(ecsigner / edsigner through signutil.SignPayload), derive the JWK with pubkey.GetPublicKeyJWK, verify with jwsutil.VerifyJWS; the harness additionally verifies the "
            "produced signature itself with Go's standard library and checks the fixed signature width and the headers. (b) compact strings signed by the harness's own signer, intact "
            "and tampered: single-bit changes in each segment, other key of the same / another type, signatures of the wrong length (shorter, longer, doubled), every malformed split, "
            "bad base64, header without alg / not an object, unsupported kty/crv, header or payload changed without re-signing, r or s with a leading zero byte (rejection sampling), "
            "header respelled with the same content, off-curve and wrong-width keys. Non-trivial = verification attempted; distinct = distinct (string, key).",
    "technique": "Lean 4 theorems on JWS framing and fixed-width r||s + oracle verdicts from Go's standard library + differential correspondence (partial)",
    "level_text": "PARTIAL (crypto half). Proved in Lean: a successful parse means three segments that decode, a JSON-object header with alg, non-empty payload and signature; any other "
                  "segment count and the JSON serialization are refused; the verdict of VerifyJWS is the oracle's verdict on exactly (key, decoded signature bytes, signing input built from "
                  "the re-marshalled headers and the payload); the signing input determines header bytes and payload bytes (injectivity through base64url and the dot separator); r and s "
                  "survive the fixed-width encoding, whose length is exactly twice the coordinate width, and any other length is refused. NOT provable here: that a signature verifies "
                  "only under the matching key and only over the same bytes (ECDSA/EdDSA unforgeability) - the oracle is Go's standard library and the stream compares the "
                  "implementation against it on every tampering.",
    "level_note": "Trusted: Lean kernel; extractor; harness verifier (crypto/ecdsa, crypto/ed25519, curve parameters of btcec). go-jose's JSON decoding of headers is modelled on UTF-8 input.",
    "trusted": _APPLY_TRUST,
}

PROPS["C16"] = {
    "theorem_modules": ["Sidetree.Props.C16"],
    "prescribes": "Sidetree.ecToJwk / ecFromJwk / edFromJwk (Props.C16.ec_roundtrip, fixed_width, reject_invalid)",
    "obligations": _KEYS_OBL + _JWS_OBL,
    "streams": [{"gen": "C16", "quick": 1500, "thorough": 60000}, {"gen": "C16parse", "quick": 4000, "thorough": 200000}],
    "label": lambda r: _lab(r, r["model"].get("parse", r["model"].get("to"))),
    "shape": lambda r: r["case"].get("jwk") or [r["case"].get("curve"), r["case"].get("x"), r["case"].get("y")],
    "rule": "(a) public keys of the five types, half of the EC keys having a coordinate with one or two leading zero bytes (rejection sampling), converted with pubkey.GetPublicKeyJWK "
            "and read back with jwsutil.JWK.UnmarshalJSON / GetED25519PublicKey; compared: kty, crv, the exact base64url coordinates, the recovered coordinates. (b) JWKs to be read: "
            "valid, one bit of a coordinate flipped (off-curve), coordinate with a byte stripped / a zero byte added / minimal encoding, curve name swapped, coordinate missing / "
            "empty / bad base64, Ed25519 x of 31, 33, 64, 0 bytes. All cases non-trivial; distinct = distinct key / JWK.",
    "technique": "Lean 4 theorems with the concrete curve equations (round trip, fixed width, rejection) + differential correspondence (partial for Ed25519 point validity)",
    "level_text": "Proved in Lean for P-256, P-384, P-521 and secp256k1 with their concrete field primes and coefficients: every on-curve point converts to a JWK with kty EC and the curve's "
                  "name whose coordinates decode to exactly the curve's width (leading zeros preserved), and reading that JWK back yields the same curve and point; a JWK is read only if "
                  "the curve is one of the four, both coordinates are present with exactly that width and the point satisfies the curve equation; the encoding is a function of the key "
                  "alone. Ed25519: a 32-byte key that encodes a point of edwards25519 round-trips, and both readers (GetED25519PublicKey and the exported JWK.UnmarshalJSON) accept an x only if it decodes to exactly 32 bytes that encode a point (y below the field prime, x^2 a square; the arithmetic is the model's own, validated by the stream).",
    "level_note": "Trusted: Lean kernel (incl. `decide +kernel` for the four prime-width facts); extractor; harness. go-jose's EC handling is modelled, not verified; the stream validates it.",
}


def _sort_ops(v):
    """order among operations with equal (time, number) is unspecified (sort.Slice is not stable)"""
    if isinstance(v, dict):
        out = {}
        for k, x in v.items():
            if k in ("publishedOperations", "unpublishedOperations") and isinstance(x, list):
                out[k] = sorted(x, key=lambda o: (o.get("transactionTime", 0), o.get("transactionNumber", 0), json.dumps(o, sort_keys=True)))
            else:
                out[k] = _sort_ops(x)
        return out
    if isinstance(v, list):
        return [_sort_ops(x) for x in v]
    return v


def _op_lists(impl):
    try:
        method = impl["result"]["didDocumentMetadata"]["method"]
    except (KeyError, TypeError):
        return {}
    return {k: method[k] for k in ("publishedOperations", "unpublishedOperations") if isinstance(method.get(k), list)}


def _without_n(v):
    """drop the harness's note (the transaction number an unpublished operation's request names)"""
    if isinstance(v, dict):
        return {k: ([{a: b for a, b in o.items() if a != "n"} if isinstance(o, dict) else o for o in x]
                    if k == "unpublishedOperations" and isinstance(x, list) else _without_n(x)) for k, x in v.items()}
    if isinstance(v, list):
        return [_without_n(x) for x in v]
    return v


def _c18_order_property(r):
    """"in anchoring order, by transaction time and then transaction number" - on the implementation's own lists
    (the comparison with the model leaves the order among equal (time, number) open, so it sorts both sides)"""
    if r["kind"] not in ("transform", "gtransform") or not isinstance(r["impl"], dict):
        return None
    for name, ops in _op_lists(r["impl"]).items():
        keys = [(o.get("transactionTime", 0), o.get("transactionNumber", o.get("n", 0))) for o in ops if isinstance(o, dict)]
        if keys != sorted(keys):
            return "transform/" + name + "-not-in-anchoring-order"
    return None


def _cmp_transform(kind, case, impl, model):
    from check import canon, first_diff
    if isinstance(impl, dict) and "keys_validated" in impl:
        impl = {k: v for k, v in impl.items() if k != "keys_validated"}   # the harness's note for the predicate
    impl = _without_n(impl)
    a, b = canon(_sort_ops(impl)), canon(_sort_ops(model))
    return None if a == b else first_diff(a, b)


import json  # noqa: E402


def _frag(i):
    return i.rsplit("#", 1)[-1]


def _vdr_summary(res):
    """what harness/internal/impl/vdr.go:resolutionSummary extracts from did-go's reading, computed from the model's result"""
    d = res["didDocument"]
    md = res.get("didDocumentMetadata") or {}
    vms = []
    for vm in d.get("verificationMethod") or []:
        if "publicKeyJwk" in vm:
            mat = "jwk:" + vm["publicKeyJwk"].get("x", "")
        elif "publicKeyBase58" in vm:
            mat = "b58:" + vm["publicKeyBase58"]
        else:
            mat = "mb:" + str(vm.get("publicKeyMultibase"))
        vms.append([_frag(vm["id"]), vm["type"], mat])
    vms.sort(key=lambda v: v[0])
    rels = {}
    for name in ("authentication", "assertionMethod", "capabilityDelegation", "capabilityInvocation", "keyAgreement"):
        rels[name] = sorted(_frag(x if isinstance(x, str) else x.get("id", "")) for x in d.get(name) or [])
    method = md.get("method") or {}
    return {"id": d["id"], "vm": vms, "rel": rels, "services": [[_frag(sv["id"]), sv["type"]] for sv in d.get("service") or []],
            "aka": d.get("alsoKnownAs") or [], "equivalentId": md.get("equivalentId") or [],
            "uc": method.get("updateCommitment", ""), "rc": method.get("recoveryCommitment", ""), "published": method.get("published", False)}


def _cmp_c17(kind, case, impl, model):
    from check import canon, first_diff
    if kind != "vdr":
        if isinstance(model, dict) and "premises" in model:
            model = {k: v for k, v in model.items() if k != "premises"}
        return _cmp_transform(kind, case, impl, model)
    if not isinstance(model, dict) or model.get("class") != "ok":
        return None if canon(impl) == canon(model) else first_diff(canon(impl), canon(model))
    want = {"class": "ok", "created": _vdr_summary(model["result"]),
            "read": _vdr_summary(model["read"]) if isinstance(model["read"], dict) else "err"}
    a, b = canon(impl), canon(want)
    return None if a == b else first_diff(a, b)


_C17_MUST_REFUSE = {"single-char-change", "initial-state-respelled", "initial-state-padding", "initial-state-lenient-base64",
                    "foreign-namespace", "short-form", "suffix-of-another-request", "missing-parts", "tampered-initial-state",
                    "initial-state-extra-member", "initial-state-not-a-create", "initial-state-other-type-value",
                    "extra-middle-segments", "suffix-letter-case-flipped"}


def _c17_property(r):
    imp = r["impl"]
    if r["kind"] == "resolve" and r["case"].get("label") in _C17_MUST_REFUSE and isinstance(imp, dict) and imp.get("class") == "ok":
        # "non-canonical or tampered initial states and mismatching suffixes are rejected"; every single-character change;
        # "DIDs of another method (even one sharing a name prefix)": also the namespaces that continue the handler's with a colon (D49)
        return "resolve/" + r["case"]["label"] + "/resolves"
    if r["kind"] == "process" and isinstance(imp, dict) and imp.get("class") == "ok":
        # "a long-form DID ... returned when a create request is processed, resolves ... to" the same result
        if imp.get("resolve_again") != imp.get("result"):
            return "process/returned-did-does-not-resolve-to-the-same-result"
        return None
    if r["kind"] != "vdr" or not isinstance(imp, dict) or imp.get("class") != "ok":
        return None
    if imp.get("not_deterministic"):
        return "vdr/same-document-different-did"
    if imp.get("read") != imp.get("created"):
        return "vdr/read-differs-from-create"
    # every key referenced from exactly the relationships the caller listed it under, once
    doc = r["case"]["doc"]
    want = {}
    for name in ("authentication", "assertionMethod", "capabilityDelegation", "capabilityInvocation", "keyAgreement"):
        want[name] = sorted(set(_frag(e["id"]) for e in doc.get(name) or []))
    if imp["created"]["rel"] != want:
        return "vdr/relationships-not-as-supplied"
    ids = sorted(set(i for v in want.values() for i in v))
    if [v[0] for v in imp["created"]["vm"]] != ids:
        return "vdr/keys-not-as-supplied"
    if sorted(imp["created"]["aka"]) != sorted(doc.get("aka") or []) or [s[0] for s in imp["created"]["services"]] != [s["id"] for s in doc.get("services") or []]:
        return "vdr/services-or-aka-not-as-supplied"
    if imp["created"]["equivalentId"] != [imp["created"]["id"].rsplit(":", 1)[0]]:
        return "vdr/equivalent-id"
    return None

PROPS["C17"] = {
    "theorem_modules": ["Sidetree.Props.C17", "Sidetree.Props.C17Vdr", "Sidetree.Props.C17Reports", "Sidetree.Props.C17Process", "Sidetree.Props.C17ProcessNum", "Sidetree.Props.C17ProcessPinned"],
    "prescribes": "Sidetree.Did.resolve / processOperation (Props.C17)",
    "obligations": [{"name": "Shape_Did", "facts": "module:Did"}, {"name": "C17_defaultProtocol", "facts": ["defaultProtocol"]}] + _PARSER_OBL +
                   [{"name": "Shape_Transformer", "facts": "module:Transformer"}, {"name": "Shape_Client", "facts": "module:Client"}],
    "streams": [{"gen": "C17", "quick": 3000, "thorough": 150000}, {"gen": "C17vdr", "quick": 300, "thorough": 20000}],
    "compare": _cmp_c17,
    "property_check": _c17_property,
    "property_on_ood": True,
    "label": lambda r: ("vdr/" + r["model"].get("class", "?") + "/keys=" + str(len(set(_frag(e["id"]) for n in ("authentication", "assertionMethod", "capabilityDelegation", "capabilityInvocation", "keyAgreement") for e in r["case"]["doc"][n])))) if r["kind"] == "vdr" else _lab(r, r["model"].get("class")) + ("" if "premises" not in r["model"] else ("/theorem-premises-hold" if r["model"]["premises"] else "/theorem-premises-not-met")),
    "nontrivial": lambda r: r["model"].get("class") == "ok",
    "shape": lambda r: r["case"].get("did") or r["case"].get("req") or r["case"].get("spec") or r["case"].get("doc"),
    "rule": "create requests that fit the handler's fixed protocol (all patch kinds it allows, three namespaces) turned into long-form DIDs, then: unchanged; every kind of single-character "
            "change; initial state re-encoded with other whitespace / member order, with padding, with non-zero trailing bits, with a line break; namespaces related by prefix (longer, "
            "shorter, with extra colon, upper case); short form; extra middle segments; suffix of another request; missing parts; tampered and re-encoded initial state; initial state "
            "without type / with an extra member / that is an update request. ProcessOperation on create, respelled, truncated, hash-mismatching and non-create requests, followed by "
            "ResolveDocument of the DID it returned. VDR.Create (twice) and VDR.Read on did-go documents with several keys. Every DID of the resolve stream is also given to Parser.ParseDID "
            "directly (the handler looks at the namespace first). Compared: accept/refuse, the whole resolution result, and short / long / error of ParseDID.",
    "technique": "Lean 4 theorems on the resolution model (namespace gate, canonical initial state, shape of resolvable DIDs, self-certification) + go/ast obligations + differential correspondence",
    "level_text": "process_result_resolves_pinned (Props/C17ProcessPinned.lean): the DID that resolves to the returned result IS the id of the DID document inside that result (namespace:suffix:initial-state), not merely some DID. Proved in Lean: a DID resolves only if it begins with the handler's namespace and a colon (so did:foobar never resolves on did:foo); short forms are refused; an initial "
                  "state is accepted only if it is the exact unpadded base64url encoding of the canonical JSON of the request it decodes to; every resolvable DID is exactly "
                  "namespace:suffix:initial-state - nothing between namespace and suffix (resolve_shape, D49) - "
                  "where the request is accepted by the parser under the handler's protocol and the suffix is the sha2-256 model multihash of its suffix data (via C03); the id and "
                  "equivalent id of the result; an offline resolution reports published = false and, in its method metadata, exactly the recovery commitment and anchor origin of the suffix data "
                  "embedded in the DID and the update commitment of the embedded delta; the result is the transformation of a state whose document is the composer's result for the embedded "
                  "delta's patches on the empty document, that delta being valid and hash-bound to the embedded suffix data (resolve_is_what_was_created); the DID ProcessOperation returns resolves on the same handler to the very result it returned, for every namespace containing a colon and every create request whose "
                  "re-marshalled form has no numbers other than plain integers below 2^53 (process_result_resolves_ints, Props/C17ProcessNum.lean: base64url, UTF-8, JSON reader, integer printing and re-marshalling round trips; the driver evaluates these premises on every "
                  "process case of the stream), and so does the DID VDR.Create returns (vdr_create_resolves, the same premise on the request the client builds); the model's protocol value equals the literal in config/protocol.go. 'Resolves to a document equivalent to the one supplied' and "
                  "'creation is deterministic' rest on the correspondence (ProcessOperation then ResolveDocument compared in full; VDR.Create repeated).",
    "level_note": "Trusted: Lean kernel; extractor; harness. did-go's document (un)marshalling used by VDR.Create/Read is not modelled: the VDR stream checks the round trip with an oracle "
                  "written in the harness (key ids, purposes, services, also-known-as survive; same input gives the same DID).",
}

def _c18_info_property(r):
    """canonical and equivalent ids "as given": the published info names the canonical id and one id per equivalent reference"""
    if r["kind"] == "transform" and isinstance(r["impl"], dict) and r["impl"].get("class") == "err" and r["impl"].get("keys_validated"):
        info, st = r["case"].get("info") or {}, r["case"].get("state") or {}
        if isinstance(info.get("id"), str) and isinstance(info.get("published"), bool) and isinstance(st.get("doc"), dict):
            # "every internal document built from validated keys" has a resolution result
            return "transform/validated-keys/no-result"
    if r["kind"] != "tinfo" or not r["case"].get("published"):
        return None
    c, info = r["case"], r["impl"].get("info") or {}
    canonical = c["ns"] + (":" + c["cr"] if c["cr"] else "") + ":" + c["suffix"]
    want = [canonical] + [c["ns"] + ":" + e + ":" + c["suffix"] for e in (c.get("er") or [])]
    if info.get("canonicalId") != canonical:
        return "tinfo/canonical-id"
    if info.get("equivalentId") != want:
        return "tinfo/equivalent-ids-not-as-given"
    return None


PROPS["C18"] = {
    "theorem_modules": ["Sidetree.Props.C18", "Sidetree.Props.C18Base58"],
    "prescribes": "Sidetree.Transformer.transform (Props.C18)",
    "obligations": [{"name": "Shape_Transformer", "facts": "module:Transformer"}, {"name": "C18_tables", "facts": ["keyContexts", "purposeSwitch", "sortCmp"]}],
    "streams": [{"gen": "C18", "quick": 4000, "thorough": 200000}, {"gen": "C18info", "quick": 600, "thorough": 20000}],
    "compare": _cmp_transform,
    "property_check": lambda r: _c18_info_property(r) or _c18_order_property(r),
    "label": lambda r: ("tinfo/" + ("published/refs=%d%s" % (len(r["case"].get("er") or []), "/canonical" if r["case"].get("cr") else "") if r["case"].get("published") else
                                   "unpublished" + ("/label" if r["case"].get("label") else "") + ("/domain" if r["case"].get("domain") else "") + ("/long" if r["case"].get("jcs") else "")))
                       if r["kind"] == "tinfo" else
                       r["model"].get("class", "?") + "/" + ("base" if r["case"]["opts"].get("base") else "abs") + ("/pub" if r["case"]["opts"].get("pub") else "") + ("/unpub" if r["case"]["opts"].get("unpub") else ""),
    "nontrivial": lambda r: r["kind"] == "tinfo" or r["model"].get("class") == "ok",
    "shape": lambda r: r["case"] if r["kind"] == "tinfo" else [r["case"]["state"], r["case"]["info"], r["case"]["opts"]],
    "rule": "internal documents with 0-4 keys of every type (JWK of every curve, base58, Ed25519 keys for the 2018/2020 types incl. wrong-width ones, no material, unknown type), every subset "
            "and order of purposes, 0-3 services with every endpoint shape and extra members, also-known-as; states with and without commitments, anchor origin, times, version id, "
            "deactivated flag; published and unpublished operation lists with arbitrary (time, number) pairs incl. disagreeing ones, exact duplicates and repeated canonical references; "
            "info with and without canonical / equivalent ids, occasionally without id / published; all 16 option combinations and 0-3 method contexts; every fourth state also goes through the generic document transformer (doctransformer). The transformation info docutil builds for published (canonical reference, 0-3 equivalent references) and unpublished (label, domain, long form) states. Compared: the whole result "
            "(operation lists as multisets: the order among equal (time, number) is open), and - on the implementation's own lists - that they are in (time, number) order, the number of an "
            "unpublished operation being read from the request the harness plants. Non-trivial = transformed; distinct = distinct (state, info, options).",
    "technique": "Lean 4 theorems (sorted permutation, de-duplication, per-key fields, relationships, contexts, metadata table) + go/ast table obligations + differential correspondence",
    "level_text": "Proved in Lean (Props/C18Base58.lean, Lemmas/Base58.lean): base58 is lossless (base58_roundtrip against a decoder mirroring btcutil's, every length, leading zero bytes included), so the publicKeyBase58 / publicKeyMultibase text the transformer writes for an Ed25519 key decodes back to the key and equal texts mean equal keys (ed2018_key_recoverable, ed2018/ed2020_same_text_same_key). Proved in Lean: operations are listed as a permutation of the input sorted lexicographically by (transaction time, transaction number); the published list has no canonical "
                  "reference twice, loses none, and is a sorted sublist; every internal key yields exactly one verification method with id DID#id (or #id under @base), its type and "
                  "controller = DID; JWK material is preserved and Ed25519 2018/2020 keys are converted to base58 / multibase(z-base58); a key is referenced from a relationship iff one of "
                  "its purposes names it (with multiplicity); key contexts have no duplicates; every service carries qualified id, type, endpoint; the metadata table (deactivated, canonical "
                  "and equivalent ids as given, created iff published, version id, updated iff version id and updated > 0) and the method metadata table (published flag as given; recovery and update "
                  "commitment each present iff non-empty; anchor origin; operation lists iff asked for and non-empty). The comparator, the key-context map and the purpose switch are "
                  "tied to the Go AST.",
    "level_note": "Trusted: Lean kernel; extractor; harness. base58 and the RFC 3339 calendar arithmetic are executable models validated by the stream.",
}


def _c08_property(r):
    """does the implementation's own output do what the caller asked for (the generator's account)?"""
    from check import canon
    imp = r["impl"]
    if not isinstance(imp, dict) or "steps" not in imp:
        return None
    for st, o in zip(r["case"]["steps"], imp["steps"]):
        e = st["expect"]
        where = "lifecycle/%s/%s/" % (st["via"], st["op"])
        if e.get("refuse") and o.get("built") == "ok":
            return where + e["spoiled"] + "/builder-accepts"
        if not e.get("valid"):
            continue
        if o.get("built") != "ok":
            return where + "valid-input-refused"
        if o.get("parse") != "ok":
            return where + "request-not-accepted-by-parser"
        if o.get("anchored") != o.get("request"):
            return where + "anchored-bytes-differ-from-canonical-request"
        if o.get("atype") != st["op"]:
            return where + "anchored-type"
        if o.get("apply") != "ok":
            return where + "request-not-applied"
        if not o.get("original_same_state"):
            return where + "anchored-applies-differently"
        state = o["state"]
        doc = state.get("doc") or {}
        for member, exp in (("publicKey", e["keys"]), ("service", e["services"])):
            got = {}
            for entry in doc.get(member) or []:
                if entry.get("id") in got:
                    return where + member + "-listed-twice"
                got[entry.get("id")] = entry
            if canon(got) != canon(exp):
                return where + member + "-not-as-requested"
        if sorted(doc.get("alsoKnownAs") or []) != sorted(e["aka"]):
            return where + "alsoKnownAs-not-as-requested"
        if state.get("uc") != e["uc"] or state.get("rc") != e["rc"]:
            return where + "commitments-not-as-requested"
        if bool(state.get("deactivated")) != e["deactivated"]:
            return where + "deactivated-flag"
    return None


def _c08_label(r):
    steps = r["case"]["steps"]
    sp = [s["expect"]["spoiled"] for s in steps if s["expect"].get("spoiled")]
    return steps[0]["via"] + "/" + ">".join(s["op"][0] for s in steps if s["expect"]["valid"]) + ("/+" + ",".join(sp) if sp else "")


PROPS["C08"] = {
    "theorem_modules": ["Sidetree.Props.C08", "Sidetree.Props.C08Window"],
    "prescribes": "Sidetree.Client.new*Request / anchoredJson (Props.C08)",
    "obligations": [{"name": "Shape_Client", "facts": "module:Client"}, {"name": "Shape_Keys", "facts": "module:Keys"}] + _PARSER_OBL + _APPLIER_OBL,
    "streams": [{"gen": "C08", "quick": 1500, "thorough": 60000}],
    "property_check": _c08_property,
    "compare": lambda kind, case, impl, model: (lambda a, b: None if a == b else __import__("check").first_diff(a, b))(
        __import__("check").canon(impl), __import__("check").canon(_drop_keys(model, {"premises"}))),
    "label": lambda r: _c08_label(r) + ("/theorem-premises-hold" if isinstance(r["model"], dict) and any(s.get("premises") is True for s in r["model"].get("steps", [])) else "") +
                       ("/theorem-premises-FAIL" if isinstance(r["model"], dict) and any(s.get("premises") is False for s in r["model"].get("steps", [])) else ""),
    "nontrivial": lambda r: isinstance(r["model"], dict) and all(o.get("apply") == "ok" for s, o in zip(r["case"]["steps"], r["model"].get("steps", [])) if s["expect"]["valid"]),
    "shape": lambda r: [[s["via"], s["op"], s["info"]] for s in r["case"]["steps"]],
    "rule": "lifecycles create -> update* -> recover -> update* -> deactivate (each optional part drawn independently), every request produced by the real builders: half of the cases "
            "through client.New*Request (opaque document or explicit patches, anchor origin, anchoring window), half through the Sidetree client with did-go documents (keys of all five "
            "key types as JsonWebKey2020 / EcdsaSecp256k1VerificationKey2019 / Ed25519VerificationKey2018 with JWK or base58, every purpose subset; services with every endpoint shape, "
            "priority, recipient/routing keys, accept and shared extra-property maps; also-known-as). Updates remove and add keys / services / URIs, one time in three re-adding what they "
            "remove under the same identifier. Both sha2-256 and sha2-512. Before one step in four (builder level) an input the builder must refuse (equal commitments, key reuse, "
            "commitment under another hash algorithm) or another malformed input (12 kinds) is tried. Signatures come from a table the generator fills from its own construction of the "
            "signing input. Each request is parsed, converted with GetAnchoredOperation, and both byte strings are applied. Compared with the model: every request byte for byte, parse "
            "verdict, anchored bytes / type / suffix / origin, every state. Checked against the generator's own account of what was asked: acceptance, anchored = canonical request, "
            "document entries by id, also-known-as, commitments, deactivated flag, refusals.",
    "technique": "Lean 4 theorems (built requests satisfy the parser's acceptance predicate; anchored form re-parses to the same operation; refusals) + go/ast shape obligations + "
                 "differential correspondence of builders, parser and applier on whole lifecycles",
    "level_text": "Proved in Lean (requests as JSON values, any hash family, configuration and oracle): a create request built by NewCreateRequest from valid inputs is accepted by a "
                  "parser whose protocol names the builder's hash algorithm, and the parsed operation carries the requested delta, recovery commitment and anchor origin, its suffix being "
                  "the multihash of its suffix data; anchored and applied to the empty state it yields exactly the composer's result for the caller's patches and the caller's commitments "
                  "(built_create_yields). Update, recover and deactivate requests built by the builders are accepted: without an anchoring window (the Sidetree client never sets one; anchor "
                  "origin absent or a string; protected header names and values plain strings) unconditionally in the inputs (update/recover/deactivate_built_accepted_unwindowed) - "
                  "the read-back of the compact JWS is proved (Lemmas/Framing.lean: three dot-free base64url segments, UTF-8, Go's header marshalling, the JSON reader and RFC 8785 "
                  "give signModel_reads_back, and decoding the normal form of the signed model yields the signed fields); with a window whose bounds are at most 2^53 in magnitude - every window the builders' guard admits - likewise "
                  "unconditionally (update/recover/deactivate_built_accepted_windowed, Props/C08Window.lean: the integer members are printed as digits and read back as the same integers - "
                  "Lemmas/NumInt*.lean, RoundTripNum.lean, FramingNum.lean; the two bounds +-2^53 by kernel evaluation of the printer), so the theorems apply to the builders "
                  "themselves (newUpdateRequest_accepted, newDeactivateRequest_accepted). The driver evaluates the hypotheses of the windowed theorems on every built step. Everything else the parser demands (reveal "
                  "value, key freshness, delta, hashes, windows) is derived from the builders' own checks. Recover additionally needs update != recovery commitment, which the builder "
                  "does not enforce (known finding D11). Builders refuse equal commitments (create), commitments under another or an unsupported hash algorithm, key reuse (update, "
                  "recover), missing or double content, bad signers. "
                  "GetAnchoredOperation: for every accepted request of each type the re-assembled request is parsed, in the parser's and in the applier's mode, to the very same "
                  "operation (anchored_create/update/recover/deactivate) and the applier returns the same outcome on it as on the original for every state (anchored_applies_alike).",
    "level_note": "Trusted: Lean kernel; extractor; harness (table signer, did-go document construction); kms-go / did-go JSON marshalling of keys and endpoints is taken as given (the "
                  "stream would show a difference).",
    "trusted": _APPLY_TRUST,
}


def _drop_keys(v, keys):
    if isinstance(v, dict):
        return {k: _drop_keys(x, keys) for k, x in v.items() if k not in keys}
    if isinstance(v, list):
        return [_drop_keys(x, keys) for x in v]
    return v


def _cmp_c19(kind, case, impl, model):
    from check import canon, first_diff
    impl = _drop_keys(impl, {"how", "detail", "panic", "deviation"})
    model = _drop_keys(model, {"deviation", "why", "premises"})   # premises: evaluated hypotheses of a theorem, not behaviour
    if isinstance(impl, dict) and impl.get("class") == "killed" and isinstance(model, dict) and model.get("class") == "killed":
        return None
    if kind == "transform":
        return _cmp_transform(kind, case, impl, model)
    a, b = canon(impl), canon(model)
    return None if a == b else first_diff(a, b)


def _died(v):
    """'panic' / 'killed' anywhere in an answer of the implementation"""
    if isinstance(v, dict):
        if v.get("class") in ("panic", "killed"):
            return v["class"]
        for x in v.values():
            d = _died(x)
            if d:
                return d
    elif isinstance(v, list):
        for x in v:
            d = _died(x)
            if d:
                return d
    elif v in ("panic", "killed"):
        return v
    return None


def _c19_property(r):
    d = _died(r["impl"])
    if not d:
        # the copy chain (known finding D47): n copy operations between two lists, kept small enough to answer;
        # the document they produce grows by the golden ratio per operation
        c = r["case"]
        if r["kind"] == "compose" and c.get("label") == "copy-chain" and isinstance(r["impl"], dict) and r["impl"].get("class") == "ok":
            if len(json.dumps(r["impl"].get("doc"))) >= 1.5 ** c["copies"]:
                return "compose/copy-chain/document-grows-exponentially"
        return None
    why = ""
    if isinstance(r["model"], dict) and _died(r["model"]) == "killed":
        why = "/huge-array-index"      # the model predicts this death: an array index beyond JsonPatch.blowupIndex
    return r["kind"] + "/" + d + why


PROPS["C19"] = {
    "theorem_modules": ["Sidetree.Props.C19"],
    "prescribes": "every model entry point is a total function into a result type whose hazard outcomes (panic, blowup) are explicit; Props.C19 characterises when they occur",
    "obligations": [{"name": "Shape_Jcs", "facts": "module:Jcs"}, {"name": "C19_recoverGuard", "facts": ["recoverGuard"]}, {"name": "Shape_Composer", "facts": "module:Composer"},
                    {"name": "Shape_Did", "facts": "module:Did"}] + _PARSER_OBL + _APPLIER_OBL + _JWS_OBL + _KEYS_OBL +
                   [{"name": "Shape_Transformer", "facts": "module:Transformer"}],
    "streams": [{"gen": "C19compose", "quick": 3000, "thorough": 200000}, {"gen": "C19transform", "quick": 2000, "thorough": 100000},
                {"gen": "C07", "quick": 1500, "thorough": 60000}, {"gen": "C01", "quick": 600, "thorough": 30000}, {"gen": "C02", "quick": 600, "thorough": 30000},
                {"gen": "C13", "quick": 1500, "thorough": 60000}, {"gen": "C11", "quick": 1000, "thorough": 40000}, {"gen": "C14", "quick": 600, "thorough": 30000},
                {"gen": "C15", "quick": 1000, "thorough": 40000}, {"gen": "C16parse", "quick": 800, "thorough": 30000}, {"gen": "C17", "quick": 1000, "thorough": 40000},
                {"gen": "C05", "quick": 1500, "thorough": 60000}, {"gen": "C04chain", "quick": 300, "thorough": 10000}],
    "compare": _cmp_c19,
    "property_check": _c19_property,
    "label": lambda r: r["kind"] + "/" + str((r["impl"].get("class") or r["impl"].get("validate") or r["impl"].get("parse") or "answered") if isinstance(r["impl"], dict) else "answered"),
    "nontrivial": lambda r: True,
    "shape": lambda r: r["case"],
    "rule": "hostile inputs to every entry point, each answered by the implementation in-process under recover() (a Go panic is reported as such) and in a child process with an address "
            "space limit (stack exhaustion, out-of-memory and non-termination kill the child; the death is attributed to the case and the rest re-run): ApplyPatches on patches that never "
            "saw the validator (every op kind with pointers chosen for the library's corner cases: other spellings of one location, targets below their own source, negative / huge / "
            "non-numeric indices, escapes, empty tokens, pointers without a leading slash; wrong JSON types at every position of valid patches; unknown actions); TransformDocument on "
            "documents with a wrong type at every position; plus the malformed and tampered streams of parsing (C07), application (C01, C02), patch validation (C13, C11), document "
            "round trip (C14), JWS / JWK (C15, C16), long-form DIDs and ProcessOperation (C17), canonicalization (C05) and the commitment getters (C04). Compared with the model, whose "
            "hazard outcomes are explicit; any panic or death of the implementation is a violation whatever the model says.",
    "technique": "Lean 4: total model functions with explicit hazard outcomes, theorems characterising when the composer can reach them + go/ast obligations (recover guard, composer "
                 "guard) + differential correspondence on hostile streams with crash attribution",
    "level_text": "Every entry point of the model is a total Lean function (structural recursion or explicit fuel; accepted by Lean's termination checker) whose result type makes the "
                  "library's hazards explicit (R.panic: a Go panic inside the patch library, recovered by the composer; R.blowup: an unrecoverable death). Proved in Lean: the patch "
                  "library's copy makes a document contain itself exactly when the walk to the target passes through the source node (copyMakesCycle), and whenever it does the "
                  "composer's guard holds (guard_excludes_cycle: the guard walks the document along 'from', comparing the two pointers the way the container at hand resolves them - "
                  "ignoring what precedes the first '/', unescaping, exact names in an object, indices read with Atoi in a list - for every document and pointer pair), and it "
                  "refuses nothing else (guard_refuses_only_children: when the guard holds and 'from' resolves, the first tokens of 'path' resolve to the very same nodes); behind the guard the only way one library call, and hence a whole ietf-json-patch, can be fatal is an "
                  "array index at or beyond blowupIndex as the last token of a target (applyGuarded_blowup, applyAll_blowup) - the recorded finding. Memory is not modelled: the second "
                  "recorded finding (a chain of copies grows the document by the golden ratio per operation) is exhibited by a kernel-evaluated witness on fourteen chain lengths, a "
                  "test of the model, not a theorem. The correspondence on hostile "
                  "streams ties the Go code to these total functions: a panic or death where the model answers is a violation.",
    "level_note": "partial: absence of panics in the Go code is established by correspondence with a total model on hostile streams, not by a theorem about Go; memory safety and stack depth "
                  "of the Go runtime are outside any Lean model. Trusted: Lean kernel; extractor; harness crash attribution.",
    "trusted": _APPLY_TRUST,
}


def _c20_property(r):
    imp = r["impl"]
    if not isinstance(imp, dict):
        return None
    if imp.get("data_race"):
        return "stress/data-race"
    if imp.get("class") in ("killed", "panic"):
        return "stress/" + imp["class"]
    if imp.get("mismatch"):
        return "stress/concurrent-answer-differs"
    if imp.get("derived_state_changed"):
        return "stress/derived-models/shared-state-written"
    if imp.get("derived_mismatch"):
        return "stress/derived-models/answer-differs"
    return None


PROPS["C20"] = {
    "theorem_modules": ["Sidetree.Props.C20"],
    "prescribes": "Sidetree.Conc (lock exclusion; registries as atomic operations) and the components as functions of their arguments",
    "obligations": [{"name": "Shape_Conc", "facts": "module:Conc"}, {"name": "Shape_Transformer", "facts": "module:Transformer"}, {"name": "Shape_Composer", "facts": "module:Composer"},
                    {"name": "Shape_Did", "facts": "module:Did"},
                    {"name": "C20_effects", "facts": ["prog_Metadata", "inputs_Metadata", "prog_DocTransform", "inputs_DocTransform", "prog_DidTransform", "inputs_DidTransform"]}]
                   + _PARSER_OBL + _APPLIER_OBL,
    "streams": [{"gen": "C20", "quick": 6, "thorough": 300}],
    "race": True,
    "property_check": _c20_property,
    "compare": lambda kind, case, impl, model: (lambda a, b: None if a == b else __import__("check").first_diff(a, b))(
        __import__("check").canon(_drop_keys(impl, {"data_race", "how", "detail"})), __import__("check").canon(model)),
    "label": lambda r: "stress/g=%d/v=%d" % (r["case"]["goroutines"], r["case"]["versions"]),
    "nontrivial": lambda r: True,
    "shape": lambda r: [r["case"]["goroutines"], r["case"]["versions"], len(r["case"]["lines"]), r["case"]["lines"][0][:200]],
    "rule": "each case: ~160 lines drawn from the parse, apply, compose (validated and hostile), transform, resolve / process, VDR create+read, client lifecycle, patch validation and JWS "
            "streams are answered once sequentially and then by 8-16 goroutines at once (each in its own order) against one shared parser, applier, composer, transformer, document "
            "handler and VDR per configuration; every concurrent answer must equal the sequential one. Then 8-16 goroutines add and look up 8 namespaces in one namespace provider, and "
            "for 30 rounds register the same 3-5 versions in one client registry all at once (exactly one registration of each version may succeed) while looking them up. Derived models: "
            "for up to 16 (state, operation) pairs taken from the apply lines (up to 8 of them updates that do not take, whose result keeps the state's document), the state is given "
            "40 published and 12 unpublished operations in store order, 8-16 goroutines each apply an operation of their own (own canonical reference) to that ONE state and transform "
            "what they get back with the DID transformer and the generic transformer, operation lists included; every answer must equal the one obtained on a state of its own, and "
            "the shared state must come out as it went in. The harness "
            "binary is built with -race; every case runs in its own process and a race report is a violation.",
    "technique": "Lean 4 theorems (readers/writer lock exclusion invariant; properties of every interleaving of atomic registry operations) + go/ast obligations (lock calls around every "
                 "use of the guarded maps; no assignment through a receiver or to a package-level variable in the shared components) + concurrent-vs-sequential differential under the "
                 "Go race detector",
    "level_text": "Proved in Lean: in every reachable state of the readers/writer lock a goroutine inside a write section is the only one inside any section (reachable_exclusive), so a "
                  "write to a guarded map never overlaps another access; for every order in which atomic registry operations take effect - hence for every interleaving of the "
                  "goroutines' programs - registering one version succeeds at most once (register_at_most_once), exactly once for the first to take effect (first_registration_wins), "
                  "and a lookup that takes effect after an add or a successful registration finds a value (lookup_after_put). That one step of that model is a whole critical section is "
                  "justified by a second model in which a section is a sequence of single map accesses interleaved with the other goroutines' steps: a write section runs alone "
                  "(writer_runs_alone: while a goroutine is inside one, every step of the system is its own) and the map does not change while anybody is inside a read section "
                  "(reader_sees_constant_map), both for every reachable state. That every Go method touching the guarded maps is one "
                  "critical section of the right kind, and that no other shared component assigns through its receiver or to a package-level variable, are facts regenerated from the "
                  "Go AST on every run. The transformers get resolution models that share operation lists and documents with the state they were derived from (the applier hands them on): "
                  "effect summaries of metadata.CreateDocumentMetadata and of both TransformDocument functions, regenerated from the Go AST, pass the analysis of Sidetree.Effects "
                  "(C20_effects_*), whose soundness theorem (disciplined_sound) says such a function writes to no object that existed on entry - neither the model nor anything reachable from it.",
    "level_note": "partial: the Go memory model, sync.RWMutex itself and the scheduler are not modelled; 'no execution contains a data race' is established for the executions the stress "
                  "run explores under the race detector, not proved. Trusted: Lean kernel; extractor; harness; the race detector.",
}

PROPS["C04"]["theorem_modules"] = ["Sidetree.Props.C04", "Sidetree.Props.C04Chain", "Sidetree.Props.CollideAt"]
PROPS["C04"]["obligations"] = PROPS["C04"]["obligations"] + _PARSER_OBL

# every declaration of every source file a property is anchored in (properties.jsonl), as one fact per file:
# a change anywhere in an anchored file breaks an obligation of that property, also in helpers no
# hand-picked skeleton names
for _pid, _spec in PROPS.items():
    _spec["obligations"] = list(_spec.get("obligations", [])) + [{"name": "Shape_Anchors" + _pid, "facts": "module:Anchors" + _pid}]

NOT_CLAIMED = {}
