#!/bin/bash
# run every claimed check (quick by default) on the current tree and validate the evidence files
cd "$(dirname "$0")/.."
tier=${1:-quick}
python3 tools/mkmanifest.py >/dev/null
ids=$(python3 -c "import json;print(' '.join(c['property_id'] for c in json.load(open('MANIFEST.json'))['checks']))")
fail=0
for p in $ids; do
  s=$(date +%s); out=$(./check $p $tier 2>&1); rc=$?; e=$(( $(date +%s) - s ))
  echo "$p rc=$rc ${e}s $(echo "$out" | grep -c KNOWN-FINDING) known $(echo "$out" | grep -E 'VIOLATION|MACHINERY' | head -2)"
  [ $rc -ne 0 ] && fail=1
done
python3-vt - <<'PY'
import json,jsonschema,glob
S=json.load(open('/root/.vp/EVIDENCE.schema.json'))
for f in sorted(glob.glob('evidence/*.json')):
    e=json.load(open(f)); jsonschema.validate(e,S)
    c=e['coverage']
    assert c['obligations']==c['discharged'], f
    assert e.get('violations',0)==0, f
print('evidence valid')
PY
exit $fail
