#!/bin/bash
# seedrun.sh <patch.diff> <prop> [<prop> ...] : apply a seeded change to /repo, run the quick checks, undo it.
set -u
patch="$1"; shift
cd /verif
if ! git -C /repo diff --quiet; then echo "/repo is dirty"; exit 2; fi
git -C /repo apply "$patch" || { echo "patch does not apply"; exit 2; }
trap 'git -C /repo checkout -- . ; git -C /repo clean -fdq' EXIT
for p in "$@"; do
  out=$(./check "$p" ${TIER:-quick} 2>&1); rc=$?
  echo "== $p rc=$rc $(echo "$out" | grep -E 'VIOLATION|KNOWN|MACHINERY' | head -3)"
  if [ $rc -eq 1 ]; then python3 - "$p" <<'PY'
import json,sys,glob
p=sys.argv[1]
fs=sorted(glob.glob(f'/verif/replays/{p}-*.json'))
r=json.load(open(fs[-1]))
print('   kind:',r.get('kind'),'| sig:',r.get('signature'),'| diff:',str(r.get('diff'))[:200],'| broken:',r.get('broken_obligations') or [o['name'] for o in r.get('obligations',[])])
PY
  fi
done
