#!/bin/bash
# seedrun_par.sh <ID> <variant...> : run seeded changes of one property against the quick check of that
# property WITHOUT touching /repo or /verif/lean: a private copy of /verif under /tmp/sr/<ID> and the scratch
# worktree $WT_DIR/<ID> (default /tmp/wt5) as VERIF_REPO. Several properties can run side by side.
set -u
id=$1; shift
WT=${WT_DIR:-/tmp/wt5}/$id
SR=/tmp/sr/$id
rm -rf $SR; mkdir -p $SR
rsync -a --exclude .git --exclude hunt --exclude replays /verif/ $SR/verif/
mkdir -p $SR/verif/replays
for v in "$@"; do
  patch=/verif/seeded/$id$v/patch.diff
  git -C $WT checkout -- . ; git -C $WT clean -fdq
  git -C $WT apply $patch || { echo "== $id$v patch does not apply"; continue; }
  rm -f $SR/verif/replays/*
  out=$(cd $SR/verif && VERIF_REPO=$WT ./check $id ${TIER:-quick} 2>&1); rc=$?
  echo "== $id$v rc=$rc $(echo "$out" | grep -E 'VIOLATION|MACHINERY' | head -2)"
  python3 - "$id" "$SR" <<'PY'
import json,sys,glob
p,sr=sys.argv[1:3]
fs=sorted(glob.glob(f'{sr}/verif/replays/{p}-*.json'))
if fs:
    r=json.load(open(fs[-1]))
    print('   kind:',r.get('kind'),'| sig:',r.get('signature'),'| diff:',str(r.get('diff'))[:200],'| broken:',r.get('broken_obligations') or [o['name'] for o in r.get('obligations',[])])
PY
  git -C $WT checkout -- . ; git -C $WT clean -fdq
done
rm -rf $SR
