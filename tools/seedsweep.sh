#!/bin/bash
# run every seeded change against the quick check of its own property; writes seeded/RESULTS.md
cd /verif
out=seeded/RESULTS.md
echo "| seeded change | check | exit | what the check reported | obligations broken |" > $out
echo "|---|---|---|---|---|" >> $out
for d in seeded/C*/; do
  s=$(basename $d); p=${s:0:3}
  if ! git -C /repo diff --quiet; then echo "/repo dirty"; exit 2; fi
  if ! git -C /repo apply /verif/$d/patch.diff 2>/dev/null; then echo "| $s | $p | - | patch does not apply | |" >> $out; continue; fi
  o=$(./check $p quick 2>&1); rc=$?
  git -C /repo checkout -- . ; git -C /repo clean -fdq
  line=$(python3 - "$p" <<'PY'
import json,sys,glob,os
p=sys.argv[1]
f=f'/verif/replays/{p}-quick-1.json'
if os.path.exists(f):
    r=json.load(open(f))
    b=r.get('broken_obligations') or [o['name'] for o in r.get('obligations',[])]
    what=(r.get('kind')+': '+str(r.get('signature') or '')+' — '+str(r.get('diff') or '')[:110]).replace('|','/').replace('\n',' ')
    print(what+' | '+', '.join(b))
else:
    print('nothing | ')
PY
)
  echo "| $s | $p | $rc | $line |" >> $out
done
# leave clean evidence behind
for p in $(ls seeded | grep -o '^C[0-9]*' | sort -u); do ./check $p quick >/dev/null 2>&1; done
cat $out
