#!/bin/bash
# seedsweep_par.sh [jobs]: every live seeded change against the quick check of its property, several
# properties side by side (private copy of /verif + scratch worktree per property; /repo untouched).
# Writes seeded/RESULTS.md.
jobs=${1:-8}
export WT_DIR=/tmp/wtS
mkdir -p $WT_DIR /tmp/srlogs
ids=$(ls /verif/seeded | grep -o '^C[0-9][0-9]' | sort -u)
one() {
  id=$1
  git -C /repo worktree add --detach $WT_DIR/$id HEAD -q 2>/dev/null
  vs=$(ls /verif/seeded | grep "^$id" | sed "s/^$id//" | tr '\n' ' ')
  /verif/tools/seedrun_par.sh $id $vs > /tmp/srlogs/$id.log 2>&1
  git -C /repo worktree remove --force $WT_DIR/$id
}
export -f one
echo $ids | tr ' ' '\n' | xargs -P $jobs -I{} bash -c 'one {}'
python3 - <<'PY'
import re,glob
rows={}
for f in sorted(glob.glob('/tmp/srlogs/C*.log')):
    L=open(f).read().splitlines()
    for i,l in enumerate(L):
        m=re.match(r'== (C\d\d)(\w) rc=(\d+) ?(.*)',l)
        if not m: continue
        k=None
        if i+1<len(L): k=re.search(r"kind: (\S+) \| sig: (.*?) \| diff: (.*) \| broken: \[(.*)\]",L[i+1])
        if k: rows[m.group(1)+m.group(2)]=(m.group(1),m.group(3),f"{k.group(1)}: {k.group(2)} — {k.group(3)[:110]}".replace('|','/'),k.group(4).replace("'",''))
        else: rows[m.group(1)+m.group(2)]=(m.group(1),m.group(3),m.group(4) or 'nothing','')
out=["| seeded change | check | exit | what the check reported | obligations broken |","|---|---|---|---|---|"]
for k in sorted(rows):
    p,rc,what,br=rows[k]; out.append(f"| {k} | {p} | {rc} | {what} | {br} |")
open('/verif/seeded/RESULTS.md','w').write('\n'.join(out)+'\n')
print(len(rows),'rows;',sum('failing-input:' in r[2] for r in rows.values()),'with failing input')
for k,r in sorted(rows.items()):
    if 'failing-input:' not in r[2]: print('NOT:',k,r)
PY
